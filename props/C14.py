"""C14 — source maps survive storage and offset rewriting (DESIGN.md §4 C14)."""
from __future__ import annotations

import random

from pyvc.run import run_t1, replay_t1, load_natives
from vlib.result import Ctx, PropResult, StandIn, Violation

MODULES = ["source_map", "compiler_utils"]  # compiler_utils: SourceMapBuilder.add_macro_opcode establishes rewrite_offsets' precondition
SM = "explorerscript.source_map"


def run(ctx: Ctx) -> PropResult:
    res = run_t1(MODULES, None, "C14", ctx, timeout_ms=8000, n_cross=400)
    # bounded stand-in for the top-level round trip through real JSON text (also validates the assumed json contract)
    nat = load_natives(MODULES)[SM + ":SourceMap.serialize"]
    rng = random.Random(f"{ctx.seed}:C14:roundtrip")
    n = 3000 if ctx.tier == "quick" else 60000
    distinct = set()
    samples = []
    fails = {}
    for i in range(n):
        args = nat["gen"](rng)
        rep = nat["repr"](args)
        nontrivial = not args["self"].is_empty or len(args["self"]._mappings_macros) > 0
        if nontrivial:
            distinct.add(rep)
        if len(samples) < 2 and nontrivial:
            samples.append(rep[:400])
        try:
            msg = nat["monitor"](args)
        except Exception as e:
            msg = f"{type(e).__name__}: {e}"
        if msg is not None:
            cls = msg.split(":")[0][:80]
            if cls not in fails:
                fails[cls] = (msg, rep)
    res.standins.append(StandIn(contract="SourceMap.deserialize(SourceMap.serialize(m)): equal under __eq__, identical tables field by field, int keys, same text when serialised again", tier="T3", bound=f"{n} seeded random source maps (<= 6 op entries, <= 5 macro entries, <= 3 position marks)", evaluations=n, distinct_nontrivial=len(distinct), samples=samples))
    for cls, (msg, rep) in fails.items():
        res.violations.append(Violation(signature=f"C14:T3:roundtrip:{cls}", what=f"serialize/deserialize round trip: {msg}", input={"contract": SM + ":SourceMap.serialize", "input_repr": rep, "seed": ctx.seed}, contract="round trip", observed=msg))
    # bounded stand-in for the PRODUCER side: source maps the compiler really builds (macros, nested macros, if/elseif chains and
    # switches inside macros = several ops from one source position) satisfy rewrite_offsets' precondition (one object per macro
    # entry), survive storage, and rewriting them follows the return-address rule
    pv, pn, psamples = producer_maps(ctx)
    res.standins.append(StandIn(contract="source maps built by compile(): one object per macro entry; round trip; rewrite_offsets' return-address rule", tier="T3", bound=f"{pn} compiled macro programs x 3 offset mappings (compaction, reversal of routines, dropping every third op)", evaluations=pn * 3, distinct_nontrivial=pn, samples=psamples))
    res.violations += pv
    res.rule = "T1: every obligation generated from the real source of source_map.py against the sidecar contracts; T3: seeded random source maps / offset mappings (distinct = distinct JSON view, non-trivial = at least one entry)"
    res.trusted_base = [
        "pyvc (the VC generator in /verif/pyvc) and its encoding of Python semantics (see DESIGN.md §2.2)",
        "z3 5.1",
        "json.loads(json.dumps(v)) == v up to int keys -> decimal strings and tuples -> lists (assumed contract on the json module; exercised by the T3 round trip on real JSON text)",
        "well-typed heap precondition: tables map int offsets to SourceMapping / MacroSourceMapping objects, one object per key",
    ]
    res.assumptions += res.trusted_base + [
        "termination: proved for the return-address search loop (decreases clause); for-loops over finite containers terminate",
        "SourceMap.serialize/deserialize (the JSON glue: dict/list comprehensions around json.dumps/loads) are checked by the bounded stand-in only; the leaf (de)serialisers, their round-trip lemmas and rewrite_offsets are proved",
    ]
    res.checker_cmd = "./check C14 --tier " + ctx.tier
    return res


PRODUCER_PROGRAMS = [
    # an if/elseif chain without else inside a macro that is called early in a longer script (two surviving ops share one source position)
    "macro chain($v) {\n    if ($v == 1) { a(); } elseif ($v == 2) { b(); } elseif ($v == 3) { c(); }\n    tail($v);\n}\ndef 0 {\n    ~chain($A);\n    x1(); x2(); x3(); x4(); x5(); x6(); x7(); x8(); x9(); x10(); x11(); x12();\n    ~chain($B);\n    y1(); y2(); y3();\n}\n",
    "macro sw($v) { switch ($v) { case 1: a(); break; case 2: b(); break; default: c(); } }\nmacro outer($w) { pre($w); ~sw($w); ~sw(3); post(); }\ndef 0 { ~outer($A); z(); ~outer(2); }\ndef 1 { ~sw(1); q(); q(); q(); q(); ~sw(2); }\n",
    "macro loop($n) { for ($i = 0; $i < $n; $i += 1;) { body($i); if (debug) { break_loop; } } }\ndef 0 { ~loop(3); mid(); ~loop(4); end; }\n",
    "macro r() { a(); if (edit) { return; } b(); }\nmacro m2() { ~r(); c(); ~r(); }\nmacro m3() { ~m2(); d(); }\ndef 0 { ~m3(); e(); ~m3(); f(); }\n",
    "macro w($t) { with (actor $t) { act(); } while ($t < 3) { step(); } p(Position<'m', 1, 2>); }\ndef 0 for actor 2 { ~w(1); ~w(2); }\ncoro C { ~w(3); hold; }\n",
]


def producer_maps(ctx: Ctx):
    import copy

    from explorerscript.source_map import SourceMap
    from explorerscript.ssb_converting.ssb_compiler import ExplorerScriptSsbCompiler

    from contracts.native_source_map import expected_ra, map_view, mon_roundtrip

    viol: list = []
    n = 0
    samples: list = []
    seen: set = set()

    def add(sig: str, what: str, text: str, observed: str) -> None:
        if sig in seen:
            return
        seen.add(sig)
        viol.append(Violation(signature=sig, what=what, input={"contract": "compile() -> source map", "program": text, "seed": ctx.seed}, contract="source maps built by compile()", observed=observed, tier="T3"))

    progs = list(PRODUCER_PROGRAMS)
    try:
        from gen import programs as P

        for prog in P._form_programs():
            if prog.macros:
                progs.append(P.to_text(prog))
    except Exception:  # the generator belongs to other checks; its absence must not break this one
        pass
    for text in progs:
        c = ExplorerScriptSsbCompiler("$PERFORMANCE_PROGRESS_LIST", [])
        try:
            c.compile(text, "/nonexistent/c14.exps")
        except Exception:
            continue
        sm: SourceMap = c.source_map
        if not sm._mappings_macros:
            continue
        n += 1
        if len(samples) < 2:
            samples.append(text[:300])
        objs = list(sm._mappings_macros.values())
        if len({id(o) for o in objs}) != len(objs):
            add("C14:T3:producer:macro-entries-share-one-object", "two macro entries of a compiled source map are the same object: rewrite_offsets would rewrite its return address once per offset", text, f"{len(objs)} entries, {len({id(o) for o in objs})} objects")
            continue
        msg = mon_roundtrip({"self": sm})
        if msg is not None:
            add("C14:T3:producer:roundtrip:" + msg.split(":")[0][:60], "round trip of a compiled source map: " + msg, text, msg)
        offs = sorted(op.offset for r in c.routine_ops for op in r)
        mappings = {
            "compaction": {o: i * 2 + 5 for i, o in enumerate(offs)},
            "routines-reversed": {op.offset: k for k, op in enumerate(op for r in reversed(c.routine_ops) for op in r)},
            "every-third-op-dropped": {o: i for i, o in enumerate(o for j, o in enumerate(offs) if j % 3 != 2)},
        }
        for mname, nm in mappings.items():
            m2 = copy.deepcopy(sm)
            old = {k: v.return_addr for k, v in m2._mappings_macros.items()}
            m2.rewrite_offsets(dict(nm))
            for k, ra in old.items():
                if k in nm:
                    got = m2._mappings_macros[nm[k]].return_addr
                    exp = expected_ra(ra, nm)
                    if got != exp:
                        add(f"C14:T3:producer:rewrite:{mname}", f"rewrite_offsets on a compiled source map ({mname}): return address {ra} of the entry at {k} became {got}, expected {exp}", text, f"{ra} -> {got}, expected {exp}")
    return viol, n, samples


def replay(record: dict, ctx: Ctx) -> bool:
    if record.get("tier") == "T1":
        return replay_t1(MODULES, record)
    if isinstance(record.get("input"), dict) and "program" in record["input"]:
        global PRODUCER_PROGRAMS
        saved = PRODUCER_PROGRAMS
        PRODUCER_PROGRAMS = [record["input"]["program"]]
        try:
            v, _, _ = producer_maps(ctx)
        finally:
            PRODUCER_PROGRAMS = saved
        print("replay:", [x.signature for x in v])
        return any(x.signature == record.get("signature") for x in v)
    # T3: re-run the generator with the recorded seed until the recorded input shows up, or the monitor on the class
    nat = load_natives(MODULES)
    key = record["input"]["contract"]
    rng = random.Random(f"{record['input'].get('seed', 0)}:C14:roundtrip")
    for _ in range(60000):
        args = nat[key]["gen"](rng)
        if nat[key]["repr"](args) == record["input"]["input_repr"]:
            try:
                msg = nat[key]["monitor"](args)
            except Exception as e:
                msg = f"{type(e).__name__}: {e}"
            print("replay:", msg)
            return msg is not None
    print("recorded input not regenerated")
    return False
