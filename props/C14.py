"""C14 — source maps survive storage and offset rewriting (DESIGN.md §4 C14)."""
from __future__ import annotations

import random

from pyvc.run import run_t1, replay_t1, load_natives
from vlib.result import Ctx, PropResult, StandIn, Violation

MODULES = ["source_map"]
SM = "explorerscript.source_map"


def run(ctx: Ctx) -> PropResult:
    res = run_t1(MODULES, None, "C14", ctx, timeout_ms=8000, n_cross=400)
    # bounded stand-in for the top-level round trip through real JSON text (also validates the assumed json contract)
    nat = load_natives(MODULES)[SM + ":SourceMap.serialize"]
    rng = random.Random(f"{ctx.seed}:C14:roundtrip")
    n = 3000 if ctx.tier == "quick" else 60000
    distinct = set()
    samples = []
    fails = {}
    for i in range(n):
        args = nat["gen"](rng)
        rep = nat["repr"](args)
        nontrivial = not args["self"].is_empty or len(args["self"]._mappings_macros) > 0
        if nontrivial:
            distinct.add(rep)
        if len(samples) < 2 and nontrivial:
            samples.append(rep[:400])
        try:
            msg = nat["monitor"](args)
        except Exception as e:
            msg = f"{type(e).__name__}: {e}"
        if msg is not None:
            cls = msg.split(":")[0][:80]
            if cls not in fails:
                fails[cls] = (msg, rep)
    res.standins.append(StandIn(contract="SourceMap.deserialize(SourceMap.serialize(m)): equal under __eq__, identical tables field by field, int keys, same text when serialised again", tier="T3", bound=f"{n} seeded random source maps (<= 6 op entries, <= 5 macro entries, <= 3 position marks)", evaluations=n, distinct_nontrivial=len(distinct), samples=samples))
    for cls, (msg, rep) in fails.items():
        res.violations.append(Violation(signature=f"C14:T3:roundtrip:{cls}", what=f"serialize/deserialize round trip: {msg}", input={"contract": SM + ":SourceMap.serialize", "input_repr": rep, "seed": ctx.seed}, contract="round trip", observed=msg))
    res.rule = "T1: every obligation generated from the real source of source_map.py against the sidecar contracts; T3: seeded random source maps / offset mappings (distinct = distinct JSON view, non-trivial = at least one entry)"
    res.trusted_base = [
        "pyvc (the VC generator in /verif/pyvc) and its encoding of Python semantics (see DESIGN.md §2.2)",
        "z3 5.1",
        "json.loads(json.dumps(v)) == v up to int keys -> decimal strings and tuples -> lists (assumed contract on the json module; exercised by the T3 round trip on real JSON text)",
        "well-typed heap precondition: tables map int offsets to SourceMapping / MacroSourceMapping objects, one object per key",
    ]
    res.assumptions += res.trusted_base + [
        "termination: proved for the return-address search loop (decreases clause); for-loops over finite containers terminate",
        "SourceMap.serialize/deserialize (the JSON glue: dict/list comprehensions around json.dumps/loads) are checked by the bounded stand-in only; the leaf (de)serialisers, their round-trip lemmas and rewrite_offsets are proved",
    ]
    res.checker_cmd = "./check C14 --tier " + ctx.tier
    return res


def replay(record: dict, ctx: Ctx) -> bool:
    if record.get("tier") == "T1":
        return replay_t1(MODULES, record)
    # T3: re-run the generator with the recorded seed until the recorded input shows up, or the monitor on the class
    nat = load_natives(MODULES)
    key = record["input"]["contract"]
    rng = random.Random(f"{record['input'].get('seed', 0)}:C14:roundtrip")
    for _ in range(60000):
        args = nat[key]["gen"](rng)
        if nat[key]["repr"](args) == record["input"]["input_repr"]:
            try:
                msg = nat[key]["monitor"](args)
            except Exception as e:
                msg = f"{type(e).__name__}: {e}"
            print("replay:", msg)
            return msg is not None
    print("recorded input not regenerated")
    return False
