"""C10 - compilation fails only in documented ways and rejects meaningless programs.   (tier T3: bounded stand-in)

Contract on ``ExplorerScriptSsbCompiler(ppl, lookup).compile(text, path)`` evaluated on the REAL code:

  R  (raises)     for EVERY text: the call returns, or raises an instance of ParseError, SsbCompilerError or ValueError
                  (subclasses included - ``isinstance``).  Anything else (IndexError, AssertionError, OSError, ...) is a violation.
  J  (rejects)    for every text of a listed statically-meaningless class: the call raises one of the three types AND afterwards
                  routine_ops / routine_infos / named_coroutines / source_map of the compiler object are all None.
  X  (exit code)  ``python -m explorerscript.cli.compile FILE --settings S`` exits 0 iff the in-process call succeeded,
                  and for a class under J it exits non-zero and prints nothing on stdout.

Input classes (all deterministic; random parts from random.Random(ctx.seed)):
  (a) corpus of valid programs (construct-coverage templates + seeded random programs + /repo/example + tests fixtures)
  (b) token-level corruptions of (a): delete / duplicate / swap-adjacent / replace one token at each position;
      char-level truncations at every prefix length of a few programs; random unicode strings; meta attribute lines
  (c) one generator per listed invalid class, the construct embedded at several nesting positions, AND placed after every kind
      of complete valid construct (each loop kind incl. `while not`, for, forever, nested loops; switch; if/elseif/else; with;
      message switch; macro call; label/jump; return) - later in the same routine, in a later routine, in a later macro, and in
      the next compile() of the same compiler object (state that a finished construct leaves on the compiler's stacks)
  (d) degenerate routines (only exception TYPE is checked - the property allows success)
  (e) import graphs with <= 3 files in a scratch directory (cycles, self import, missing file, routines in imported file,
      lookup paths)

This module also exports the corpus generator (``valid_corpus``) used by C11 and C15.
"""
from __future__ import annotations

import hashlib
import io
import itertools
import json
import multiprocessing
import os
import random
import re
import shutil
import subprocess
import sys
import tempfile
import traceback
from concurrent.futures import ThreadPoolExecutor

from vlib.result import Ctx, PropResult, StandIn, Violation

PPL = "$PERFORMANCE_PROGRESS_LIST"
SETTINGS_DOC = {
    "settings": {
        "performance_progress_list_var_name": PPL,
        "dungeon_mode_constants": {
            "open": "DMODE_OPEN",
            "closed": "DMODE_CLOSED",
            "request": "DMODE_REQUEST",
            "open_request": "DMODE_OPEN_AND_REQUEST",
        },
    }
}

CONTRACT_R = (
    "compile(text, path) returns or raises only explorerscript.error.ParseError, explorerscript.error.SsbCompilerError "
    "or ValueError (subclasses included)"
)
CONTRACT_J = (
    "for a statically meaningless program (listed classes) compile() raises ParseError/SsbCompilerError/ValueError and "
    "routine_ops, routine_infos, named_coroutines, source_map are None afterwards"
)
CONTRACT_X = (
    "python -m explorerscript.cli.compile exits non-zero whenever compile() fails, exits 0 with JSON on stdout for valid "
    "programs, and for a listed meaningless program exits non-zero with empty stdout"
)

# ---------------------------------------------------------------------------------------------------------------------
# (a) valid programs
# ---------------------------------------------------------------------------------------------------------------------
INTS = ["0", "1", "2", "3", "-3", "10", "0x1F", "0b101", "0o17", "00"]
DECIMALS = ["1.5", "-0.25", ".5", "12.0"]
CONSTS = ["CONST_A", "ACTOR_PLAYER", "LEVEL_X", "k"]
VARS = ["$VAR_A", "$VAR_B", "$i", "$SCENARIO_MAIN"]
STRINGS = ['"abc"', "'x'", '"a\\nb"', "'it\\'s'", '"q\\"q"', '""', "'''multi\n    line\n    '''", '"""a"""']
LANGSTR = ['{english="Hi"}', "{english='a', german=\"b\",}", '{english="""m\n  l\n  """, french="f"}']
POSMARKS = ["Position<'m0', 1, 2>", 'Position<"m1", 10.5, 0>', "Position<'m2', 3, 4.5>"]
COND_OPS = ["==", "!=", "<", ">", "<=", ">=", "&", "^", "&<<", "FALSE", "TRUE"]
SCN_OPS = ["==", "<", ">", "<=", ">="]
ASSIGN_OPS = ["=", "+=", "-=", "*=", "/="]
OPNAMES = ["op", "WaitExecuteLives", "message_Talk", "camera_SetMyself", "Lock", "se_Play"]


class _G:
    """Seeded generator of valid ExplorerScript statements (text). Labels are numbered per program."""

    def __init__(self, rng: random.Random, posmarks: bool = True):
        self.r = rng
        self.posmarks = posmarks
        self.labels: list[str] = []
        self.nlabel = 0
        self.macros: list[tuple[str, int]] = []  # callable macros (name, arity)

    def pick(self, xs):
        return xs[self.r.randrange(len(xs))]

    def integer_like(self) -> str:
        k = self.r.randrange(10)
        if k < 4:
            return self.pick(INTS)
        if k < 6:
            return self.pick(CONSTS)
        if k < 9:
            return self.pick(VARS)
        return self.pick(DECIMALS)

    def var(self) -> str:
        return self.pick(VARS) if self.r.random() < 0.8 else self.pick(INTS[:4] + CONSTS)

    def arg(self) -> str:
        k = self.r.randrange(10)
        if k < 5:
            return self.integer_like()
        if k < 7:
            return self.pick(STRINGS)
        if k < 9 or not self.posmarks:
            return self.pick(LANGSTR)
        return self.pick(POSMARKS)

    def operation(self, allow_ctx: bool = True) -> str:
        name = self.pick(OPNAMES)
        n = self.r.randrange(4)
        args = ", ".join(self.arg() for _ in range(n))
        if n and self.r.random() < 0.15:
            args += ","
        ctx = ""
        if allow_ctx and self.r.random() < 0.2:
            ctx = "<%s %s>" % (self.pick(["actor", "object", "performer"]), self.pick(INTS[:4] + CONSTS))
        return f"{name}{ctx}({args})"

    def assignment(self) -> str:
        k = self.r.randrange(9)
        v = self.var()
        if k == 0:
            return f"{v} {self.pick(ASSIGN_OPS)} {self.pick(INTS)}"
        if k == 1:
            return f"{v} {self.pick(ASSIGN_OPS)} value({self.var()})"
        if k == 2:
            return f"{v}[{self.pick(INTS[:4])}] = {self.pick(['0', '1'])}"
        if k == 3:
            return f"clear {v}"
        if k == 4:
            return f"init {v}"
        if k == 5:
            return self.pick(["reset dungeon_result", f"reset scn({v})"])
        if k == 6:
            return f"adventure_log = {self.pick(INTS[:4])}"
        if k == 7:
            return f"dungeon_mode({self.pick(INTS[:4] + CONSTS)}) = {self.pick(['DMODE_OPEN', 'DMODE_CLOSED', 'DMODE_REQUEST', 'DMODE_OPEN_AND_REQUEST'])}"
        return f"{v} = scn[{self.pick(INTS[:4])}, {self.pick(INTS[:4])}]"

    def if_header(self) -> str:
        k = self.r.randrange(8)
        if k == 0:
            return f"{self.var()} {self.pick(COND_OPS)} {self.pick(INTS)}"
        if k == 1:
            return f"{self.var()} {self.pick(COND_OPS)} value({self.var()})"
        if k == 2:
            return f"{self.var()}[{self.pick(INTS[:4])}]"
        if k == 3:
            return f"{self.pick(['', 'not '])}{PPL}[{self.pick(INTS[:4])}]"
        if k == 4:
            return f"scn({self.var()}) {self.pick(SCN_OPS)} [{self.pick(INTS[:4])}, {self.pick(INTS[:4])}]"
        if k == 5:
            return self.pick(["", "not "]) + self.pick(["debug", "edit", "variation"])
        return f"{self.var()} == {self.pick(INTS)}"

    def new_label(self) -> str:
        self.nlabel += 1
        name = f"l{self.nlabel}"
        self.labels.append(name)
        return name

    def simple(self, in_loop: bool, in_case: bool, in_macro: bool, for_with: bool = False) -> str:
        k = self.r.randrange(14)
        if k < 5:
            return self.operation(allow_ctx=not for_with)
        if k < 8:
            return self.assignment()
        if k == 8:
            return self.pick(["return", "end", "hold"])
        if k == 9 and in_loop:
            return self.pick(["continue", "break_loop"])
        if k == 10 and in_case:
            return "break"
        if k == 11 and self.labels:
            return self.pick(["jump", "call"]) + " @" + self.pick(self.labels)
        if k == 12 and not for_with:
            return self.pick(["@", "§"]) + self.new_label()
        return self.operation(allow_ctx=not for_with)

    def block(self, depth: int, n: int, in_loop: bool, in_case: bool, in_macro: bool, ind: str) -> str:
        return "".join(self.stmt(depth, in_loop, in_case, in_macro, ind) for _ in range(n))

    def stmt(self, depth: int, in_loop: bool, in_case: bool, in_macro: bool, ind: str = "    ") -> str:
        r = self.r
        k = r.randrange(20) if depth > 0 else r.randrange(9)
        nxt = ind + "    "
        body = lambda il=in_loop, ic=in_case: self.block(depth - 1, r.randrange(3), il, ic, in_macro, nxt)  # noqa: E731
        if k < 8:
            return f"{ind}{self.simple(in_loop, in_case, in_macro)};\n"
        if k == 8:
            if self.macros and r.random() < 0.7:
                name, ar = self.pick(self.macros)
                return f"{ind}~{name}({', '.join(self.arg() for _ in range(ar))});\n"
            return f"{ind}with ({self.pick(['actor', 'object', 'performer'])} {self.pick(INTS[:4] + CONSTS)}) {{ {self.simple(in_loop, in_case, in_macro, for_with=True)}; }}\n"
        if k in (9, 10, 11):
            neg = self.pick(["", "", "not "])
            hdr = " || ".join(self.if_header() for _ in range(self.pick([1, 1, 2])))
            s = f"{ind}if {neg}({hdr}) {{\n{body()}{ind}}}"
            for _ in range(self.pick([0, 0, 1])):
                s += f" elseif {self.pick(['', 'not '])}({self.if_header()}) {{\n{body()}{ind}}}"
            if r.random() < 0.5:
                s += f" else {{\n{body()}{ind}}}"
            return s + "\n"
        if k in (12, 13, 14):
            hdr = self.pick(
                [self.var(), f"scn({self.var()})[0]", "random(4)", "dungeon_mode(2)", "sector()", self.operation(False)]
            )
            s = f"{ind}switch ({hdr}) {{\n"
            ncase = r.randrange(1, 4)
            default_at = r.randrange(ncase + 2)  # may be out of range -> no default
            parts = []
            for ci in range(ncase):
                ch = self.pick(
                    [
                        self.pick(INTS),
                        self.pick(CONSTS),
                        f"{self.pick(COND_OPS)} {self.pick(INTS)}",
                        f"{self.pick(COND_OPS)} value({self.var()})",
                        f"menu({self.pick(STRINGS[:3] + LANGSTR[:1])})",
                        "menu2(3)",
                    ]
                )
                parts.append(("case " + ch, ci))
            if default_at <= ncase:
                parts.insert(default_at, ("default", -1))
            for pi, (hd, _ci) in enumerate(parts):
                last = pi == len(parts) - 1
                n = r.randrange(3)
                if last and n == 0:
                    n = 1  # a switch must not end in an empty case
                bd = self.block(depth - 1, n, in_loop, True, in_macro, nxt + "    ")
                if n and r.random() < 0.5:
                    bd += f"{nxt}    break;\n"
                s += f"{nxt}{hd}:\n{bd}"
            return s + f"{ind}}}\n"
        if k == 15:
            kind = self.pick(["message_SwitchTalk", "message_SwitchMonologue"])
            s = f"{ind}{kind} ({self.var()}) {{\n"
            for ci in range(r.randrange(1, 3)):
                s += f"{nxt}case {self.pick(INTS + CONSTS)}:\n{nxt}    {self.pick(STRINGS[:4] + LANGSTR)}\n"
            if r.random() < 0.5:
                s += f"{nxt}default:\n{nxt}    {self.pick(STRINGS[:4] + LANGSTR)}\n"
            return s + f"{ind}}}\n"
        if k == 16:
            return f"{ind}forever {{\n{body(True, in_case)}{ind}}}\n"
        if k == 17:
            return f"{ind}while {self.pick(['', 'not '])}({self.if_header()}) {{\n{body(True, in_case)}{ind}}}\n"
        if k == 18:
            return (
                f"{ind}for ({self.pick(VARS)} = 0; {self.pick(VARS)} < {self.pick(INTS[:4])}; {self.pick(VARS)} += 1;) "
                f"{{\n{body(True, in_case)}{ind}}}\n"
            )
        return f"{ind}// a comment\n{ind}/* block\n comment */ {self.simple(in_loop, in_case, in_macro)};\n"


def _random_program(rng: random.Random, size: int = 4, with_macros: bool = True) -> str:
    g = _G(rng)
    out = ""
    macro_defs = []
    if with_macros and rng.random() < 0.4:
        nm = rng.randrange(1, 3)
        for mi in range(nm):
            ar = rng.randrange(3)
            params = [f"$p{j}" for j in range(ar)]
            # no position marks inside macro bodies: a macro holding one and called from another macro of the same file
            # makes compile() loop forever (finding C10 'macro-posmark'); that class has its own dedicated witnesses.
            g2 = _G(rng, posmarks=False)
            g2.macros = list(g.macros)  # earlier macros may be called (acyclic)
            body = g2.block(1, rng.randrange(1, 3), False, False, True, "    ")
            if ar:
                body += f"    op({', '.join(params)});\n"
            macro_defs.append(f"macro m{mi}({', '.join(params)}) {{\n{body}}}\n")
            g.macros.append((f"m{mi}", ar))
    kind = rng.randrange(10)
    nr = rng.randrange(1, 3)
    for ri in range(nr):
        g.labels = []
        body = g.block(2, rng.randrange(1, size + 1), False, False, False, "    ")
        bare = re.sub(r"//[^\n]*|/\*.*?\*/", "", body, flags=re.S)
        if all(ln.strip().startswith(("@", "§")) for ln in bare.splitlines() if ln.strip()):
            body = "    first();\n" + body  # a routine of labels only is a *degenerate* routine (class d), not corpus
        if kind == 0:
            head = f"coro CORO_{ri}"
        elif kind in (1, 2) and ri > 0:
            head = f"def {ri} for {rng.choice(['actor', 'object', 'performer'])} {rng.choice(INTS[:4] + CONSTS)}"
        elif kind == 3 and ri > 0:
            head = f"def {ri} {rng.choice(['for_actor', 'for_object', 'for_performer'])}({rng.choice(INTS[:4] + CONSTS)})"
        else:
            head = f"def {ri}"
        if kind == 4 and ri > 0:
            body = "    alias previous;\n"
        out += f"{head} {{\n{body}}}\n"
    # macros may be defined before, after, or between
    where = rng.randrange(2)
    return ("".join(macro_defs) + out) if where == 0 else (out + "".join(macro_defs))


# One small program per construct, so that every construct is in the corpus whatever the seed.
COVERAGE_PROGRAMS: list[tuple[str, str]] = [
    ("ops-args", "def 0 {\n    op(1, -3, 0x1F, 1.5, CONST_A, $VAR_A, \"s\", 'x', {english=\"Hi\"}, Position<'m0', 1, 2.5>);\n    op2<actor ACTOR_PLAYER>(1,);\n}\n"),
    ("assignments", "def 0 {\n    $VAR_A = 1;\n    $VAR_A += 2;\n    $VAR_A -= value($VAR_B);\n    $VAR_A *= 3;\n    $VAR_A /= 4;\n    $VAR_A[2] = 1;\n    clear $VAR_A;\n    init $VAR_A;\n    reset dungeon_result;\n    reset scn($SCENARIO_MAIN);\n    adventure_log = 3;\n    dungeon_mode(3) = DMODE_OPEN;\n    $VAR_A = scn[1, 2];\n}\n"),
    ("if-forms", "def 0 {\n    if ($VAR_A == 1 || $VAR_A < value($VAR_B)) {\n        a();\n    } elseif not ($VAR_A[3]) {\n        b();\n    } elseif (not " + PPL + "[1] || debug || not edit) {\n        c();\n    } else {\n        d();\n    }\n    if (scn($SCENARIO_MAIN) >= [1, 2]) { e(); }\n    if not (variation) { }\n    f();\n}\n"),
    ("switch-forms", "def 0 {\n    switch ($VAR_A) {\n        case 1:\n        case CONST_A:\n            a();\n            break;\n        default:\n            b();\n        case > 3:\n            c();\n        case == value($VAR_B):\n            d();\n            break;\n        case menu(\"x\"):\n        case menu2(3):\n            e();\n    }\n    switch (scn($SCENARIO_MAIN)[0]) { case 1: a(); }\n    switch (random(4)) { case 0: a(); default: b(); }\n    switch (dungeon_mode(2)) { case DMODE_OPEN: a(); }\n    switch (sector()) { case 1: a(); }\n    switch (op(1)) { case FALSE 3: a(); }\n    switch ($VAR_A) { }\n}\n"),
    ("message-switch", "def 0 {\n    message_SwitchTalk ($VAR_A) {\n        case 1:\n            \"one\"\n        case 2:\n            {english=\"two\", german='zwei'}\n        default:\n            '''multi\n            line'''\n    }\n    message_SwitchMonologue (3) {\n        case CONST_A: 'x'\n    }\n}\n"),
    ("loops", "def 0 {\n    forever {\n        a();\n        if (debug) { break_loop; }\n        continue;\n    }\n    while ($VAR_A < 3) {\n        $VAR_A += 1;\n    }\n    while not ($VAR_A[1]) { b(); continue; }\n    for ($i = 0; $i < 3; $i += 1;) {\n        c();\n        if (edit) { continue; } else { break_loop; }\n    }\n}\n"),
    ("labels", "def 0 {\n    @start;\n    a();\n    §second;\n    @third;\n    b();\n    jump @start;\n    call @third;\n    jump @fwd;\n    c();\n    @fwd;\n    d();\n}\n"),
    ("with", "def 0 {\n    with (actor ACTOR_PLAYER) { a(1); }\n    with (object 2) { $VAR_A = 1; }\n    with (performer 0) { return; }\n    @x;\n    with (actor 1) { jump @x; }\n    b();\n}\n"),
    ("routine-kinds", "def 0 {\n    a();\n}\ndef 1 for actor ACTOR_PLAYER {\n    b();\n}\ndef 2 for object 3 {\n    c();\n}\ndef 3 for performer(CONST_A) {\n    d();\n}\ndef 4 for_actor(2) {\n    e();\n}\ndef 5 {\n    alias previous;\n}\n"),
    ("coroutines", "coro CORO_A {\n    a();\n    return;\n}\ncoro CORO_B {\n    alias previous;\n}\ncoro CORO_C {\n    hold;\n}\n"),
    ("macros", "macro m0() {\n    a();\n    if (debug) { return; }\n    b();\n}\nmacro m1($x, $y) {\n    op($x, $y, $z);\n    ~m0();\n    @inner;\n    jump @inner;\n}\ndef 0 {\n    ~m0();\n    ~m1(1, \"s\");\n    switch ($VAR_A) { case 1: ~m1(Position<'p', 1, 2>, {english=\"l\"}); }\n    end;\n}\nmacro late() { c(); }\n"),
    ("control-end", "def 0 {\n    a();\n    end;\n}\ndef 1 {\n    hold;\n}\ndef 2 {\n    if (debug) { b(); }\n    c();\n}\n"),
    ("nested", "def 0 {\n    forever {\n        switch ($VAR_A) {\n            case 1:\n                if ($VAR_B == 2) { continue; }\n                break;\n            default:\n                while (debug) { break_loop; }\n                for ($i = 0; $i < 2; $i += 1;) { break; }\n        }\n    }\n}\n"),
    ("comments", "// leading comment\n/* block */ def 0 { // trailing\n    a(/* inner */ 1);\n    /* unterminated-looking // */ b();\n}\n// end"),
    ("empty-blocks", "def 0 {\n    if (debug) { } else { }\n    forever { }\n    while (edit) { }\n    a();\n}\n"),
]

SSBSCRIPT_PROGRAMS: list[tuple[str, str]] = [
    ("ssbs-basic", "//?: is-ssb-script: true\ndef 0 {\n    a(1, \"s\");\n    @l;\n    Jump(@l);\n}\n"),
    ("ssbs-coro", "//?: is-ssb-script: 1\ncoro X {\n    op(CONST_A, 1.5, {english=\"x\"}, Position<'m', 1, 2.5>);\n    §l;\n    Return();\n}\ndef 1 for actor 2 {\n    alias previous;\n}\n"),
]


def repo_fixture_programs(repo: str) -> list[dict]:
    """/repo/example and tests fixtures: compiled from their real paths (read only)."""
    items = []
    fx = os.path.join(repo, "tests", "fixtures", "compiler", "macros_imports_test")
    if os.path.isdir(fx):
        for name in sorted(os.listdir(fx)):
            p = os.path.join(fx, name, "main.exps")
            if os.path.isfile(p):
                with open(p, encoding="utf-8") as fh:
                    items.append({"name": f"fixture:{name}", "text": fh.read(), "path": p, "lookup": []})
    ex = os.path.join(repo, "example", "SCRIPT", "base.exps")
    if os.path.isfile(ex):
        with open(ex, encoding="utf-8") as fh:
            items.append(
                {"name": "example:base", "text": fh.read(), "path": ex, "lookup": [os.path.join(repo, "example", "macros")]}
            )
    return items


def valid_corpus(seed: int, n_random: int, size: int = 4, with_macros: bool = True) -> list[tuple[str, str]]:
    """(name, text) of self-contained valid programs: coverage templates + n_random seeded random programs."""
    rng = random.Random(f"C10-corpus-{seed}")
    out = list(COVERAGE_PROGRAMS)
    seen = {t for _, t in out}
    i = 0
    while len(out) < len(COVERAGE_PROGRAMS) + n_random:
        t = _random_program(rng, size, with_macros)
        i += 1
        if t not in seen:
            seen.add(t)
            out.append((f"rand{i}", t))
    return out


# ---------------------------------------------------------------------------------------------------------------------
# (b) corruptions
# ---------------------------------------------------------------------------------------------------------------------
REPLACEMENTS = [
    ";", "{", "}", "(", ")", ",", ":", "@", "§", "<", ">", "=", "==", "[", "]", "if", "else", "elseif", "not", "switch",
    "case", "default", "break", "continue", "break_loop", "return", "end", "hold", "jump", "call", "forever", "while", "for",
    "with", "macro", "def", "coro", "import", "alias", "previous", "value", "scn", "debug", "menu", "message_SwitchTalk",
    "dungeon_mode", "reset", "clear", "0", "1", "-1", "1.5", '"s"', "'''m'''", "$v", "ident", "~m", "Position", "actor",
    "#", '"', "/*", "||", "+=", "&<<",
]  # fmt: skip


def _lex_spans(text: str) -> list[tuple[int, int]]:
    """(start, stop_exclusive) of every token the repository's lexer emits for text (skipped tokens excluded)."""
    from antlr4 import InputStream, Token

    from explorerscript.antlr.ExplorerScriptLexer import ExplorerScriptLexer

    lexer = ExplorerScriptLexer(InputStream(text))
    lexer.removeErrorListeners()
    spans = []
    while True:
        t = lexer.nextToken()
        if t.type == Token.EOF:
            break
        spans.append((t.start, t.stop + 1))
    return spans


def token_corruptions(text: str, spans: list[tuple[int, int]], salt: int, ops: str = "dDsr", n_repl: int = 1) -> list[tuple[str, str]]:
    """All single-token corruptions, in deterministic order: (operator, corrupted text)."""
    toks = [text[a:b] for a, b in spans]
    gaps = [text[(spans[i - 1][1] if i else 0) : spans[i][0]] for i in range(len(spans))]
    tail = text[spans[-1][1] :] if spans else text

    def join(ts: list[str], gs: list[str]) -> str:
        return "".join(g + t for g, t in zip(gs, ts)) + tail

    out = []
    n = len(toks)
    for i in range(n):
        if "d" in ops:
            out.append(("delete", join(toks[:i] + toks[i + 1 :], gaps[:i] + gaps[i + 1 :])))
        if "D" in ops:
            out.append(("duplicate", join(toks[: i + 1] + toks[i:], gaps[: i + 1] + [" "] + gaps[i + 1 :])))
        if "s" in ops and i + 1 < n:
            out.append(("swap", join(toks[:i] + [toks[i + 1], toks[i]] + toks[i + 2 :], gaps)))
        if "r" in ops:
            for k in range(n_repl):
                rep = REPLACEMENTS[(i * 7 + salt * 13 + k * 29) % len(REPLACEMENTS)]
                if rep != toks[i]:
                    out.append(("replace", join(toks[:i] + [rep] + toks[i + 1 :], gaps)))
    return out


TRUNCATION_PROGRAMS = [
    "def 0 {\n    say(\"str\\\"ing\", 'it\\'s', '''multi\n  line''');\n    /* block */ a(); // line\n}\n",
    "macro m($x) {\n    op($x, {english=\"a\", german='b'});\n}\ndef 0 {\n    ~m(Position<'p', 1, 2.5>);\n    /* open",
    "//?: is-ssb-script: true\ndef 0 {\n    a(1, \"s\");\n    @l;\n    Jump(@l);\n}\n",
    "import \"./other.exps\";\ndef 0 for actor ACTOR_X {\n    switch ($V) {\n        case 1:\n            \"\"\"x\"\"\";\n    }\n}\n",
    "def 0 {\n    message_SwitchTalk ($V) {\n        case 1: \"a\"\n        default: {english=\"b\"}\n    }\n    if (not $P[1] || scn($S) >= [1, 2]) { jump @l; }\n    §l;\n    with (actor 1) { hold; }\n}\n",
]

META_TEXTS = [
    "//?:", "//?: ", "//?:\n", "//?: a", "//?: a\n", "//?: a: b", "//?: a: b\n", "//?: a: b\n//?: c: d", "//?: a: b\n//?: c: d\n",
    "//?: a: b\n\n", "  //?: a: b", "\t//?: a: b  ", "//?: a: b\ndef 0 { a(); }", "//?: a\ndef 0 { a(); }", "//?:\ndef 0 { a(); }",
    "//?: a: b\n//?:\ndef 0 { a(); }", "//?: a: b\n//?: c\n", "//?::", "//?: :", "//?: : :", "//?:a:b", "//?: a: b: c", "//? a: b",
    "// ?: a: b", "//?: is-ssb-script: true", "//?: is-ssb-script: true\n", "//?: is-ssb-script: 1", "//?: is-ssb-script: false",
    "//?: is-ssb-script: false\ndef 0 { a(); }", "//?: is-ssb-script: true\ndef 0 { a(); }", "//?: is-ssb-script: TRUE\ndef 0 { a(); }",
    "//?: is-ssb-script: true\ndef 0 { if (debug) { a(); } }", "//?: is-ssb-script: true\n//?: other: x\ndef 0 { a(); }",
    "//?: other: x\n//?: is-ssb-script: true\ndef 0 { a(); }", "//?: is-ssb-script: true\n//?: is-ssb-script: false\ndef 0 { a(); }",
    "def 0 { a(); }\n//?: is-ssb-script: true", "\n//?: a: b", "\r\n//?: a: b", "//?: a: b\r\n//?: c: d\r\n", "//?: a: b\x0c", "//?: a: b //?: c: d",
    "//?: is-ssb-script: true\ndef 0 { Jump(@nolabel); }", "//?: is-ssb-script: true\ndef 0 { @a; }", "//?: is-ssb-script: true\ndef 1 { a(); } def 0 { b(); }",
    "//?: is-ssb-script: true\ndef 0 { a<actor 1>(); }", "//?: is-ssb-script: true\ncoro X { alias previous; }", "//?: is-ssb-script: true\ndef 0 { a(Position<'m', 1.25, 2>); }",
    "//?: is-ssb-script: true\ndef -1 { a(); }", "//?: is-ssb-script: true\ndef 0 for actor 1.5 { a(); }", "//?: is-ssb-script: true\ndef 0 { a(@l); }",
]  # fmt: skip


SSBSCRIPT_BAD = [
    "//?: is-ssb-script: true\ndef 0 for actor { a(); }",
    "//?: is-ssb-script: true\ndef 0 for { a(); }",
    "//?: is-ssb-script: true\ndef 0 { a({); }",
    "//?: is-ssb-script: true\ndef 0 { a(1, ); }",
    "//?: is-ssb-script: true\ndef 0 { a(Position<'m', 1>); }",
    "//?: is-ssb-script: true\ndef 0 { a(Position<>); }",
    "//?: is-ssb-script: true\ndef 0 { a( }",
    "//?: is-ssb-script: true\ndef { a(); }",
    "//?: is-ssb-script: true\ncoro { a(); }",
    "//?: is-ssb-script: true\ndef 0 { @; }",
    "//?: is-ssb-script: true\ndef 0 { a<actor>(); }",
    "//?: is-ssb-script: true\ndef 0 { alias; }",
    "//?: is-ssb-script: true\ndef 0 { a({english=}); }",
    "//?: is-ssb-script: true\ndef 0 {",
    "//?: is-ssb-script: true\ndef 0 for actor 1",
]


def random_texts(rng: random.Random, n: int) -> list[str]:
    pools = [
        "abcXYZ_09 \n\t;{}()<>,:@§$~\"'\\/*=+-.[]&^|!#",
        "déf ÿ ß € 中文 日本語 한국어 عربى    ​﻿",
        "\U0001f600\U00010348\U000e0041",
        "\x00\x01\x07\x0b\x0c\x1b\x7f\x85",
        "𐀀\udfff",
    ]
    words = ["def", "0", "{", "}", "macro", "import", "coro", ";", "(", ")", "if", "switch", "case", "'''", '"""', "/*", "//?:", "\\"]
    out = []
    for _ in range(n):
        k = rng.randrange(6)
        ln = rng.randrange(0, 40)
        if k == 0:
            s = "".join(rng.choice(pools[0]) for _ in range(ln))
        elif k == 1:
            s = "".join(rng.choice(rng.choice(pools[:4])) for _ in range(ln))
        elif k == 2:
            s = " ".join(rng.choice(words + list(pools[1])) for _ in range(ln // 2))
        elif k == 3:
            s = "".join(chr(rng.randrange(0x20, 0x3000)) for _ in range(ln))
        elif k == 4:
            s = "def 0 { a(" + "".join(rng.choice(rng.choice(pools)) for _ in range(ln // 3)) + "); }"
        else:
            s = "".join(rng.choice(rng.choice(pools)) for _ in range(ln))
        out.append(s)
    return out


# ---------------------------------------------------------------------------------------------------------------------
# (c) statically meaningless programs: fragment x context
# ---------------------------------------------------------------------------------------------------------------------
# A context is (name, template) with {F} the statement(s) and {T} extra top-level definitions.
CONTEXTS: dict[str, str] = {
    "alone": "def 0 {{\n    {F}\n}}\n{T}",
    "top": "{T}def 0 {{\n    a();\n    {F}\n    b();\n}}\n",
    "if": "def 0 {{\n    if (debug) {{\n        {F}\n    }}\n    c();\n}}\n{T}",
    "else": "def 0 {{\n    if ($VAR_A == 1) {{ a(); }} else {{\n        {F}\n    }}\n}}\n{T}",
    "elseif": "{T}def 0 {{\n    if ($VAR_A == 1) {{ a(); }} elseif ($VAR_A[2]) {{\n        a();\n        {F}\n    }} else {{ b(); }}\n}}\n",
    "case": "def 0 {{\n    switch ($VAR_A) {{\n        case 1:\n            {F}\n            break;\n        default:\n            b();\n    }}\n}}\n{T}",
    "default": "def 0 {{\n    switch (random(3)) {{\n        case 1:\n            b();\n        default:\n            a();\n            {F}\n    }}\n}}\n{T}",
    "forever": "def 0 {{\n    forever {{\n        {F}\n        a();\n    }}\n}}\n{T}",
    "while": "{T}def 0 {{\n    while ($VAR_A < 3) {{\n        {F}\n    }}\n}}\n",
    "for": "def 0 {{\n    for ($i = 0; $i < 3; $i += 1;) {{\n        a();\n        {F}\n    }}\n}}\n{T}",
    "nested": "def 0 {{\n    forever {{\n        switch ($VAR_A) {{\n            case 1:\n                if (debug) {{\n                    {F}\n                }}\n                break;\n        }}\n        break_loop;\n    }}\n}}\n{T}",
    "macro": "macro wrap() {{\n    a();\n    {F}\n}}\ndef 0 {{\n    ~wrap();\n}}\n{T}",
    "macro-if": "{T}def 0 {{\n    ~wrap();\n    end;\n}}\nmacro wrap() {{\n    if (debug) {{\n        {F}\n    }}\n}}\n",
    "second-routine": "def 0 {{\n    a();\n}}\ndef 1 for actor 2 {{\n    {F}\n}}\n{T}",
    "coro": "{T}coro CORO_X {{\n    {F}\n    return;\n}}\n",
    "with": "def 0 {{\n    with (actor 1) {{ {F} }}\n}}\n{T}",
    # the construct that would make F legal sits elsewhere (after a loop / in another routine / in a sibling case's switch)
    "after-loop": "def 0 {{\n    forever {{ a(); break_loop; }}\n    switch ($VAR_A) {{ case 1: b(); break; }}\n    {F}\n}}\n{T}",
    "other-routine": "def 0 {{\n    forever {{ switch ($VAR_A) {{ case 1: a(); }} }}\n}}\ndef 1 {{\n    {F}\n}}\n{T}",
}
BENIGN = "ok();"
ALL_CTX = [c for c in CONTEXTS if c not in ("with",)]
NO_CASE_CTX = [c for c in ALL_CTX if c not in ("case", "default", "nested")]
NO_LOOP_CTX = [c for c in ALL_CTX if c not in ("forever", "while", "for", "nested")]


def invalid_programs() -> list[dict]:
    """Every listed class of statically meaningless program, embedded at different nesting positions."""
    items: list[dict] = []

    def add(cls: str, variant: str, frag: str, ctxs: list[str], top: str = "") -> None:
        for c in ctxs:
            items.append(
                {
                    "cls": f"invalid:{cls}",
                    "variant": f"{variant}@{c}",
                    "text": CONTEXTS[c].format(F=frag, T=top),
                    "must_reject": True,
                }
            )

    # stray control statements
    add("break-outside-case", "break", "break;", NO_CASE_CTX + ["with"])
    add("break-outside-case", "break-in-loop", "forever { break; }", NO_CASE_CTX)
    add("continue-outside-loop", "continue", "continue;", NO_LOOP_CTX + ["with"])
    add("break_loop-outside-loop", "break_loop", "break_loop;", NO_LOOP_CTX + ["with"])
    add("continue-outside-loop", "continue-in-case", "switch ($VAR_B) { case 1: continue; }", NO_LOOP_CTX)
    add("break_loop-outside-loop", "break_loop-in-if", "if (edit) { break_loop; }", NO_LOOP_CTX)
    # undefined labels
    add("undefined-label", "jump", "jump @nolabel;", ALL_CTX + ["with"])
    add("undefined-label", "call", "call @nolabel;", ALL_CTX + ["with"])
    add("undefined-label", "jump-among-labels", "@here; a(); jump @there;", ALL_CTX)
    # switch ending in an empty case
    for v, frag in [
        ("last-case", "switch ($VAR_B) { case 1: a(); case 2: }"),
        ("last-default", "switch ($VAR_B) { case 1: a(); break; default: }"),
        ("only-case", "switch ($VAR_B) { case 1: }"),
        ("only-default", "switch (sector()) { default: }"),
        ("several-trailing", "switch (scn($VAR_B)[0]) { default: a(); case 1: case > 2: }"),
        ("menu", "switch (random(3)) { case menu(\"x\"): a(); case menu2(1): }"),
    ]:
        add("switch-ends-in-empty-case", v, frag, ALL_CTX)
    # two defaults
    for v, frag in [
        ("adjacent", "switch ($VAR_B) { default: a(); default: b(); }"),
        ("separated", "switch ($VAR_B) { default: a(); case 1: b(); default: c(); }"),
        ("empty-first", "switch ($VAR_B) { case 1: a(); default: default: b(); }"),
        ("message-switch", "message_SwitchTalk ($VAR_B) { default: \"a\" default: \"b\" }"),
    ]:
        add("two-defaults", v, frag, ALL_CTX)
    # statements inside a message switch
    for v, frag in [
        ("case-op", "message_SwitchTalk ($VAR_B) { case 1: a(); }"),
        ("default-op", "message_SwitchMonologue ($VAR_B) { case 1: \"x\" default: a(); }"),
        ("second-case", "message_SwitchTalk ($VAR_B) { case 1: \"x\" case 2: a(); b(); }"),
        ("block", "message_SwitchMonologue (3) { case 1: if (debug) { a(); } }"),
        ("label", "message_SwitchTalk ($VAR_B) { case 1: @inmsg; }"),
    ]:
        add("statements-in-message-switch", v, frag, ALL_CTX)
    # labels inside a with-block
    add("label-in-with", "at", "with (actor 1) { @inwith; }", ALL_CTX)
    add("label-in-with", "paragraph", "with (object CONST_A) { §inwith; }", ALL_CTX)
    # `not` on a bit test of an ordinary variable
    for v, frag in [
        ("if", "if (not $VAR_A[1]) { a(); }"),
        ("or", "if ($VAR_B == 1 || not $VAR_A[0]) { a(); }"),
        ("elseif-int", "if (debug) { a(); } elseif (not 3[1]) { b(); }"),
        ("while", "while (not $VAR_A[1]) { a(); }"),
        ("for", "for ($i = 0; not CONST_A[2]; $i += 1;) { a(); }"),
        ("double-not", "if not (not $VAR_A[1]) { a(); }"),
    ]:
        add("not-on-ordinary-bit", v, frag, ALL_CTX)
    # unknown macro
    add("unknown-macro", "noargs", "~nope();", ALL_CTX)
    add("unknown-macro", "args", "~nope(1, \"x\");", ALL_CTX)
    add("unknown-macro", "other-defined", "~nope();", ["top", "if", "macro"], "macro other() { a(); }\n")
    # recursive macros
    call_ctx = ["alone", "top", "if", "case", "forever", "macro", "macro-if", "second-routine", "coro"]
    add("recursive-macro", "direct", "~r();", call_ctx, "macro r() {\n    a();\n    ~r();\n}\n")
    add("recursive-macro", "direct-args", "~r(1);", call_ctx, "macro r($x) {\n    a($x);\n    ~r($x);\n}\n")
    add("recursive-macro", "direct-under-if", "~r();", call_ctx, "macro r() {\n    if (debug) { ~r(); }\n}\n")
    add("recursive-macro", "mutual", "~r1();", call_ctx, "macro r1() {\n    ~r2();\n}\nmacro r2() {\n    a();\n    ~r1();\n}\n")
    add("recursive-macro", "cycle3", "~r2();", call_ctx, "macro r1() { ~r2(); }\nmacro r2() { ~r3(); }\nmacro r3() { a(); ~r1(); }\n")
    add("recursive-macro", "uncalled-direct", BENIGN, ["top", "if"], "macro r() {\n    a();\n    ~r();\n}\n")
    add("recursive-macro", "uncalled-mutual", BENIGN, ["top", "if"], "macro r1() { ~r2(); }\nmacro r2() { ~r1(); }\n")
    add("recursive-macro", "tail-of-chain", "~entry();", call_ctx, "macro entry() { ~r1(); }\nmacro r1() { ~r2(); }\nmacro r2() { ~r1(); }\n")
    # too few macro arguments
    add("too-few-macro-arguments", "1of2", "~two(1);", call_ctx, "macro two($x, $y) {\n    op($x, $y);\n}\n")
    add("too-few-macro-arguments", "0of2", "~two();", call_ctx, "macro two($x, $y) {\n    op($x, $y);\n}\n")
    add("too-few-macro-arguments", "0of1-unused", "~one();", call_ctx, "macro one($x) {\n    a();\n}\n")
    add("too-few-macro-arguments", "inner-call", "~outer();", call_ctx, "macro two($x, $y) { op($x, $y); }\nmacro outer() { ~two(1); }\n")
    add("too-few-macro-arguments", "uncalled-inner", BENIGN, ["top", "if"], "macro two($x, $y) { op($x, $y); }\nmacro outer() { ~two(1); }\n")
    return items


# Complete, valid constructs.  A meaningless construct must also be rejected when it comes AFTER each of them - later in the
# same routine, in a later routine, in a later macro, or in the next compile() of the same compiler object - because the
# compiler keeps stacks (loops, switch cases, handlers, labels) in objects shared by all routines of a file: a construct that
# forgets to pop its entry makes a later stray statement look legal.
PRECEDERS: dict[str, tuple[str, str]] = {  # name -> (statements, extra top-level definitions)
    "forever": ("forever {\n        p1();\n        if (debug) { break_loop; }\n        continue;\n    }", ""),
    "while": ("while ($VAR_P < 3) {\n        p1();\n        $VAR_P += 1;\n    }", ""),
    "while-not": ("while not ($VAR_P[1]) {\n        p1();\n    }", ""),
    "while-not-empty": ("while not (debug) { }", ""),
    "while-continue": ("while (edit) {\n        if (debug) { continue; }\n        break_loop;\n    }", ""),
    "for": ("for ($i = 0; $i < 3; $i += 1;) {\n        p1();\n    }", ""),
    "nested-loops": ("forever {\n        while not (variation) {\n            for ($j = 0; $j < 2; $j += 1;) { p1(); }\n        }\n        break_loop;\n    }", ""),
    "switch": ("switch ($VAR_P) {\n        case 1:\n            p1();\n            break;\n        case 2:\n        default:\n            p2();\n    }", ""),
    "switch-no-default": ("switch (random(3)) {\n        case 0:\n            p1();\n        case > 1:\n            p2();\n            break;\n    }", ""),
    "switch-in-loop": ("forever {\n        switch (sector()) {\n            case 1:\n                break_loop;\n            default:\n                continue;\n        }\n    }", ""),
    "if-elseif-else": ("if ($VAR_P == 1) {\n        p1();\n    } elseif not ($VAR_P[2] || debug) {\n        p2();\n    } else {\n        p3();\n    }", ""),
    "with": ("with (actor 1) { p1(); }", ""),
    "message-switch": ("message_SwitchTalk ($VAR_P) {\n        case 1:\n            \"one\"\n        default:\n            \"other\"\n    }", ""),
    "macro-call": ("~pre(1);", "macro pre($x) {\n    forever {\n        switch ($x) {\n            case 1:\n                break_loop;\n        }\n        while not (debug) { p1($x); }\n    }\n}\n"),
    "label-jump": ("@pl;\n    p1();\n    if (debug) { jump @pl; }\n    call @pl;", ""),
    "return": ("if (debug) {\n        return;\n    }\n    p1();", ""),
}
PLACEMENTS: dict[str, str] = {
    # {P} preceding construct, {PT} its top-level definitions, {F} the meaningless fragment, {T} its top-level definitions
    "later-in-routine": "{PT}def 0 {{\n    {P}\n    {F}\n}}\n{T}",
    "later-routine": "def 0 {{\n    {P}\n}}\ndef 1 {{\n    {F}\n}}\n{T}{PT}",
    "later-targeted-routine": "{T}{PT}def 0 {{\n    a();\n}}\ndef 1 {{\n    {P}\n    end;\n}}\ndef 2 for actor 3 {{\n    b();\n    {F}\n}}\n",
    "later-macro": "{PT}macro first() {{\n    {P}\n}}\nmacro wrap() {{\n    {F}\n}}\ndef 0 {{\n    ~first();\n    ~wrap();\n}}\n{T}",
    "macro-defined-before-routine": "macro wrap() {{\n    {F}\n}}\n{PT}def 0 {{\n    {P}\n    ~wrap();\n}}\n{T}",
    "routine-after-macro": "{PT}macro first() {{\n    {P}\n}}\ndef 0 {{\n    ~first();\n    {F}\n}}\n{T}",
}
# one or two representative fragments per class: (class, variant, fragment, top-level definitions)
AFTER_FRAGMENTS: list[tuple[str, str, str, str]] = [
    ("break-outside-case", "break", "break;", ""),
    ("continue-outside-loop", "continue", "continue;", ""),
    ("break_loop-outside-loop", "break_loop", "break_loop;", ""),
    ("continue-outside-loop", "continue-in-if", "if (edit) { continue; }", ""),
    ("break_loop-outside-loop", "break_loop-in-case", "switch ($VAR_B) { case 1: break_loop; }", ""),
    ("break-outside-case", "break-in-loop", "while ($VAR_B < 2) { break; }", ""),
    ("undefined-label", "jump", "jump @nolabel;", ""),
    ("undefined-label", "call", "call @nolabel;", ""),
    ("switch-ends-in-empty-case", "last-case", "switch ($VAR_B) { case 1: a(); case 2: }", ""),
    ("two-defaults", "adjacent", "switch ($VAR_B) { default: a(); default: b(); }", ""),
    ("statements-in-message-switch", "case-op", "message_SwitchTalk ($VAR_B) { case 1: a(); }", ""),
    ("label-in-with", "at", "with (actor 1) { @inwith; }", ""),
    ("not-on-ordinary-bit", "if", "if (not $VAR_A[1]) { a(); }", ""),
    ("not-on-ordinary-bit", "while", "while (not $VAR_A[1]) { a(); }", ""),
    ("unknown-macro", "noargs", "~nope();", ""),
    ("recursive-macro", "direct", "~r();", "macro r() {\n    a();\n    ~r();\n}\n"),
    ("too-few-macro-arguments", "1of2", "~two(1);", "macro two($x, $y) {\n    op($x, $y);\n}\n"),
]


def after_programs() -> list[dict]:
    """Each meaningless construct placed AFTER each complete valid construct (same routine / later routine / later macro)."""
    items = []
    for cls, variant, frag, top in AFTER_FRAGMENTS:
        for pname, (pre, pre_top) in PRECEDERS.items():
            for plname, tmpl in PLACEMENTS.items():
                items.append(
                    {
                        "cls": f"invalid:{cls}",
                        "variant": f"{variant}@after:{pname}:{plname}",
                        "text": tmpl.format(P=pre, PT=pre_top, F=frag, T=top),
                        "must_reject": True,
                    }
                )
    return items


def after_compile_programs() -> list[dict]:
    """State leaking across compile() calls: a valid program with the preceding construct is compiled first on the SAME
    compiler object (item['pre_text']), then the meaningless program."""
    items = []
    for cls, variant, frag, top in AFTER_FRAGMENTS:
        for pname, (pre, pre_top) in PRECEDERS.items():
            items.append(
                {
                    "cls": f"invalid:{cls}",
                    "variant": f"{variant}@after-compile:{pname}",
                    "pre_text": PLACEMENTS["later-in-routine"].format(P=pre, PT=pre_top, F=BENIGN, T=""),
                    "text": CONTEXTS["alone"].format(F=frag, T=top),
                    "must_reject": True,
                }
            )
    return items


def context_selfcheck_programs() -> list[dict]:
    out = [
        {"cls": "selfcheck:context", "variant": c, "text": t.format(F=("hold;" if c == "with" else BENIGN), T=""), "must_reject": False}
        for c, t in CONTEXTS.items()
    ]
    for pname, (pre, pre_top) in PRECEDERS.items():
        for plname, tmpl in PLACEMENTS.items():
            out.append({"cls": "selfcheck:context", "variant": f"after:{pname}:{plname}", "text": tmpl.format(P=pre, PT=pre_top, F=BENIGN, T=""), "must_reject": False})
    return out


# the hang found while building the corpus: kept as explicit witnesses (valid programs, clause R)
MACRO_POSMARK_PROGRAMS = [
    ("posmark-in-callee", "macro m0() {\n    op(Position<'p', 1, 2>);\n}\nmacro m1() {\n    ~m0();\n}\ndef 0 {\n    a();\n}\n"),
    ("posmark-in-caller-before-call", "macro m0() {\n    op();\n}\nmacro m1() {\n    b(Position<'p', 1, 2>);\n    ~m0();\n}\ndef 0 {\n    ~m1();\n}\n"),
    ("posmark-as-macro-argument", "macro m0($x) {\n    op($x);\n}\nmacro m1() {\n    ~m0(Position<'p', 1, 2>);\n}\ndef 0 {\n    ~m1();\n}\n"),
]

# ---------------------------------------------------------------------------------------------------------------------
# (d) degenerate routines   (family, text): success or a documented exception are both fine
# ---------------------------------------------------------------------------------------------------------------------
DEGENERATE: list[tuple[str, str]] = [
    ("empty-routine", "def 0 { }"), ("empty-routine", "def 0 {}\n"), ("empty-routine", "coro X { }"), ("empty-routine", "macro m() { } def 0 { a(); }"),
    ("only-labels", "def 0 { @a; }"), ("only-labels", "def 0 { §a; }"), ("only-labels", "def 0 { @a; §b; @c; }"), ("only-labels", "coro X { @a; }"),
    ("only-labels", "def 0 { a(); } def 1 { @x; }"), ("only-labels", "def 0 { @x; } def 1 { a(); }"), ("only-labels", "def 0 for actor 1 { @a; }"),
    ("only-labels", "macro m() { @l; } def 0 { ~m(); }"), ("only-labels", "def 0 { @a; @a; }"), ("only-labels", "def 0 { // c\n @a; /* c */ }"),
    ("label-at-end", "def 0 { a(); return; @a; }"), ("label-at-end", "def 0 { a(); @a; }"), ("label-at-end", "def 0 { a(); @a; @b; }"),
    ("label-at-end", "def 0 { if (debug) { a(); } @e; }"), ("label-at-end", "def 0 { forever { a(); } @e; }"), ("label-at-end", "def 0 { a(); jump @e; b(); @e; }"),
    ("label-at-end", "def 0 { if (debug) { a(); jump @e; } @e; }"), ("label-at-end", "def 0 { switch ($a) { case 1: jump @e; } b(); @e; }"),
    ("label-at-end", "def 0 { call @e; a(); @e; }"), ("label-at-end", "def 0 { with (actor 1) { jump @e; } @e; }"), ("label-at-end", "def 0 { a(); jump @e; @e; @f; }"),
    ("label-at-end", "macro m() { a(); @l; } def 0 { ~m(); }"), ("label-at-end", "macro m() { a(); return; } def 0 { ~m(); }"),
    ("only-jump-and-label", "def 0 { jump @x; §x; }"), ("only-jump-and-label", "def 0 { jump @x; @x; }"), ("only-jump-and-label", "def 0 { @x; jump @x; }"),
    ("only-jump-and-label", "def 0 { call @x; @x; }"), ("only-jump-and-label", "def 0 { a(); } def 1 { jump @x; @x; }"), ("only-jump-and-label", "def 0 { @a; @b; jump @a; }"),
    ("only-jump-and-label", "def 0 { jump @b; @a; jump @a; @b; }"), ("only-jump-and-label", "def 0 { if (debug) { jump @e; } @e; }"),
    ("only-jump-and-label", "macro m() { jump @l; @l; } def 0 { ~m(); }"), ("only-jump-and-label", "def 0 { jump @x; } def 1 { @x; a(); }"),
    ("routine-ids-out-of-order", "def 1 { a(); } def 0 { b(); }"), ("routine-ids-out-of-order", "def 0 { a(); } def 2 { b(); } def 1 { c(); }"),
    ("routine-ids-out-of-order", "def 1 for actor 1 { a(); } def 0 { b(); }"), ("routine-ids-out-of-order", "def 2 { a(); } def 1 { alias previous; } def 0 { b(); }"),
    ("routine-ids-out-of-order", "def 1 { a(); } coro X { c(); } def 0 { b(); }"),
    ("routine-ids-duplicate", "def 0 { a(); } def 0 { b(); }"), ("routine-ids-duplicate", "def 0 { a(); } def 1 { b(); } def 1 { c(); }"),
    ("routine-ids-duplicate", "def 0 { a(); } def 0 { alias previous; }"), ("routine-ids-duplicate", "def 0 { a(); } def 0 for object 1 { b(); }"),
    ("routine-ids-duplicate", "coro X { a(); } coro X { b(); }"),
    ("routine-ids-gap", "def 0 { a(); } def 2 { b(); }"), ("routine-ids-gap", "def 5 { a(); }"), ("routine-ids-gap", "def 1 { alias previous; }"),
    ("routine-ids-gap", "def 3 { a(); } def 7 for performer 1 { b(); }"), ("routine-ids-gap", "def 100 { a(); }"),
    ("routine-ids-negative", "def -1 { a(); }"), ("routine-ids-negative", "def -2 { a(); }"), ("routine-ids-negative", "def 0 { a(); } def -1 { b(); }"),
    ("routine-ids-negative", "def -0 { a(); }"), ("routine-ids-negative", "def -1 for actor 1 { a(); }"),
    ("routine-ids-spelling", "def 0x0 { a(); }"), ("routine-ids-spelling", "def 00 { a(); }"), ("routine-ids-spelling", "def 01 { a(); }"), ("routine-ids-spelling", "def 0b1 { a(); } "),
    ("routine-ids-spelling", "def 0o0 { a(); }"), ("routine-ids-spelling", "def 1.0 { a(); }"),
    ("alias", "def 0 { alias previous; }"), ("alias", "def 0 { a(); } def 1 { alias previous; } def 2 { alias previous; }"), ("alias", "coro X { alias previous; }"),
    ("alias", "macro m() { alias previous; } def 0 { a(); }"), ("alias", "macro m() { alias previous; } def 0 { ~m(); }"),
    ("mixed-kinds", "coro A { a(); } def 0 { b(); }"), ("mixed-kinds", "def 1 { a(); } coro A { b(); }"), ("mixed-kinds", "def 0 { a(); } coro A { b(); } coro B { c(); }"),
    ("no-routines", ""), ("no-routines", "\n"), ("no-routines", "// c"), ("no-routines", "/* c"), ("no-routines", "macro m() { a(); }"), ("no-routines", "macro m() { ~n(); } macro n() { a(); }"),
    ("minimal-bodies", "def 0 { return; }"), ("minimal-bodies", "def 0 { end; }"), ("minimal-bodies", "def 0 { hold; }"), ("minimal-bodies", "def 0 { if (debug) { } }"),
    ("minimal-bodies", "def 0 { forever { } }"), ("minimal-bodies", "def 0 { switch ($a) { } }"), ("minimal-bodies", "def 0 { while (debug) { } }"),
    ("minimal-bodies", "def 0 { for (@a; debug; @b;) { } }"), ("minimal-bodies", "def 0 { message_SwitchTalk ($a) { } }"), ("minimal-bodies", "def 0 { with (actor 1) { return; } }"),
    ("minimal-bodies", "def 0 { forever { @e; } }"), ("minimal-bodies", "def 0 { if (debug) { @e; } }"), ("minimal-bodies", "def 0 { switch ($a) { case 1: @e; } }"),
    ("minimal-bodies", "def 0 { forever { break_loop; } }"), ("minimal-bodies", "def 0 { while (debug) { continue; } }"), ("minimal-bodies", "def 0 { switch ($a) { default: break; } }"),
    ("target-id", "def 0 for actor 1.5 { a(); }"), ("target-id", "def 0 for actor -1 { a(); }"), ("target-id", "def 0 for thing 1 { a(); }"), ("target-id", "def 0 for actor $V { a(); }"),
    ("target-id", "def 0 for_actor 1 { a(); }"), ("target-id", "def 0 for_object(.5) { a(); }"), ("target-id", "def 0 for actor(X { a(); }"), ("target-id", "def 0 for performer 0x10 { a(); }"),
    ("odd-values", "def 0 { $a = 1.5; }"), ("odd-values", "def 0 { $a = value(1.5); }"), ("odd-values", "def 0 { dungeon_mode(1) = 5; }"), ("odd-values", "def 0 { a(Position<'x', 1.25, 2>); }"),
    ("odd-values", "def 0 { a(Position<'x', 1.50, -2>); }"), ("odd-values", "def 0 { a({english=\"a\", english=\"b\"}); }"), ("odd-values", "macro m($a, $a) { x($a); } def 0 { ~m(1, 2); }"),
    ("odd-values", "macro m() { a(); } macro m() { b(); } def 0 { ~m(); }"), ("odd-values", "def 0 { ~m(1, 2, 3); } macro m($a) { x($a); }"), ("odd-values", "def 0 { if (a()) { b(); } }"),
    ("odd-values", "def 0 { with (thing 1) { a(); } }"), ("odd-values", "def 0 { with (actor 1) { a<actor 2>(); } }"), ("odd-values", "def 0 { if (scn($a) != [1, 2]) { b(); } }"),
    ("odd-values", "def 0 { message_SwitchTalk ($a) { case > 1: \"x\" } }"), ("odd-values", "def 0 { switch ($a) { case 1: \"x\" } }"), ("odd-values", "def 0 { a(99999999999999999999, -0.0, 1.123456789); }"),
    ("odd-values", "def 0 { $a[99] = 7; }"), ("odd-values", "def 0 { reset scn(1.5); }"), ("odd-values", "def 0 { if (1.5 == 1.5) { a(); } }"), ("odd-values", "def 0 { switch (1.5) { case 1.5: a(); } }"),
]  # fmt: skip


# ---------------------------------------------------------------------------------------------------------------------
# (e) import graphs
# ---------------------------------------------------------------------------------------------------------------------
def _reach_cycle(edges: set[tuple[int, int]], n: int) -> bool:
    """True iff a cycle is reachable from node 0 following import edges (imports are loaded eagerly, depth first)."""
    adj = {i: sorted(b for a, b in edges if a == i) for i in range(n)}
    color: dict[int, int] = {}

    def dfs(u: int) -> bool:
        color[u] = 1
        for v in adj[u]:
            if color.get(v) == 1 or (v not in color and dfs(v)):
                return True
        color[u] = 2
        return False

    return dfs(0)


def _reachable(edges: set[tuple[int, int]], n: int) -> set[int]:
    seen = {0}
    todo = [0]
    while todo:
        u = todo.pop()
        for a, b in edges:
            if a == u and b not in seen:
                seen.add(b)
                todo.append(b)
    return seen


FILE_NAMES = ["main.exps", "lib_b.exps", "sub/lib_c.exps"]


def _imp(frm: int, to: int, style: str) -> str:
    """Import statement text for file `to` seen from file `frm`."""
    if style == "lookup" and to != 0:
        return f'import "{FILE_NAMES[to]}";\n'  # resolved through the lookup path (= scratch root)
    target = FILE_NAMES[to]
    rel = os.path.relpath(target, os.path.dirname(FILE_NAMES[frm]) or ".").replace(os.sep, "/")
    if not rel.startswith("."):
        rel = "./" + rel
    return f'import "{rel}";\n'


def import_graph_items(thorough: bool) -> list[dict]:
    items = []
    n = 3
    all_edges = [(a, b) for a in range(n) for b in range(n)]
    for mask in range(1, 1 << len(all_edges)):
        edges = {e for i, e in enumerate(all_edges) if mask >> i & 1}
        if not any(a == 0 for a, _ in edges):
            continue  # main imports nothing: not an import graph
        reach = _reachable(edges, n)
        if any(a not in reach for a, _ in edges):
            continue  # edges of unreachable files are never looked at: same behaviour as the graph without them
        cyc = _reach_cycle(edges, n)
        for style in ("relative", "lookup"):
            if style == "lookup" and not thorough and mask % 3:
                continue
            files = {}
            for i in range(n):
                if i not in reach:
                    continue
                body = "".join(_imp(i, b, style) for a, b in sorted(edges) if a == i)
                body += f"macro mac{i}() {{\n    op{i}();\n}}\n"
                if i == 0:
                    body += "def 0 {\n" + "".join(f"    ~mac{j}();\n" for j in sorted(reach) if (0, j) in edges or j == 0) + "}\n"
                files[FILE_NAMES[i]] = body
            shape = "cyclic" if cyc else "acyclic"
            items.append(
                {
                    "cls": f"imports:{shape}",
                    "variant": f"{style}:" + ",".join(f"{a}>{b}" for a, b in sorted(edges)),
                    "files": files,
                    "main": "main.exps",
                    "lookup": ["."] if style == "lookup" else [],
                    "text": files["main.exps"],
                    "must_reject": cyc,
                }
            )
    main_ok = "def 0 {\n    a();\n}\n"
    lib_ok = "macro lib() {\n    l();\n}\n"

    def one(shape: str, variant: str, files: dict, must: bool, lookup=(), main="main.exps") -> None:
        items.append({"cls": f"imports:{shape}", "variant": variant, "files": files, "main": main, "lookup": list(lookup), "text": files[main], "must_reject": must})

    # missing files
    one("missing", "direct", {"main.exps": 'import "./nope.exps";\n' + main_ok}, True)
    one("missing", "direct-lookup", {"main.exps": 'import "nope.exps";\n' + main_ok}, True, ["."])
    one("missing", "no-lookup-paths", {"main.exps": 'import "lib_b.exps";\n' + main_ok, "lib_b.exps": lib_ok}, True)
    one("missing", "second-import", {"main.exps": 'import "./lib_b.exps";\nimport "./nope.exps";\n' + main_ok, "lib_b.exps": lib_ok}, True)
    one("missing", "transitive", {"main.exps": 'import "./lib_b.exps";\n' + main_ok, "lib_b.exps": 'import "./nope.exps";\n' + lib_ok}, True)
    one("missing", "transitive-2", {"main.exps": 'import "./lib_b.exps";\n' + main_ok, "lib_b.exps": 'import "./sub/lib_c.exps";\n' + lib_ok, "sub/lib_c.exps": 'import "./nope.exps";\nmacro c() { c(); }\n'}, True)
    one("missing", "wrong-dir", {"main.exps": 'import "./lib_c.exps";\n' + main_ok, "sub/lib_c.exps": lib_ok}, True)
    one("missing", "relative-to-importer", {"main.exps": 'import "./sub/lib_c.exps";\n' + main_ok, "sub/lib_c.exps": 'import "./lib_b.exps";\n' + lib_ok, "lib_b.exps": "macro b() { b(); }\n"}, True)
    one("missing", "macros-only-main", {"main.exps": 'import "./nope.exps";\nmacro m() { a(); }\n'}, True)
    one("missing", "empty-name", {"main.exps": 'import "";\n' + main_ok}, True)
    one("missing", "dotted-lookup", {"main.exps": 'import "sub/../lib_b.exps";\n' + main_ok, "lib_b.exps": lib_ok}, True, ["."])
    # the import names something that exists but is not a file
    one("not-a-file", "directory", {"main.exps": 'import "./sub";\n' + main_ok, "sub/lib_c.exps": lib_ok}, False)
    one("not-a-file", "directory-lookup", {"main.exps": 'import "sub";\n' + main_ok, "sub/lib_c.exps": lib_ok}, False, ["."])
    one("not-a-file", "own-directory", {"main.exps": 'import "./";\n' + main_ok}, False)
    # routines in an imported file
    for v, body in [
        ("def", "def 0 {\n    r();\n}\n"),
        ("def-after-macro", lib_ok + "def 0 {\n    r();\n}\n"),
        ("coro", "coro CORO_R {\n    r();\n}\n"),
        ("for-target", lib_ok + "def 1 for actor 2 {\n    r();\n}\n"),
        ("alias", "def 0 {\n    alias previous;\n}\n" + lib_ok),
    ]:
        one("routines-in-imported-file", "routine:" + v, {"main.exps": 'import "./lib_b.exps";\n' + main_ok, "lib_b.exps": body}, True)
        one("routines-in-imported-file", "routine:" + v + ":lookup", {"main.exps": 'import "lib_b.exps";\n' + main_ok, "lib/lib_b.exps": body}, True, ["lib"])
        one("routines-in-imported-file", "routine:" + v + ":transitive", {"main.exps": 'import "./lib_b.exps";\n' + main_ok, "lib_b.exps": 'import "./sub/lib_c.exps";\n' + lib_ok, "sub/lib_c.exps": body}, True)
    # macros across files
    one("invalid-across-files", "recursive-macro", {"main.exps": 'import "./lib_b.exps";\nmacro m() {\n    ~lib();\n}\ndef 0 {\n    ~m();\n}\n', "lib_b.exps": "macro lib() {\n    ~lib();\n}\n"}, True)
    one("invalid-across-files", "mutual-recursion-in-import", {"main.exps": 'import "./lib_b.exps";\ndef 0 {\n    ~p();\n}\n', "lib_b.exps": "macro p() { ~q(); }\nmacro q() { ~p(); }\n"}, True)
    one("invalid-across-files", "unknown-macro-defined-in-unimported-file", {"main.exps": "def 0 {\n    ~lib();\n}\n", "lib_b.exps": lib_ok}, True)
    one("invalid-across-files", "import-uses-macro-of-main", {"main.exps": 'import "./lib_b.exps";\nmacro m() { a(); }\ndef 0 {\n    ~lib();\n}\n', "lib_b.exps": "macro lib() {\n    ~m();\n}\n"}, True)
    one("invalid-across-files", "too-few-arguments", {"main.exps": 'import "./lib_b.exps";\ndef 0 {\n    ~lib2(1);\n}\n', "lib_b.exps": "macro lib2($a, $b) {\n    l($a, $b);\n}\n"}, True)
    one("invalid-across-files", "stray-break-in-import", {"main.exps": 'import "./lib_b.exps";\ndef 0 {\n    ~lib();\n}\n', "lib_b.exps": "macro lib() {\n    break;\n}\n"}, True)
    one("invalid-across-files", "undefined-label-in-import", {"main.exps": 'import "./lib_b.exps";\ndef 0 {\n    ~lib();\n}\n', "lib_b.exps": "macro lib() {\n    jump @nolabel;\n}\n"}, True)
    # acceptable layouts (either outcome, type only)
    one("acyclic", "diamond-twice", {"main.exps": 'import "./lib_b.exps";\nimport "./lib_b.exps";\n' + main_ok, "lib_b.exps": lib_ok}, False)
    one("acyclic", "parse-error-in-import", {"main.exps": 'import "./lib_b.exps";\n' + main_ok, "lib_b.exps": "macro lib( {\n"}, False)
    one("acyclic", "ssbscript-import", {"main.exps": 'import "./lib_b.exps";\n' + main_ok, "lib_b.exps": "//?: is-ssb-script: true\ndef 0 { a(); }\n"}, False)
    one("acyclic", "attributes-only-import", {"main.exps": 'import "./lib_b.exps";\n' + main_ok, "lib_b.exps": "//?: a: b"}, False)
    one("acyclic", "empty-import", {"main.exps": 'import "./lib_b.exps";\n' + main_ok, "lib_b.exps": ""}, False)
    one("acyclic", "posmark-macro-import", {"main.exps": 'import "./lib_b.exps";\nmacro m() {\n    ~lib();\n}\ndef 0 {\n    ~m();\n}\n', "lib_b.exps": "macro lib() {\n    l(Position<'p', 1, 2>);\n}\n"}, False)
    return items


# ---------------------------------------------------------------------------------------------------------------------
# evaluation (runs in worker processes)
# ---------------------------------------------------------------------------------------------------------------------
TIMEOUT_S = 10
MEM_LIMIT = 3 * 1024**3
_W: dict = {}


class _Timeout(BaseException):
    pass


def _alarm(*_a):
    raise _Timeout()


def _init_worker(repo: str, root: str | None = None) -> None:
    """root: scratch directory owned (and removed) by the parent; workers only create sub-directories in it."""
    import resource
    import signal

    _W["repo"] = os.path.realpath(repo) + os.sep
    _W["stderr"] = open(os.devnull, "w")
    try:
        resource.setrlimit(resource.RLIMIT_AS, (MEM_LIMIT, MEM_LIMIT))
    except (ValueError, OSError):
        pass
    signal.signal(signal.SIGALRM, _alarm)
    if root is None:
        root = tempfile.mkdtemp(prefix="verif-C10w-")
        import atexit

        atexit.register(shutil.rmtree, root, True)
    _W["scratch"] = tempfile.mkdtemp(prefix="w-", dir=root)


def _ensure_worker(repo: str) -> None:
    if not _W:
        _init_worker(repo)


def materialise(item: dict, root: str) -> tuple[str, list[str]]:
    """Write the item's files below root; returns (path of the main file, absolute lookup paths)."""
    files = item.get("files")
    if files:
        for rel, content in files.items():
            p = os.path.join(root, rel)
            os.makedirs(os.path.dirname(p), exist_ok=True)
            with open(p, "w", encoding="utf-8", newline="") as fh:
                fh.write(content)
        return os.path.join(root, item.get("main", "main.exps")), [os.path.normpath(os.path.join(root, l)) for l in item.get("lookup", [])]
    if item.get("path"):
        return item["path"], list(item.get("abs_lookup", []))
    return os.path.join(root, "main.exps"), []


def compile_outcome(text: str, path: str, lookup: list[str], repo_prefix: str, pre_text: str | None = None) -> dict:
    """Run the real compile(); classify what happened.  pre_text: compiled first on the same compiler object (its
    outcome is ignored) - the contract is then about the second call."""
    import signal

    from explorerscript.error import ParseError, SsbCompilerError
    from explorerscript.ssb_converting.ssb_compiler import ExplorerScriptSsbCompiler

    comp = ExplorerScriptSsbCompiler(PPL, lookup)
    old_err = sys.stderr
    sys.stderr = _W.get("stderr") or open(os.devnull, "w")
    res: dict
    try:
        signal.alarm(TIMEOUT_S)
        try:
            if pre_text is not None:
                try:
                    comp.compile(pre_text, path)
                except _Timeout:
                    raise
                except Exception:  # noqa: BLE001 - only the state it leaves behind matters
                    pass
            comp.compile(text, path)
            signal.alarm(0)
            res = {"outcome": "ok"}
        except _Timeout:
            res = {"outcome": "no-termination", "exc": "none-within-%ds" % TIMEOUT_S, "func": "?", "documented": False, "msg": ""}
        except MemoryError:
            signal.alarm(0)
            res = {"outcome": "no-termination", "exc": "MemoryError", "func": "?", "documented": False, "msg": ""}
        except BaseException as e:  # noqa: BLE001 - the contract is about *which* exception escapes
            signal.alarm(0)
            if isinstance(e, (KeyboardInterrupt, SystemExit)):
                raise
            frames = traceback.extract_tb(e.__traceback__)
            inrepo = [fr for fr in frames if os.path.realpath(fr.filename).startswith(repo_prefix)]
            func = inrepo[-1].name if inrepo else "ext:" + (frames[-1].name if frames else "?")
            res = {
                "outcome": "raise",
                "exc": type(e).__name__,
                "func": func,
                "documented": isinstance(e, (ParseError, SsbCompilerError, ValueError)),
                "msg": str(e)[:200],
            }
    finally:
        signal.alarm(0)
        sys.stderr = old_err
    res["outputs_none"] = all(
        getattr(comp, a) is None for a in ("routine_ops", "routine_infos", "named_coroutines", "source_map")
    )
    if res["outcome"] == "ok":
        res["n_ops"] = sum(len(r) for r in comp.routine_ops or [])
    return res


def eval_item(args: tuple[dict, str]) -> dict:
    item, repo = args
    _ensure_worker(repo)
    if item.get("files"):
        root = tempfile.mkdtemp(prefix="g-", dir=_W["scratch"])
        try:
            path, lookup = materialise(item, root)
            res = compile_outcome(item["text"], path, lookup, _W["repo"], item.get("pre_text"))
            if "msg" in res:
                res["msg"] = res["msg"].replace(root, "<root>")
            return res
        finally:
            shutil.rmtree(root, ignore_errors=True)
    path, lookup = materialise(item, _W["scratch"])
    return compile_outcome(item["text"], path, lookup, _W["repo"], item.get("pre_text"))


def eval_chunk(args: tuple[list[dict], str]) -> list[dict]:
    items, repo = args
    return [eval_item((it, repo)) for it in items]


def lex_chunk(texts: list[str]) -> list[list[tuple[int, int]]]:
    return [_lex_spans(t) for t in texts]


def eval_cli(args: tuple[dict, str]) -> dict:
    """CLI and API on the same files: returns both outcomes."""
    item, repo = args
    _ensure_worker(repo)
    root = tempfile.mkdtemp(prefix="cli-", dir=_W["scratch"])
    try:
        it = dict(item)
        if not it.get("files"):
            it["files"] = {"main.exps": item["text"]}
            it["main"] = "main.exps"
            if item.get("path"):  # fixture: run on the real file (read only)
                it.pop("files")
        path, lookup = materialise(it, root)
        settings = os.path.join(root, "settings.json")
        with open(settings, "w") as fh:
            json.dump(SETTINGS_DOC, fh)
        api = compile_outcome(item["text"], path, lookup, _W["repo"])
        cmd = [sys.executable, "-m", "explorerscript.cli.compile", path, "--settings", settings]
        if lookup:
            cmd += ["--lookup"] + lookup
        try:
            p = subprocess.run(cmd, capture_output=True, text=True, timeout=TIMEOUT_S + 10, cwd=root)
            cli = {"exit": p.returncode, "stdout_len": len(p.stdout.strip()), "stderr_tail": p.stderr.strip().splitlines()[-1:][0:1]}
            try:
                json.loads(p.stdout)
                cli["stdout_json"] = True
            except ValueError:
                cli["stdout_json"] = False
        except subprocess.TimeoutExpired:
            cli = {"exit": "timeout", "stdout_len": 0, "stderr_tail": [], "stdout_json": False}
        return {"api": api, "cli": cli}
    finally:
        shutil.rmtree(root, ignore_errors=True)


# ---------------------------------------------------------------------------------------------------------------------
# judging (parent; pure)
# ---------------------------------------------------------------------------------------------------------------------
def sig_class(item: dict) -> str:
    return item.get("sig_cls") or item["cls"]


def replayable(item: dict, mode: str) -> dict:
    keep = {k: item[k] for k in ("cls", "sig_cls", "variant", "text", "pre_text", "files", "main", "lookup", "path", "abs_lookup", "must_reject") if k in item}
    keep["mode"] = mode
    return keep


def _sig_variant(item: dict) -> str:
    """variant family for signatures: the fragment name, plus 'after:<preceding construct>' for the after-placements"""
    var = item.get("variant", "")
    v = var.split("@")[0].split(":")[0]
    if "@after:" in var or "@after-compile:" in var:
        parts = var.split("@", 1)[1].split(":")
        v += ":" + parts[0] + ":" + parts[1]
    return v


def judge_api(item: dict, res: dict) -> list[Violation]:
    out = []
    sc = sig_class(item)
    if res["outcome"] == "no-termination":
        out.append(
            Violation(
                signature=f"C10:R:{sc}:does-not-terminate",
                what=f"compile() neither returns nor raises a documented exception ({res['exc']}) for a {item['cls']} input ({item.get('variant', '')})",
                input=replayable(item, "api"),
                contract=CONTRACT_R,
                observed=res,
            )
        )
    elif res["outcome"] == "raise" and not res["documented"]:
        out.append(
            Violation(
                signature=f"C10:R:{sc}:{res['exc']}@{res['func']}",
                what=f"compile() raised undocumented {res['exc']} (innermost repo frame {res['func']}) for a {item['cls']} input ({item.get('variant', '')}): {res['msg'][:80]}",
                input=replayable(item, "api"),
                contract=CONTRACT_R,
                observed=res,
            )
        )
    elif item.get("must_reject"):
        v = _sig_variant(item)
        if res["outcome"] == "ok":
            out.append(
                Violation(
                    signature=f"C10:J:{sc}:{v}:accepted",
                    what=f"statically meaningless program ({item['cls']}, {item.get('variant', '')}) compiled successfully to {res.get('n_ops')} ops",
                    input=replayable(item, "api"),
                    contract=CONTRACT_J,
                    observed=res,
                )
            )
        elif not res["outputs_none"]:
            out.append(
                Violation(
                    signature=f"C10:J:{sc}:{v}:output-left-after-{res['exc']}",
                    what=f"compile() raised {res['exc']} for {item['cls']} but left output attributes set",
                    input=replayable(item, "api"),
                    contract=CONTRACT_J,
                    observed=res,
                )
            )
    return out


def judge_cli(item: dict, both: dict) -> list[Violation]:
    api, cli = both["api"], both["cli"]
    out = []
    sc = sig_class(item)
    v = _sig_variant(item)
    ok_api = api["outcome"] == "ok"
    ok_cli = cli["exit"] == 0
    # 'compile() succeeded => exit 0' is only demanded for valid programs (the CLI may still refuse to serialise what
    # compile() accepted for a degenerate program, e.g. a gap in the routine ids); 'compile() failed => non-zero' always.
    if ok_api != ok_cli and (ok_cli or item["cls"].startswith(("corpus", "selfcheck"))):
        out.append(
            Violation(
                signature=f"C10:X:{sc}:api-{'ok' if ok_api else api.get('exc')}:exit-{cli['exit'] if cli['exit'] in (0, 'timeout') else 'nonzero'}",
                what=f"CLI exit status {cli['exit']} disagrees with compile() outcome {api['outcome']} for {item['cls']}",
                input=replayable(item, "cli"),
                contract=CONTRACT_X,
                observed=both,
            )
        )
    if item.get("must_reject"):
        if ok_cli:
            out.append(
                Violation(
                    signature=f"C10:X:{sc}:{v}:exit-0",
                    what=f"python -m explorerscript.cli.compile exits 0 for a statically meaningless program ({item['cls']}, {item.get('variant', '')})",
                    input=replayable(item, "cli"),
                    contract=CONTRACT_X,
                    observed=both,
                )
            )
        elif cli["stdout_len"]:
            out.append(
                Violation(
                    signature=f"C10:X:{sc}:{v}:stdout-not-empty",
                    what=f"CLI printed output although it rejected {item['cls']}",
                    input=replayable(item, "cli"),
                    contract=CONTRACT_X,
                    observed=both,
                )
            )
    if ok_cli and not cli["stdout_json"]:
        out.append(
            Violation(
                signature=f"C10:X:{sc}:exit-0-without-json",
                what="CLI exited 0 but stdout is not JSON",
                input=replayable(item, "cli"),
                contract=CONTRACT_X,
                observed=both,
            )
        )
    return out


# ---------------------------------------------------------------------------------------------------------------------
# work list
# ---------------------------------------------------------------------------------------------------------------------
def _h(item: dict) -> str:
    return hashlib.sha1(json.dumps([item["text"], item.get("files"), item.get("path")], sort_keys=True, ensure_ascii=True).encode()).hexdigest()


def _chunks(xs: list, n: int) -> list[list]:
    return [xs[i : i + n] for i in range(0, len(xs), n)]


def build_items(ctx: Ctx, pool) -> tuple[list[dict], dict]:
    rng = random.Random(f"C10-{ctx.seed}")
    thorough = ctx.thorough
    items: list[dict] = []
    stats: dict = {}
    # (a) corpus
    big = valid_corpus(ctx.seed, 250 if thorough else 120, size=4)
    small = valid_corpus(ctx.seed + 1, 1000 if thorough else 30, size=2, with_macros=True)[len(COVERAGE_PROGRAMS) :]
    fixtures = repo_fixture_programs(ctx.repo)
    corpus: list[dict] = []
    for name, text in big:
        corpus.append({"cls": "corpus", "variant": name, "text": text, "must_reject": False, "tok": thorough or not name.startswith("rand")})
    for name, text in small:
        corpus.append({"cls": "corpus", "variant": "small-" + name, "text": text, "must_reject": False, "tok": True})
    for name, text in SSBSCRIPT_PROGRAMS:
        corpus.append({"cls": "corpus:ssbscript", "sig_cls": "corpus", "variant": name, "text": text, "must_reject": False, "tok": True})
    for fx in fixtures:
        corpus.append({"cls": "corpus:fixture", "sig_cls": "corpus", "variant": fx["name"], "text": fx["text"], "path": fx["path"], "abs_lookup": fx["lookup"], "must_reject": False, "tok": True})
    # optional second source of programs: gen/programs.py (built by another agent; used when importable, never required)
    stats["gen_programs"] = 0
    try:
        from gen import programs as _GP

        for gi, gp in enumerate(_GP.random_programs(ctx.seed, 1500 if thorough else 150, 20)):
            gt = _GP.to_text(gp)
            if "macro" in gt and "Position<" in gt:
                continue  # may hit the known non-termination (dedicated witnesses below); keep the run time bounded
            corpus.append({"cls": "corpus:gen", "sig_cls": "corpus", "variant": f"gen{gi}", "text": gt, "must_reject": False, "tok": thorough and gi % 10 == 0})
            stats["gen_programs"] += 1
    except Exception as e:  # noqa: BLE001 - optional input source
        stats["gen_programs_error"] = repr(e)[:200]
    for name, text in MACRO_POSMARK_PROGRAMS:
        corpus.append({"cls": "corpus:macro-posmark", "sig_cls": "valid:macro-calls-macro-with-position-mark", "variant": name, "text": text, "must_reject": False, "risky": True})
    items += corpus
    stats["corpus"] = len(corpus)
    # (b) token corruptions: quick = coverage templates, fixtures, ssbscript and the small random programs; thorough = all
    base_for_tokens = [c for c in corpus if c.get("tok")]
    spans = [s for ch in pool.map(lex_chunk, _chunks([c["text"] for c in base_for_tokens], 20)) for s in ch]
    seen: set[str] = set()
    n_tok = 0
    for bi, (c, sp) in enumerate(zip(base_for_tokens, spans)):
        for op, t in token_corruptions(c["text"], sp, bi, n_repl=2 if thorough else 1):
            it = {"cls": f"token-corruption:{op}", "sig_cls": "token-corruption", "variant": c["variant"], "text": t, "must_reject": False}
            if "path" in c:
                it["path"], it["abs_lookup"] = c["path"], c["abs_lookup"]
            hh = _h(it)
            if hh in seen or t == c["text"]:
                continue
            seen.add(hh)
            items.append(it)
            n_tok += 1
    stats["token_corruptions"] = n_tok
    stats["token_corruption_bases"] = len(base_for_tokens)
    # truncations
    n_tr = 0
    trunc_sources = TRUNCATION_PROGRAMS + ([t for _, t in COVERAGE_PROGRAMS] if thorough else [COVERAGE_PROGRAMS[0][1], COVERAGE_PROGRAMS[10][1]])
    for ti, t in enumerate(trunc_sources):
        for k in range(len(t)):
            it = {"cls": "truncation", "variant": f"prog{ti}", "text": t[:k], "must_reject": False}
            hh = _h(it)
            if hh not in seen:
                seen.add(hh)
                items.append(it)
                n_tr += 1
    stats["truncations"] = n_tr
    for t in random_texts(rng, 5000 if thorough else 600):
        items.append({"cls": "random-text", "variant": "", "text": t, "must_reject": False})
    for t in META_TEXTS:
        items.append({"cls": "meta-attributes", "variant": "", "text": t, "must_reject": False})
    for t in SSBSCRIPT_BAD:
        items.append({"cls": "ssbscript-syntax-error", "variant": "", "text": t, "must_reject": False})
    # (c)
    inv = invalid_programs() + after_programs() + after_compile_programs()
    items += inv
    stats["invalid"] = len(inv)
    stats["invalid_after_placements"] = len(after_programs())
    stats["invalid_after_compile"] = len(after_compile_programs())
    items += context_selfcheck_programs()
    # (d)
    for fam, t in DEGENERATE:
        items.append({"cls": f"degenerate:{fam}", "variant": "", "text": t, "must_reject": False})
    # (e)
    ig = import_graph_items(thorough)
    items += ig
    stats["import_graphs"] = len(ig)
    return items, stats


def cli_sample(items: list[dict], thorough: bool) -> list[dict]:
    """A deterministic sample of every class (first k of each signature class + variant family) for the CLI check."""
    per = 4 if thorough else 2
    count: dict[str, int] = {}
    out = []
    for it in items:
        try:
            it["text"].encode("utf-8")
        except UnicodeEncodeError:
            continue  # cannot be stored in a file
        if it["cls"].startswith(("token-corruption", "truncation", "random-text")):
            key = it["cls"]
            lim = 6 if thorough else 3
        elif it["cls"].startswith("invalid:") or it["cls"].startswith("imports:"):
            key = it["cls"] + "|" + it.get("variant", "").split("@")[0].split(":")[0]
            lim = 1 if not thorough else per
        else:
            key = it["cls"]
            lim = per
        if it.get("pre_text") is not None:
            continue  # two compile() calls on one object: no CLI equivalent
        if it.get("risky"):
            continue  # a hanging compile is reported by clause R; the CLI would only wait for the timeout
        if it["cls"] == "imports:cyclic" or it["cls"] == "imports:acyclic":
            lim = 6
            key = it["cls"]
        if count.get(key, 0) < lim:
            count[key] = count.get(key, 0) + 1
            out.append(it)
    return out


def run(ctx: Ctx) -> PropResult:
    res = PropResult(prop="C10", level="exploration")
    res.rule = (
        "inputs: (a) valid corpus = construct-coverage templates + seeded random programs (own generator) + /repo/example + tests "
        "fixtures; (b) every single-token delete/duplicate/swap/replace of corpus programs (lexed with the repo's ANTLR lexer, "
        "deduplicated), every char prefix of a few programs, random unicode strings, meta-attribute texts; (c) each listed "
        "meaningless-program class x nesting contexts; (d) degenerate routines; (e) all import graphs on 3 files (reachable edges "
        "only) + missing/not-a-file/routines-in-import layouts. distinct = sha1 of (text, files); non-trivial = text contains at "
        "least one non-blank character."
    )
    res.assumptions = [
        "compiler constructed as ExplorerScriptSsbCompiler('%s', lookup_paths); file_name is an absolute path inside a scratch directory" % PPL,
        "a call that has not returned after %d s (or hits the %d GiB address-space limit) counts as 'does not terminate'" % (TIMEOUT_S, MEM_LIMIT >> 30),
        "ValueError includes its subclasses (UnicodeError ...); ParseError and SsbCompilerError derive from Exception, not from ValueError",
        "degenerate routines and acyclic import graphs may succeed or fail: only the exception type is checked (DESIGN §7)",
        "stray break/continue inside a macro body called from a case/loop are not generated (whether inlining makes them legal is not stated)",
    ]
    import time

    t0 = time.time()
    mp = multiprocessing.get_context("spawn")
    root = tempfile.mkdtemp(prefix="verif-C10-")
    try:
        return _run(ctx, res, mp, root, t0)
    finally:
        shutil.rmtree(root, ignore_errors=True)


def _run(ctx: Ctx, res: PropResult, mp, root: str, t0: float) -> PropResult:
    import time

    with mp.Pool(ctx.jobs, initializer=_init_worker, initargs=(ctx.repo, root)) as pool:
        items, stats = build_items(ctx, pool)
        stats["t_build"] = round(time.time() - t0, 1)
        # risky (possibly hanging) items first so they overlap with the rest
        order = sorted(range(len(items)), key=lambda i: (not items[i].get("risky"), i))
        n_risky = sum(1 for it in items if it.get("risky"))
        ordered = [items[i] for i in order]
        chunks = [[it] for it in ordered[:n_risky]] + _chunks(ordered[n_risky:], 40)
        flat = [r for ch in pool.imap(eval_chunk, [(c, ctx.repo) for c in chunks]) for r in ch]
        results: list[dict] = [None] * len(items)  # type: ignore[list-item]
        for i, r in zip(order, flat):
            results[i] = r
        stats["t_api"] = round(time.time() - t0, 1)
        sample = cli_sample(items, ctx.thorough)
        cli_results = pool.map(eval_cli, [(it, ctx.repo) for it in sample], chunksize=1)
        stats["t_cli"] = round(time.time() - t0, 1)
        stats["cli_runs"] = len(sample)

    # ---- judge
    per_cls: dict[str, dict] = {}
    distinct: set[str] = set()
    distinct_j: set[str] = set()
    n_j = 0
    for it, r in zip(items, results):
        d = per_cls.setdefault(it["cls"].split(":")[0] + (":" + it["cls"].split(":")[1] if it["cls"].startswith(("invalid", "imports", "degenerate")) else ""), {"n": 0, "ok": 0, "documented": 0, "other": 0})
        d["n"] += 1
        d["ok" if r["outcome"] == "ok" else ("documented" if r.get("documented") else "other")] += 1
        if it["text"].strip():
            distinct.add(_h(it))
        if it["cls"] == "selfcheck:context":
            if r["outcome"] != "ok":
                res.self_check_failures.append(f"nesting context {it['variant']} does not compile with a benign fragment: {r}")
            continue
        if it.get("must_reject"):
            n_j += 1
            distinct_j.add(_h(it))
        res.violations += judge_api(it, r)
    for it, both in zip(sample, cli_results):
        if it["cls"] == "selfcheck:context":
            continue
        res.violations += judge_cli(it, both)

    # ---- self checks
    corp = [(it, r) for it, r in zip(items, results) if it["cls"] == "corpus"]
    ok_corp = sum(1 for _, r in corp if r["outcome"] == "ok")
    if corp and ok_corp * 2 < len(corp):
        res.self_check_failures.append(f"only {ok_corp}/{len(corp)} generated corpus programs compile: the corpus generator is off")
    wanted = {
        "invalid:break-outside-case", "invalid:continue-outside-loop", "invalid:break_loop-outside-loop", "invalid:undefined-label",
        "invalid:switch-ends-in-empty-case", "invalid:two-defaults", "invalid:statements-in-message-switch", "invalid:label-in-with",
        "invalid:not-on-ordinary-bit", "invalid:unknown-macro", "invalid:recursive-macro", "invalid:too-few-macro-arguments",
        "imports:missing", "imports:cyclic", "imports:routines-in-imported-file",
    }  # fmt: skip
    have = {it["cls"] for it in items if it.get("must_reject")}
    for w in sorted(wanted - have):
        res.self_check_failures.append(f"contract J never evaluated for class {w}")
    if not cli_results:
        res.self_check_failures.append("contract X (CLI exit status) never evaluated")
    tok = per_cls.get("token-corruption", {})
    if tok and not (tok["ok"] and tok["documented"]):
        res.self_check_failures.append(f"token corruptions do not exercise both outcomes: {tok}")

    n_eval = sum(1 for it in items if it["cls"] != "selfcheck:context")
    res.standins.append(
        StandIn(
            contract="R: " + CONTRACT_R,
            tier="T3",
            bound=f"{stats['corpus']} corpus programs, {stats['token_corruptions']} single-token corruptions of {stats['token_corruption_bases']} programs, "
            f"{stats['truncations']} prefixes, random/meta texts, {stats['invalid']} meaningless programs, {len(DEGENERATE)} degenerate routines, "
            f"{stats['import_graphs']} import layouts (<=3 files)",
            evaluations=n_eval,
            distinct_nontrivial=len(distinct),
            exhaustive=False,
            samples=[items[0]["text"], next(it["text"] for it in items if it["cls"].startswith("token-corruption")), next(it["text"] for it in items if it["cls"].startswith("invalid"))],
            notes="outcomes per class: " + json.dumps(per_cls, sort_keys=True),
        )
    )
    res.standins.append(
        StandIn(
            contract="J: " + CONTRACT_J,
            tier="T3",
            bound=f"every listed class x up to 19 nesting contexts; {len(AFTER_FRAGMENTS)} representative fragments x {len(PRECEDERS)} preceding complete constructs x {len(PLACEMENTS)} placements (later in the routine / later routine / later macro) and after a compile() of the preceding construct on the same compiler object; all import graphs on 3 files with a reachable cycle; missing-file and routines-in-import layouts",
            evaluations=n_j,
            distinct_nontrivial=len(distinct_j),
            exhaustive=False,
            samples=[next(it["text"] for it in items if it["cls"] == "invalid:two-defaults"), next(it["files"] for it in items if it["cls"] == "imports:cyclic")],
        )
    )
    res.standins.append(
        StandIn(
            contract="X: " + CONTRACT_X,
            tier="T3",
            bound="a fixed sample of every input class, CLI run as a subprocess next to the in-process call on the same files",
            evaluations=len(cli_results),
            distinct_nontrivial=len({_h(it) for it in sample if it["text"].strip()}),
            exhaustive=False,
            samples=[sample[0]["text"]] if sample else [],
        )
    )
    res.samples = [it["text"] for it in items[:2]]
    res.extra["per_class_outcomes"] = per_cls
    res.extra["work_list"] = stats
    res.trusted_base = ["traceback frame filter (innermost /repo frame)", "SIGALRM timeout of %d s" % TIMEOUT_S]
    return res


def replay(record: dict, ctx: Ctx) -> bool:
    item = record["input"]
    mode = item.get("mode", "api")
    mp = multiprocessing.get_context("spawn")
    root = tempfile.mkdtemp(prefix="verif-C10r-")
    try:
        with mp.Pool(1, initializer=_init_worker, initargs=(ctx.repo, root)) as pool:
            if mode == "cli":
                both = pool.apply(eval_cli, ((item, ctx.repo),))
                vs = judge_cli(item, both)
            else:
                r = pool.apply(eval_item, ((item, ctx.repo),))
                vs = judge_api(item, r)
    finally:
        shutil.rmtree(root, ignore_errors=True)
    return any(v.signature == record["signature"] for v in vs)
