"""C17 (T3 part) - the Pygments highlighting lexer is total and loses no text.          (tier T3: bounded cross-check)

``run_t3(ctx) -> PropResult`` is merged into props/C17.py's result (the deductive regex obligations live there).

Contracts evaluated on the REAL ``explorerscript.pygments.expslexer.ExplorerScriptLexer``:

  U  for every string t of the scope: iterating ``get_tokens_unprocessed(t)`` ends (guard: at most 4*len(t)+8 tokens, every
     token non-empty, indices strictly increasing) and the concatenation of the token texts == t
  N  ``"".join(v for _, v in get_tokens(t)) == normalise(t)`` where normalise is Pygments' documented input normalisation
     (strip one leading BOM; CRLF and CR -> LF; strip leading and trailing LF; append one LF if the text does not end in LF),
     re-implemented here from the Pygments documentation of the `stripnl` / `ensurenl` options
  E  for sources accepted by the compiler ``get_tokens`` emits no token of type Error (or a subtype)

Scope: all strings of length <= 6 (thorough: <= 7) over the 12-character alphabet
    ' " / * LF CR § \\ a 5 . @
plus seeded random unicode strings (BOM, NUL, tabs, lone surrogates, astral characters, all quote/comment starters), and for E
the accepted seed programs of props/C16.py together with all their re-spellings.
Error tokens seen on arbitrary strings are counted (the property does not forbid them there) and reported in evidence.
"""
from __future__ import annotations

import functools
import hashlib
import itertools
import multiprocessing
import random

from vlib.result import Ctx, PropResult, StandIn, Violation

ALPHABET = ("'", '"', "/", "*", "\n", "\r", "\u00a7", "\\", "a", "5", ".", "@")
CONTRACT_U = "get_tokens_unprocessed(t) terminates and the concatenation of its token texts equals t"
CONTRACT_N = "the concatenation of get_tokens(t) equals Pygments' normalisation of t (BOM, CRLF/CR -> LF, strip LF, ensure final LF)"
CONTRACT_E = "for a source accepted by the compiler get_tokens emits no Error token"

_POOL = list("'\"/*\n\r\u00a7\\a5.@ \t$~{}()<>,;:=_-Zz09") + [
    "\ufeff", "\x00", "\x0b", "\x0c", "\x85", "\u2028", "\u2029", "\ud800", "\udfff", "\u00e9", "\u65e5", "\U0001f600",
    "'''", '"""', "/*", "*/", "//", "for_actor", "Position", "message_SwitchTalk", "0x1F", "0b1", "017", ".5", "1.5",
]


def normalise(t: str) -> str:
    if t.startswith("\ufeff"):
        t = t[1:]
    t = t.replace("\r\n", "\n").replace("\r", "\n")
    t = t.strip("\n")
    if not t.endswith("\n"):
        t += "\n"
    return t


@functools.lru_cache(maxsize=None)
def _lexer():
    from explorerscript.pygments.expslexer import ExplorerScriptLexer
    from pygments.token import Error

    return ExplorerScriptLexer(), Error


def shape(t: str) -> str:
    """Coarse, decidable class of an input: the sequence of 'special' characters it contains (runs collapsed, max 4)."""
    names = {"'": "sq", '"': "dq", "/": "slash", "*": "star", "\n": "LF", "\r": "CR", "\u00a7": "para", "\\": "bs", "\ufeff": "BOM"}
    seq = []
    for ch in t:
        n = names.get(ch)
        if n and (not seq or seq[-1] != n):
            seq.append(n)
        if len(seq) >= 4:
            break
    return "-".join(seq) or "plain"


def check_text(t: str, accepted: bool = False, with_n: bool = True) -> tuple[list[dict], int]:
    """Returns (failures, number of Error tokens on the normalised text). with_n=False evaluates contract U only."""
    lx, Error = _lexer()
    fails = []
    inp = {"text": t, "accepted": accepted}
    # U
    limit = 4 * len(t) + 8
    parts = []
    last = -1
    bad = None
    try:
        for k, (idx, _tok, val) in enumerate(lx.get_tokens_unprocessed(t)):
            if k > limit:
                bad = "too-many-tokens"
                break
            if val == "":
                bad = "empty-token"
                break
            if idx <= last:
                bad = "index-not-increasing"
                break
            last = idx
            parts.append(val)
    except Exception as e:  # repository / pygments code raised
        bad = f"raises-{type(e).__name__}"
    if bad is None and "".join(parts) != t:
        bad = "concat-differs"
    if bad:
        fails.append({"signature": f"C17:t3:unprocessed:{bad}:{shape(t)}", "what": f"get_tokens_unprocessed({t!r}): {bad}; tokens {parts[:8]!r}"[:300],
                      "input": inp, "contract": CONTRACT_U, "observed": {"symptom": bad, "tokens": parts[:20]}})
    # N and E
    n_err = 0
    if not with_n:
        return fails, sum(1 for _ in ())
    try:
        toks = list(itertools.islice(lx.get_tokens(t), 0, 4 * len(t) + 16))
        got = "".join(v for _tt, v in toks)
        n_err = sum(1 for tt, _v in toks if tt in Error)
        if got != normalise(t):
            fails.append({"signature": f"C17:t3:get_tokens:concat-differs-from-normalised:{shape(t)}", "what": f"get_tokens({t!r}) concatenates to {got!r}, normalised input is {normalise(t)!r}"[:300],
                          "input": inp, "contract": CONTRACT_N, "observed": got})
    except Exception as e:
        fails.append({"signature": f"C17:t3:get_tokens:raises-{type(e).__name__}:{shape(t)}", "what": f"get_tokens({t!r}) raises {e!r}"[:300], "input": inp, "contract": CONTRACT_N, "observed": repr(e)})
    if accepted and n_err:
        fails.append({"signature": "C17:t3:accepted-program:error-token", "what": f"accepted program yields {n_err} Error token(s): {t[:80]!r}", "input": inp, "contract": CONTRACT_E,
                      "observed": [v for tt, v in toks if tt in Error][:10]})
    return fails, n_err


def _w_enum(args) -> dict:
    prefix, rest_len, n_full_len = args
    n = errs = n_n = 0
    fails = []
    for k in range(rest_len + 1):
        for tup in itertools.product(ALPHABET, repeat=k):
            t = prefix + "".join(tup)
            # contract N on every string up to n_full_len and on longer ones whose normalisation is not just "+LF"
            with_n = len(t) <= n_full_len or t[0] in "\n\r" or t[-1] in "\n\r" or "\r" in t
            f, e = check_text(t, with_n=with_n)
            n_n += with_n
            n += 1
            errs += 1 if e else 0
            if f and len(fails) < 50:
                fails += f
    return {"n": n, "fails": fails, "errs": errs, "n_n": n_n}


def _w_list(args) -> dict:
    texts, accepted = args
    fails = []
    errs = 0
    for t in texts:
        f, e = check_text(t, accepted)
        fails += f
        errs += 1 if e else 0
    return {"n": len(texts), "fails": fails, "errs": errs}


def _w_programs(args) -> dict:
    seed, ctx_seed, thorough = args
    from props import C16

    texts = [seed["text"]] + [C16.render(nt, ng) for (_tr, _cls, nt, ng) in C16.respellings(seed, ctx_seed, thorough)]
    out = _w_list((texts, True))
    out["hashes"] = len({hashlib.sha1(t.encode("utf-8", "surrogatepass")).hexdigest() for t in texts})
    return out


def random_texts(rng: random.Random, n: int) -> list[str]:
    out = []
    for _ in range(n):
        k = rng.randint(0, 40)
        out.append("".join(rng.choice(_POOL) for _ in range(k)))
    return out


def run_t3(ctx: Ctx) -> PropResult:
    from props import C16

    res = PropResult(prop="C17", level="exploration")
    max_len = 7 if ctx.thorough else 6
    # shard the enumeration by 2-character prefixes; the prefixes of length < 2 are one extra task
    tasks: list[tuple[str, tuple]] = []
    tasks.append(("enum-short", None))
    for a in ALPHABET:
        for b in ALPHABET:
            tasks.append(("enum", (a + b, max_len - 2, max_len if ctx.thorough else max_len - 1)))
    rnd = random_texts(random.Random(ctx.seed + 17), 40000 if ctx.thorough else 8000)
    for i in range(0, len(rnd), 2000):
        tasks.append(("list", (rnd[i : i + 2000], False)))
    seeds, _rej = C16.accepted_seeds(ctx)
    for s in seeds:
        tasks.append(("prog", (s, ctx.seed, ctx.thorough)))
    mp = multiprocessing.get_context("spawn")
    with mp.Pool(max(1, ctx.jobs)) as pool:
        parts = pool.map(_dispatch, tasks, chunksize=1)
    n_enum = n_rnd = n_prog = errs_any = n_with_n = 0
    distinct_prog = 0
    fails = []
    for (tag, _a), p in zip(tasks, parts):
        fails += p["fails"]
        if tag in ("enum", "enum-short"):
            n_enum += p["n"]
            n_with_n += p.get("n_n", p["n"])
            errs_any += p["errs"]
        elif tag == "list":
            n_rnd += p["n"]
            errs_any += p["errs"]
        else:
            n_prog += p["n"]
            distinct_prog += p.get("hashes", 0)
    expected_enum = sum(len(ALPHABET) ** k for k in range(max_len + 1))
    if n_enum != expected_enum:
        res.self_check_failures.append(f"C17 T3: enumerated {n_enum} strings, expected {expected_enum}")
    fails.sort(key=lambda f: (f["signature"], len(f["input"]["text"]), f["input"]["text"]))
    seen: dict[str, int] = {}
    for f in fails:
        seen[f["signature"]] = seen.get(f["signature"], 0) + 1
        if seen[f["signature"]] <= 3:
            res.violations.append(Violation(signature=f["signature"], what=f["what"], input=f["input"], contract=f["contract"], observed=f["observed"]))
    res.standins.append(StandIn(
        contract=CONTRACT_U + "; " + CONTRACT_N, tier="T3",
        bound=f"all {expected_enum} strings of length <= {max_len} over {list(ALPHABET)!r}; {n_rnd} seeded random unicode strings of length <= 40 tokens of a pool with BOM, NUL, lone surrogates, astral characters",
        evaluations=n_enum + n_rnd, distinct_nontrivial=n_enum - 1, exhaustive=True,
        samples=["'''a\"'", "/*/", "§a\r\n"],
        notes=f"contract U on every enumerated string; contract N on {n_with_n} of them (quick tier: all of length <= {max_len - 1} and those of length {max_len} that "
              f"start/end with a line break or contain CR; thorough: all). distinct = enumerated strings (all distinct by construction), non-trivial = non-empty. Inputs of the scope on which an Error token appears (allowed for arbitrary text): {errs_any}",
    ))
    res.standins.append(StandIn(
        contract=CONTRACT_E + "; " + CONTRACT_N, tier="T3",
        bound=f"{len(seeds)} accepted seed programs of props/C16.py and all their re-spellings ({n_prog} texts)",
        evaluations=n_prog, distinct_nontrivial=distinct_prog, exhaustive=False,
        samples=["def 0 { §l; a('x'); jump @l; }"],
        notes="distinct = distinct texts (sha1) per seed",
    ))
    res.rule = "exhaustive enumeration over a 12-character alphabet + random.Random(seed) unicode strings; accepted programs from props/C16.py; the real Pygments lexer class is run"
    res.assumptions = ["normalise() is this checker's reading of Pygments' documented input preprocessing (options stripnl=True, ensurenl=True, tabsize=0, stripall=False: the lexer's defaults)"]
    res.trusted_base = ["props/C17_t3.py:normalise", "pygments RegexLexer engine (the object under test together with the token table)"]
    res.extra["t3_error_tokens_on_arbitrary_inputs"] = errs_any
    if n_prog == 0:
        res.self_check_failures.append("C17 T3: no accepted program was lexed")
    return res


def _dispatch(task):
    tag, args = task
    if tag == "enum-short":
        # strings of length 0 and 1 (the sharded tasks cover every string of length >= 2)
        out = {"n": 0, "fails": [], "errs": 0}
        for t in [""] + list(ALPHABET):
            f, e = check_text(t)
            out["n"] += 1
            out["fails"] += f
            out["errs"] += 1 if e else 0
        return out
    if tag == "enum":
        return _w_enum(args)
    if tag == "list":
        return _w_list(args)
    if tag == "prog":
        return _w_programs(args)
    raise ValueError(tag)


def replay_t3(record: dict, ctx: Ctx) -> bool:
    inp = record["input"]
    fails, _e = check_text(inp["text"], bool(inp.get("accepted")))
    return any(f["signature"] == record["signature"] for f in fails)


# so that `./check`-style drivers can use this module on its own
run = run_t3
replay = replay_t3
