"""C01 - compiled bytecode behaves exactly as the source program says (T3: bounded exploration).

Contract on ExplorerScriptSsbCompiler.compile(text, ...) for every accepted program:

    forall routine r:  equiv(machine(routine_ops)[r], sem(ast(text))[r])
    and routine_infos[r] / named_coroutines[r] carry the id, kind, target and coroutine name of the source routine
    and an `alias previous` routine has the empty op list (the SSB encoding of an alias)

`sem` (spec/sem.py) is written from docs/language_spec.rst (+ the decompiler's printers), `machine`/`equiv` from the text
of the property (spec/machine.py).  Inputs: gen/programs.py (exhaustive skeleton families + seeded random programs).

Context ops.  The LTS of both sides are refined by `bind_contexts`: a context op (lives / object / performer) carries
whether the op that directly follows it is a Jump or an observable op (a Jump is silent for the control flow, but the
context op applies to whatever follows it directly).

Signatures.  When the top-level contract fails, the compilation is repeated with run-time monitors on the stages of
compile() (visitor/handlers -> strip_last_label -> LabelFinalizer -> OpsLabelJumpToRemover): the intermediate op lists
(labels still present) are run on the same machine model and compared with the specification; the *first* stage whose
output is not equivalent is the faulty one, and a structural monitor of that stage says what it did:

    C01:handlers:lone-jump-shortcut:negated-header        _process_block retargets *negative* header jumps to the
                                                          target of a block that consists of one jump
    C01:handlers:lone-jump-shortcut:case-body             _process_block drops the body of a case that is one jump
                                                          (fall-through into that case loses the jump)
    C01:strip_last_label:cond-jump-became-Return          a reachable Branch*/Case*/Call to the routine's end label
                                                          is replaced by Return
    C01:strip_last_label:cond-jump-deleted                ... or deleted
    C01:strip_last_label:reachable-jump-deleted           a reachable Jump to the routine's end label is deleted
                                                          (tags of one stage are joined with `+`)
    C01:label-finalizer:jump-removed-over-kept-op         a Jump is removed although ops that stay lie between it
                                                          and its label
    C01:label-finalizer:jump-bound-to-context-op-removed  the Jump that is the statement of a with-block is removed
                                                          (it targets the label right behind the block): the context
                                                          op now applies to the op behind the label
    C01:strip_last_label:jump-bound-to-context-op-became-Return / -deleted     same, by strip_last_label
    C01:<stage>:unclassified:<symptom>:<shape of the shrunk program>     anything the monitors do not explain
    C01:case-scenario:...                                 documented opcode deviation (CaseScenario for CaseValue)
    C01:header-*/alias-*/table-length/compile-raises:*    routine tables

so one defect maps to one or very few signatures and different defects never share one.  Per signature the smallest
failing program of the run is shrunk (deterministic greedy reduction keeping the signature) to give the replay input;
workers carry no state between chunks, so the same tree gives the same records on every run.
"""
from __future__ import annotations

import copy
import hashlib
import json
import multiprocessing
import os
import sys
import time
from typing import Any, Callable, Optional

from vlib.result import Ctx, PropResult, StandIn, Violation

PERF = "PERFORMANCE_PROGRESS_LIST"
CONTRACT = (
    "compile(text): for every routine r, machine(routine_ops)[r] is equivalent (all outcomes of all tests) to "
    "sem(ast(text))[r]; routine_infos/named_coroutines[r] == header of the source routine; alias routines are empty"
)
RANDOM_N = {"quick": 2000, "thorough": 50000}


# ====================================================================================== compile (plain / monitored)
def compile_text(text: str) -> Any:
    from explorerscript.ssb_converting.ssb_compiler import ExplorerScriptSsbCompiler

    c = ExplorerScriptSsbCompiler(PERF)
    c.compile(text, "/nonexistent/x.exps")
    return c


def compile_monitored(text: str) -> dict:
    """compile with monitors on the stages; returns the captured intermediate op lists and _process_block events.
    Monitors are installed where compile() looks the names up and removed in `finally`."""
    import explorerscript.ssb_converting.compiler.compile_handlers.abstract as abstract
    import explorerscript.ssb_converting.ssb_compiler as mod

    cap: dict = {"events": []}
    real_strip, real_fin, real_pb = mod.strip_last_label, mod.LabelFinalizer, abstract.AbstractComplexBlockCompileHandler._process_block

    def strip_spy(routine_ops: list) -> list:
        cap["pre"] = copy.deepcopy(routine_ops)
        out = real_strip(routine_ops)
        cap["post"] = copy.deepcopy(out)
        return out

    def fin_spy(routines: list) -> Any:
        f = real_fin(routines)
        cap["fin"] = copy.deepcopy(f.routines)
        return f

    def pb_spy(self: Any, insert_the_jump_if_needed: bool = True) -> list:
        ops = real_pb(self, insert_the_jump_if_needed)
        blueprints = self._header_jump_blueprints
        if len(blueprints) > 0 and len(ops) == 1 and ops[0] is self.end_label and len(self._added_handlers) > 0:
            # the lone-jump shortcut was taken: the block body (one Jump) is not part of the returned ops
            kind = type(self).__name__.replace("CompileHandler", "")
            if any(not b.jump_is_positive for b in blueprints):
                cap["events"].append(("negated-header", kind))
            if kind in ("CaseBlock", "DefaultCaseBlock"):
                cap["events"].append(("case-body", kind))
        return ops

    mod.strip_last_label = strip_spy
    mod.LabelFinalizer = fin_spy
    abstract.AbstractComplexBlockCompileHandler._process_block = pb_spy
    try:
        cap["compiler"] = compile_text(text)
    finally:
        mod.strip_last_label = real_strip
        mod.LabelFinalizer = real_fin
        abstract.AbstractComplexBlockCompileHandler._process_block = real_pb
    return cap


def ops_dump(routine_ops: list) -> list:
    return [[[op.offset, op.op_code.name, [str(p) for p in op.params]] for op in r] for r in routine_ops]


def machine_labelled(routine_ops: list) -> tuple:
    """LTS of the compiler's *intermediate* op lists (SsbLabel / SsbLabelJump still present); labels at the end of a
    routine stand for running off its end.  Same model as spec/machine.py.  Node ids ('i', routine, index)."""
    from explorerscript.ssb_converting.ssb_special_ops import SsbLabel, SsbLabelJump

    from spec.machine import IMPLICIT_RETURN, STOP_OPS, MalformedRoutines, Node, param_key

    nodes: dict = {}
    entries: list = []
    label_pos: dict = {}
    wanted: set = set()
    for ri, r in enumerate(routine_ops):
        end_id = ("end", ri)
        nodes[end_id] = Node("stop", IMPLICIT_RETURN, ())
        entries.append(("i", ri, 0) if r else end_id)
        for idx, op in enumerate(r):
            nid = ("i", ri, idx)
            nxt = ("i", ri, idx + 1) if idx + 1 < len(r) else end_id
            if isinstance(op, SsbLabel):
                nodes[nid] = Node("silent", (), (nxt,))
                label_pos[op.id] = nid
            elif isinstance(op, SsbLabelJump):
                if op.label is None:
                    raise MalformedRoutines("label jump without label")
                tgt = ("L", op.label.id)
                wanted.add(op.label.id)
                root = op.root
                if root.op_code.name == "Jump":
                    nodes[nid] = Node("silent", (), (tgt,))
                else:
                    nodes[nid] = Node("test", (root.op_code.name, tuple(param_key(p) for p in root.params)), (tgt, nxt))
            else:
                label = (op.op_code.name, tuple(param_key(p) for p in op.params))
                prev = r[idx - 1] if idx > 0 else None
                in_ctx = prev is not None and not isinstance(prev, (SsbLabel, SsbLabelJump)) and prev.op_code.name in CTX_OPS
                if op.op_code.name in STOP_OPS and not in_ctx:
                    nodes[nid] = Node("stop", label, ())
                else:
                    nodes[nid] = Node("op", label, (nxt,))
    for lid in wanted:
        if lid not in label_pos:
            raise MalformedRoutines(f"label {lid} is jumped to but not placed")
        nodes[("L", lid)] = Node("silent", (), (label_pos[lid],))
    # context binding (see bind_contexts): the op that follows a context op in the list, labels are not ops
    for ri, r in enumerate(routine_ops):
        for idx, op in enumerate(r):
            if isinstance(op, (SsbLabel, SsbLabelJump)) or op.op_code.name not in CTX_OPS:
                continue
            j = idx + 1
            while j < len(r) and isinstance(r[j], SsbLabel):
                j += 1
            is_jump = j < len(r) and isinstance(r[j], SsbLabelJump) and r[j].root.op_code.name == "Jump"
            n = nodes[("i", ri, idx)]
            nodes[("i", ri, idx)] = Node("op", (n.label[0], n.label[1], ("binds", "jump" if is_jump else "op")), n.succ)
    return nodes, entries


CTX_OPS = ("lives", "object", "performer")


def bind_contexts(nodes: dict) -> dict:
    """Refinement of the machine model for with-blocks / inline contexts: a context op (lives / object / performer)
    applies to the op that DIRECTLY follows it (ssb_special_ops: "The next OP after these will be executed in the
    context of an actor/object/performer"; docs: a with-block "runs a statement in the context of ..."), also when
    that op is a Jump.  A Jump is silent for the behaviour of the routine, but whether the context op is bound to
    a Jump (`with (actor 1) { jump @x; }`, break, continue, ...) or to an observable op is part of what the source
    says.  The label of every context op gets a third component ("binds", "jump" | "op"): "jump" iff its immediate
    successor is a silent jump node (label nodes of the reference semantics are looked through).  Applied to the
    LTS of the compiled ops and of the reference semantics alike before `equiv`."""
    from spec.machine import Node

    out = dict(nodes)
    for nid, n in nodes.items():
        if n.kind == "op" and n.label and n.label[0] in CTX_OPS and len(n.label) == 2:
            s = n.succ[0]
            seen = set()
            while nodes[s].kind == "silent" and isinstance(s, tuple) and s and s[0] == "L" and s not in seen:
                seen.add(s)
                s = nodes[s].succ[0]
            out[nid] = Node("op", (n.label[0], n.label[1], ("binds", "jump" if nodes[s].kind == "silent" else "op")), n.succ)
    return out


def _reachable(nodes: dict, entry: Any) -> set:
    seen: set = set()
    stack = [entry]
    while stack:
        n = stack.pop()
        if n in seen:
            continue
        seen.add(n)
        stack.extend(nodes[n].succ)
    return seen


# ====================================================================================== classification of a failure
def _strip_tags(pre: list, post: list, rid: int) -> list:
    """what strip_last_label did to ops that are *reachable* from the entry of routine rid (structural comparison of
    its input and output; other routines are included because jumps may cross routines)"""
    from explorerscript.ssb_converting.ssb_special_ops import SsbLabel, SsbLabelJump

    nodes, entries = machine_labelled(pre)
    reach = _reachable(nodes, entries[rid])
    tags: set = set()
    for ri, routine in enumerate(pre):
        post_by_offset = {op.offset: op for op in post[ri] if not isinstance(op, SsbLabel)}
        for idx, op in enumerate(routine):
            if isinstance(op, SsbLabel) or ("i", ri, idx) not in reach or not isinstance(op, SsbLabelJump):
                continue
            after = post_by_offset.get(op.offset)
            is_jump = op.root.op_code.name == "Jump"
            prev = routine[idx - 1] if idx > 0 else None
            in_ctx = prev is not None and not isinstance(prev, (SsbLabel, SsbLabelJump)) and prev.op_code.name in CTX_OPS
            if after is None:
                tags.add("reachable-jump-deleted" if is_jump else "cond-jump-deleted")
                if is_jump and in_ctx:
                    tags.add("jump-bound-to-context-op-deleted")
            elif not isinstance(after, SsbLabelJump) and not is_jump:
                tags.add("cond-jump-became-Return")
            elif not isinstance(after, SsbLabelJump) and is_jump and in_ctx:
                # `with (actor X) { jump @end; }`: the context op now applies to a Return op
                tags.add("jump-bound-to-context-op-became-Return")
    return sorted(tags)


def _finalizer_tags(post: list, fin: list, rid: int) -> list:
    """LabelFinalizer may only remove a Jump whose label follows it with nothing but labels in between"""
    from explorerscript.ssb_converting.ssb_special_ops import SsbLabel, SsbLabelJump

    kept = {op.offset for op in fin[rid] if not isinstance(op, SsbLabel)}
    r = post[rid]
    for i, op in enumerate(r):
        if isinstance(op, SsbLabel) or op.offset in kept:
            continue
        if not (isinstance(op, SsbLabelJump) and op.root.op_code.name == "Jump"):
            return ["non-jump-removed"]
        prev = r[i - 1] if i > 0 else None
        if prev is not None and not isinstance(prev, (SsbLabel, SsbLabelJump)) and prev.op_code.name in CTX_OPS:
            # the jump is the statement of a with-block; without it the context op applies to the op behind the label
            return ["jump-bound-to-context-op-removed"]
        between = []
        for j in range(i + 1, len(r)):
            if isinstance(r[j], SsbLabel):
                if r[j].id == op.label.id:
                    break
            else:
                between.append(r[j])
        if any(b.offset in kept for b in between):
            return ["jump-removed-over-kept-op"]
    return []


def classify(text: str, prog: Any, rid: int, symptom: str, case_scenario: bool) -> list:
    """signature cores (without shape) for a behavioural mismatch of routine rid.

    Every stage of compile() is checked against its own contract, independently of the others:
        handlers            machine(visitor output)  ~ sem(source)
        strip_last_label    machine(output) ~ machine(input)      (labels at a routine end = running off the end)
        LabelFinalizer      machine(output) ~ machine(input)
        OpsLabelJumpToRemover   machine(final ops) ~ machine(input)
    so a defect in an early stage does not hide one in a later stage."""
    from spec import sem as S
    from spec.machine import MalformedRoutines, OpFreeCycle, equiv, machine

    try:
        cap = compile_monitored(text)
    except Exception:  # noqa: BLE001
        return [f"unlocated:unclassified:{symptom}"]
    nodes, entries, headers = S.sem(prog, PERF, case_scenario=case_scenario, ctx_continues=True)
    nodes = bind_contexts(nodes)
    e = entries[[h["id"] for h in headers].index(rid)]

    lts: dict = {"sem": (nodes, e)}
    for key in ("pre", "post", "fin"):
        try:
            mn, me = machine_labelled(cap[key])
            lts[key] = (mn, me[rid])
        except (MalformedRoutines, KeyError, IndexError):
            lts[key] = None
    try:
        mn, me = machine(cap["compiler"].routine_ops, ctx_continues=True)
        lts["final"] = (bind_contexts(mn), me[rid])
    except MalformedRoutines:
        lts["final"] = None

    def differ(a: str, b: str) -> Optional[bool]:
        """True: not equivalent; False: equivalent; None: cannot be judged (op-free cycle / malformed)"""
        if lts[a] is None or lts[b] is None:
            return True
        try:
            return equiv(lts[b][0], lts[b][1], lts[a][0], lts[a][1]) is not None
        except OpFreeCycle:
            return None

    cores = []
    if differ("sem", "pre"):
        kinds = sorted({k for k, _ in cap["events"]})
        cores.append("handlers:lone-jump-shortcut:" + "+".join(kinds) if kinds else f"handlers:unclassified:{symptom}")
    if differ("pre", "post"):
        try:
            tags = _strip_tags(cap["pre"], cap["post"], rid)
        except Exception:  # noqa: BLE001
            tags = []
        cores.append("strip_last_label:" + ("+".join(tags) if tags else f"unclassified:{symptom}"))
    if differ("post", "fin"):
        tags = _finalizer_tags(cap["post"], cap["fin"], rid)
        cores.append("label-finalizer:" + ("+".join(tags) if tags else f"unclassified:{symptom}"))
    if differ("fin", "final"):
        cores.append(f"label-jump-to-remover:unclassified:{symptom}")
    if not cores:
        cores.append(f"unlocated:unclassified:{symptom}")
    return cores


def _symptom(path: list) -> str:
    """class of a distinguishing path: what the compiled code (left) does where the specification (right) differs"""
    m = path[-1]
    (lk, ll), (rk, rl) = m[1], m[2]
    ln, rn = (ll[0] if ll else "?"), (rl[0] if rl else "?")

    def cls(kind: str, name: str) -> str:
        if kind == "test":
            return "test"
        if kind == "stop":
            return f"stop-{name}"
        return "op"

    if lk == rk and ln == rn:
        return f"params-differ[{ln}]"
    if lk == rk == "test":
        return f"test-opcode[{ln}-for-{rn}]"
    return f"diverge[compiled-{cls(lk, ln)}/spec-{cls(rk, rn)}]"


def _is_case_scenario_deviation(path: list) -> bool:
    left, right = path[-1][1], path[-1][2]
    return (
        left[0] == "test" == right[0]
        and left[1][0] == "CaseScenario"
        and right[1][0] == "CaseValue"
        and left[1][1] == right[1][1]
    )


# ====================================================================================== analysis of one program
class Outcome:
    """result of analysing one program"""

    def __init__(self) -> None:
        self.problems: list = []  # (signature core, detail)  -> contract violations
        self.selfcheck: list = []  # problems of the checker / generator
        self.skipped_routines = 0  # op-free cycle: outside the quantifier
        self.checked_routines = 0
        self.rejected: Optional[str] = None
        self.excluded = False
        self.dump: Any = None


def _cross_routine_label_use(prog: Any) -> bool:
    from spec import esast as A

    where: dict = {}
    for ri, r in enumerate(prog.routines):
        for n in A.walk(r):
            if isinstance(n, A.Label):
                where[n.name] = ri
    for ri, r in enumerate(prog.routines):
        for n in A.walk(r):
            if isinstance(n, (A.Jump, A.Call)) and where.get(n.name, ri) != ri:
                return True
    return False


def analyse(prog: Any, text: Optional[str] = None, selfcheck_roundtrip: bool = True) -> Outcome:
    from explorerscript.error import ParseError, SsbCompilerError

    from gen import programs as P
    from spec import esast, sem as S
    from spec.machine import MalformedRoutines, OpFreeCycle, describe_path, equiv, machine, reachable_labels

    out = Outcome()
    if text is None:
        text = P.to_text(prog)
    if selfcheck_roundtrip:
        try:
            back = esast.parse(text)
        except ParseError as e:
            out.selfcheck.append(f"printed program does not parse: {e}")
            return out
        if back != prog:
            out.selfcheck.append("printer/parser round trip changed the AST")
            return out
    try:
        c = compile_text(text)
    except (SsbCompilerError, ParseError) as e:
        out.rejected = f"{type(e).__name__}: {e}"
        if "does not exist, but a jump to it does" in str(e) and _cross_routine_label_use(prog):
            # a label at the very end of a routine is dropped (it marks no statement); a jump from another routine to it
            # is rejected with the documented SsbCompilerError: not an accepted program, outside C01's quantifier
            out.excluded = True
        return out
    except Exception as e:  # noqa: BLE001 - exceptions of repository code are contract violations
        out.problems.append((f"compile-raises:{type(e).__name__}", f"{type(e).__name__}: {e}"))
        return out
    out.dump = ops_dump(c.routine_ops)
    try:
        nodes, entries, headers = S.sem(prog, PERF, ctx_continues=True)
    except S.StaticError as e:
        out.selfcheck.append(f"compiler accepted a program the reference semantics calls invalid: {e}")
        return out
    n_expected = max(h["id"] for h in headers) + 1
    if not (len(c.routine_ops) == len(c.routine_infos) == len(c.named_coroutines) == n_expected):
        out.problems.append(
            (
                "table-length",
                f"routine_ops/infos/named_coroutines have {len(c.routine_ops)}/{len(c.routine_infos)}/"
                f"{len(c.named_coroutines)} entries, source has routine ids 0..{n_expected - 1}",
            )
        )
        return out
    try:
        mn, me = machine(c.routine_ops, ctx_continues=True)
    except MalformedRoutines as e:
        out.problems.append(("malformed-output", str(e)))
        return out
    mn, nodes = bind_contexts(mn), bind_contexts(nodes)
    nodes_alt = None
    for idx, (e, h) in enumerate(zip(entries, headers)):
        rid = h["id"]
        info = c.routine_infos[rid]
        if info is None or info.type != h["kind"]:
            out.problems.append(("header-kind", f"routine {rid}: kind {getattr(info, 'type', None)} expected {h['kind']}"))
        elif isinstance(h["target"], int) and not (info.linked_to == h["target"] and info.linked_to_name is None):
            out.problems.append(
                ("header-target", f"routine {rid}: linked_to {info.linked_to}/{info.linked_to_name} expected {h['target']}")
            )
        elif isinstance(h["target"], str) and info.linked_to_name != h["target"]:
            out.problems.append(("header-target", f"routine {rid}: linked_to_name {info.linked_to_name} expected {h['target']}"))
        got_name = c.named_coroutines[rid] if isinstance(c.named_coroutines[rid], str) else None
        if got_name != h["coroutine"]:
            out.problems.append(
                ("header-coroutine", f"routine {rid}: coroutine name {c.named_coroutines[rid]!r} expected {h['coroutine']!r}")
            )
        if h["alias"]:
            if len(c.routine_ops[rid]) != 0:
                out.problems.append(("alias-not-empty", f"routine {rid} is `alias previous` but has {len(c.routine_ops[rid])} ops"))
            continue
        try:
            # programs whose specification has a reachable op-free cycle are outside the quantifier, wherever it lies
            reachable_labels(nodes, e)
            path = equiv(mn, me[rid], nodes, e)
            if path is not None and _is_case_scenario_deviation(path):
                out.problems.append(("case-scenario:CaseScenario-for-CaseValue-under-SwitchScenario", f"routine {rid}: " + describe_path(path)))
                if nodes_alt is None:
                    nodes_alt = S.sem(prog, PERF, case_scenario=True, ctx_continues=True)
                    nodes_alt = (bind_contexts(nodes_alt[0]),) + tuple(nodes_alt[1:])
                path = equiv(mn, me[rid], nodes_alt[0], nodes_alt[1][idx])
            out.checked_routines += 1
        except OpFreeCycle:
            out.skipped_routines += 1
            continue
        if path is not None:
            for core in classify(text, prog, rid, _symptom(path), True):
                out.problems.append((core, f"routine {rid}: " + describe_path(path)))
    return out


# ====================================================================================== shape + shrinking
def shape(prog: Any) -> str:
    """compact, input-independent description of the construct shape of a program"""
    from spec import esast as A

    def blk(stmts: Any) -> str:
        return "{" + " ".join(st(s) for s in stmts) + "}"

    def cond(c: Any) -> str:
        return type(c).__name__[4:].lower() + ("!" if getattr(c, "negated", False) else "")

    def st(s: Any) -> str:
        if isinstance(s, A.Op):
            return "op<ctx>" if s.ctx is not None else "op"
        if isinstance(s, A.ASSIGNMENTS):
            return "assign"
        if isinstance(s, A.Label):
            return "@"
        if isinstance(s, A.Jump):
            return "jump"
        if isinstance(s, A.Call):
            return "call"
        if isinstance(s, A.Ctrl):
            return s.kind
        if isinstance(s, A.With):
            return "with{" + st(s.stmt) + "}"
        if isinstance(s, A.MacroCall):
            return "~macro"
        if isinstance(s, A.MessageSwitch):
            return "msgswitch(" + ",".join("default" if c.header is None else "case" for c in s.cases) + ")"
        if isinstance(s, A.If):
            parts = []
            for i, br in enumerate(s.branches):
                parts.append(
                    ("if" if i == 0 else "elseif")
                    + ("-not" if br.negated else "")
                    + "("
                    + "||".join(cond(c) for c in br.conds)
                    + ")"
                    + blk(br.body)
                )
            if s.else_body is not None:
                parts.append("else" + blk(s.else_body))
            return "".join(parts)
        if isinstance(s, A.Switch):
            return (
                "switch("
                + type(s.header).__name__[2:].lower()
                + "){"
                + " ".join(
                    ("default" if c.header is None else "case-" + type(c.header).__name__[4:].lower()) + blk(c.body)
                    for c in s.cases
                )
                + "}"
            )
        if isinstance(s, A.Forever):
            return "forever" + blk(s.body)
        if isinstance(s, A.While):
            return ("while-not" if s.negated else "while") + "(" + cond(s.cond) + ")" + blk(s.body)
        if isinstance(s, A.For):
            return "for(" + cond(s.cond) + ")" + blk(s.body)
        return type(s).__name__

    parts = []
    for it in prog.items:
        if isinstance(it, A.Macro):
            parts.append("macro" + (blk(it.body) if it.body is not None else "{alias}"))
        else:
            head = "coro" if it.kind == "coro" else ("def" if it.target_kind is None else f"def-for-{it.target_kind}")
            parts.append(head + (blk(it.body) if it.body is not None else "{alias}"))
    return " ".join(parts)


def _candidates(prog: Any):
    """smaller / simpler variants of a program, most aggressive first (deterministic order)"""
    from spec import esast as A

    simple_cond = A.CondSpecial(False, "debug")
    compound = (A.If, A.Switch, A.Forever, A.While, A.For)

    def stmt_variants(s: Any):
        """replacements (tuples of statements) for one statement"""
        if isinstance(s, A.If):
            for br in s.branches:
                yield br.body
            if s.else_body is not None:
                yield s.else_body
            if len(s.branches) > 1:
                for i in range(len(s.branches)):
                    yield (A.If(s.branches[:i] + s.branches[i + 1 :], s.else_body),)
            if s.else_body is not None:
                yield (A.If(s.branches, None),)
            for i, br in enumerate(s.branches):
                if len(br.conds) > 1:
                    for j in range(len(br.conds)):
                        nb = A.IfBranch(br.negated, br.conds[:j] + br.conds[j + 1 :], br.body)
                        yield (A.If(s.branches[:i] + (nb,) + s.branches[i + 1 :], s.else_body),)
                for nb_body in block_variants(br.body):
                    nb = A.IfBranch(br.negated, br.conds, nb_body)
                    yield (A.If(s.branches[:i] + (nb,) + s.branches[i + 1 :], s.else_body),)
                if br.conds != (simple_cond,) and len(br.conds) == 1:
                    nb = A.IfBranch(br.negated, (simple_cond,), br.body)
                    yield (A.If(s.branches[:i] + (nb,) + s.branches[i + 1 :], s.else_body),)
            if s.else_body is not None:
                for nb_body in block_variants(s.else_body):
                    yield (A.If(s.branches, nb_body),)
        elif isinstance(s, A.Switch):
            for c in s.cases:
                yield tuple(x for x in c.body if not (isinstance(x, A.Ctrl) and x.kind == "break"))
            for i in range(len(s.cases)):
                yield (A.Switch(s.header, s.cases[:i] + s.cases[i + 1 :]),)
            for i, c in enumerate(s.cases):
                for nb_body in block_variants(c.body):
                    yield (A.Switch(s.header, s.cases[:i] + (A.Case(c.header, nb_body),) + s.cases[i + 1 :]),)
                if c.header is not None and not (isinstance(c.header, A.CaseVal) and isinstance(c.header.value, A.Int)):
                    nc = A.Case(A.CaseVal(A.Int(i + 1)), c.body)
                    yield (A.Switch(s.header, s.cases[:i] + (nc,) + s.cases[i + 1 :]),)
            if not isinstance(s.header, A.SwVar):
                yield (A.Switch(A.SwVar(A.Const("$V")), s.cases),)
        elif isinstance(s, (A.Forever, A.While, A.For)):
            inner = tuple(x for x in s.body if not (isinstance(x, A.Ctrl) and x.kind in ("continue", "break_loop")))
            yield inner
            for nb_body in block_variants(s.body):
                if isinstance(s, A.Forever):
                    yield (A.Forever(nb_body),)
                elif isinstance(s, A.While):
                    yield (A.While(s.negated, s.cond, nb_body),)
                else:
                    yield (A.For(s.init, s.cond, s.incr, nb_body),)
            if isinstance(s, A.While) and s.cond != simple_cond:
                yield (A.While(s.negated, simple_cond, s.body),)
            if isinstance(s, A.For) and s.cond != simple_cond:
                yield (A.For(s.init, simple_cond, s.incr, s.body),)
        elif isinstance(s, (A.With, A.MessageSwitch, A.MacroCall)) or isinstance(s, A.ASSIGNMENTS):
            yield (A.Op("p"),)
        elif isinstance(s, A.Op) and (s.args or s.ctx is not None):
            yield (A.Op(s.name),)

    def block_variants(body: tuple):
        for i in range(len(body)):
            yield body[:i] + body[i + 1 :]
        for i, s in enumerate(body):
            if isinstance(s, compound):
                yield body[:i] + (A.Op("p"),) + body[i + 1 :]
        for i, s in enumerate(body):
            for repl in stmt_variants(s):
                yield body[:i] + tuple(repl) + body[i + 1 :]

    items = prog.items
    routines = [k for k, it in enumerate(items) if isinstance(it, A.Routine)]
    # drop one routine, renumbering the following ones
    if len(routines) > 1:
        for k in reversed(routines):
            new = []
            shift = False
            for j, it in enumerate(items):
                if j == k:
                    shift = True
                    continue
                if shift and isinstance(it, A.Routine) and it.kind == "def":
                    it = A.Routine(it.kind, it.id - 1, it.name, it.target_kind, it.target, it.legacy_target, it.body)
                new.append(it)
            yield A.Program(prog.imports, tuple(new))
    # plain header
    for k in routines:
        it = items[k]
        if it.kind == "def" and it.target_kind is not None:
            yield A.Program(prog.imports, items[:k] + (A.Routine("def", id=it.id, body=it.body),) + items[k + 1 :])
        if it.kind == "coro" and len(routines) == 1:
            yield A.Program(prog.imports, items[:k] + (A.Routine("def", id=0, body=it.body),) + items[k + 1 :])
    for k, it in enumerate(items):
        if it.body is None:
            continue
        for nb in block_variants(it.body):
            if not nb:
                continue
            if isinstance(it, A.Macro):
                ni: Any = A.Macro(it.name, it.params, nb)
            else:
                ni = A.Routine(it.kind, it.id, it.name, it.target_kind, it.target, it.legacy_target, nb)
            yield A.Program(prog.imports, items[:k] + (ni,) + items[k + 1 :])
    # unused macros
    used = {n.name for it in items for n in A.walk(it) if isinstance(n, A.MacroCall)}
    for k, it in enumerate(items):
        if isinstance(it, A.Macro) and it.name not in used:
            yield A.Program(prog.imports, items[:k] + items[k + 1 :])


def shrink_by(prog: Any, fails: Callable, budget: int = 300) -> Any:
    """greedy, deterministic reduction of a program keeping `fails(program)` true"""
    from gen import programs as P

    cur = prog
    steps = 0
    changed = True
    while changed and steps < budget:
        changed = False
        for cand in _candidates(cur):
            steps += 1
            if steps >= budget:
                break
            ok = False
            if P.valid(cand):
                try:
                    ok = bool(fails(cand))
                except Exception:  # noqa: BLE001 - a candidate outside the printer's / sem's range is simply not taken
                    ok = False
            if ok:
                cur = cand
                changed = True
                break
    return cur


def shrink(prog: Any, core: str, budget: int = 300) -> Any:
    """reduction keeping a problem with signature core `core`"""
    return shrink_by(prog, lambda p: any(s == core for s, _ in analyse(p, selfcheck_roundtrip=False).problems), budget)


def final_signature(core: str, small: Any) -> str:
    return f"C01:{core}" + (f":{shape(small)}" if "unclassified" in core or core.startswith("compile-raises") else "")


# ====================================================================================== work items / workers
def _load(item: tuple, cache: dict) -> Any:
    """item = ("x", family index, index, tier) | ("r", seed, index) -> program or None"""
    from gen import programs as P

    if item[0] == "x":
        tier = item[3]
        if ("space", tier) not in cache:
            cache[("space", tier)] = P.space(tier)
        return cache[("space", tier)][item[1]][item[2]]
    return P.random_indexed(item[1], item[2])


def _worker(args: tuple) -> dict:
    try:
        return _worker_impl(args)
    except Exception:  # noqa: BLE001 - make the checker crash picklable; it still propagates (exit 3)
        import traceback

        raise RuntimeError("checker crash in worker: " + traceback.format_exc()) from None


_CACHE: dict = {}


def _worker_impl(args: tuple) -> dict:
    """analyse a chunk of work items; returns counters, hashes and, per signature, the count and the smallest failing
    program of the chunk (a pure function of the chunk: no state is carried between chunks)"""
    (items,) = args
    from gen import programs as P

    res = {
        "evaluations": 0, "invalid_skeleton": 0, "routines_checked": 0, "routines_skipped_opfree": 0,
        "programs_all_skipped": 0, "excluded_not_accepted": 0, "hashes": [], "violations": {}, "selfcheck": [],
        "rejected": [],
    }  # fmt: skip
    for item in items:
        prog = _load(item, _CACHE)
        if prog is None:
            res["invalid_skeleton"] += 1
            continue
        text = P.to_text(prog)
        o = analyse(prog, text)
        if o.excluded:
            res["excluded_not_accepted"] += 1
            continue
        res["evaluations"] += 1
        res["routines_checked"] += o.checked_routines
        res["routines_skipped_opfree"] += o.skipped_routines
        if o.checked_routines == 0 and o.skipped_routines:
            res["programs_all_skipped"] += 1
        h = hashlib.sha1(text.encode()).hexdigest()[:16]
        res["hashes"].append((h, P.has_control(prog)))
        for msg in o.selfcheck:
            res["selfcheck"].append(f"{msg} :: {text!r}")
        if o.rejected is not None:
            res["rejected"].append(f"{o.rejected} :: {text!r}")
        for core, detail in o.problems:
            key = core
            if "unclassified" in core or core.startswith("compile-raises"):
                # the signature of an unexplained failure carries the shape of the shrunk program
                key = final_signature(core, shrink(prog, core))[len("C01:"):]
            v = res["violations"].get(key)
            if v is None:
                res["violations"][key] = {"count": 1, "core": core, "text": text, "detail": detail, "item": list(item), "members": [member_id(text)]}
            else:
                v["count"] += 1
                if len(v["members"]) < MEMBER_CAP:
                    v["members"].append(member_id(text))
                if (len(text), text) < (len(v["text"]), v["text"]):
                    v.update(text=text, detail=detail, item=list(item))
    return res


def _shrink_worker(args: tuple) -> dict:
    """second round: shrink the smallest failing program of one signature (deterministic function of that program)"""
    key, v = args
    try:
        from gen import programs as P
        from spec import esast

        prog = esast.parse(v["text"])
        small = shrink(prog, v["core"])
        stext = P.to_text(small)
        so = analyse(small, stext, selfcheck_roundtrip=False)
        out = dict(v)
        out.update(
            original_text=v["text"], text=stext, compiled=so.dump,
            detail=next((d for s, d in so.problems if s == v["core"]), v["detail"]),
        )  # fmt: skip
        return {key: out}
    except Exception:  # noqa: BLE001
        import traceback

        raise RuntimeError("checker crash in shrink worker: " + traceback.format_exc()) from None


def work_items(ctx: Ctx) -> list:
    from gen import programs as P

    items: list = []
    for fi, fam in enumerate(P.space(ctx.tier)):
        items += [("x", fi, i, ctx.tier) for i in range(len(fam))]
    items += [("r", ctx.seed, i) for i in range(RANDOM_N[ctx.tier])]
    return items


def chunks(items: list, jobs: int, per: int = 150) -> list:
    # interleaved so that every chunk sees all families (balanced cost); fixed chunking (deterministic)
    n = max(jobs, (len(items) + per - 1) // per)
    return [(items[k::n],) for k in range(n)]


def run_pool(worker: Callable, work: list, jobs: int) -> list:
    if jobs <= 1:
        return [worker(w) for w in work]
    mp = multiprocessing.get_context("spawn")
    with mp.Pool(jobs) as pool:
        return pool.map(worker, work, chunksize=1)


def describe_space(tier: str) -> str:
    from gen import programs as P

    return ", ".join(f"{f.name}={len(f)}" for f in P.space(tier))


MEMBER_CAP = 400


def member_id(text: str) -> str:
    """Identity of one failing input inside a violation class (known_findings.json lists the members it covers)."""
    import hashlib

    return hashlib.sha1(text.encode()).hexdigest()[:12]


def merge_violations(outs: list) -> dict:
    viol: dict = {}
    for o in outs:
        for sig, v in o["violations"].items():
            if sig not in viol:
                viol[sig] = dict(v)
                viol[sig]["members"] = list(v.get("members", []))
            else:
                total = viol[sig]["count"] + v["count"]
                members = viol[sig]["members"] + list(v.get("members", []))
                if (len(v["text"]), v["text"]) < (len(viol[sig]["text"]), viol[sig]["text"]):
                    viol[sig] = dict(v)
                viol[sig]["count"] = total
                viol[sig]["members"] = members
    for v in viol.values():
        v["members"] = sorted(set(v["members"]))[:MEMBER_CAP]
    return viol


def run(ctx: Ctx) -> PropResult:
    from gen import programs as P
    from spec.sem import CHOICES

    t0 = time.time()
    res = PropResult(prop="C01", level="exploration")
    res.rule = (
        "programs = gen/programs.py: every control skeleton of the families ["
        + describe_space(ctx.tier)
        + "] (see TIERS there: leaf alphabet, block kinds, size/fan-out/depth bound per family), rendered with "
        "round-robin concrete forms, plus seeded random programs of size <= 40; each program is printed by an "
        "independent printer, compiled by the real compiler and every routine compared with the reference semantics "
        "for all outcomes of all tests (product walk). distinct = distinct program texts (sha1); non-trivial = "
        "contains at least one control construct (if/switch/loop/label/jump/call)."
    )
    res.assumptions = [
        "ANTLR lexer/parser produce the parse tree the grammar defines",
        "spec/sem.py and spec/machine.py are the trusted reading of docs/language_spec.rst and of the property text",
        "programs whose specification has a reachable op-free cycle, and programs the compiler rejects with "
        "SsbCompilerError, are outside the quantifier and only counted",
    ] + ["choice: " + c for c in CHOICES]
    res.trusted_base = ["spec/machine.py", "spec/sem.py", "spec/esast.py", "gen/programs.py (printer)", "antlr4 runtime"]
    items = work_items(ctx)
    outs = run_pool(_worker, chunks(items, ctx.jobs), ctx.jobs)
    keys = ("evaluations", "invalid_skeleton", "routines_checked", "routines_skipped_opfree", "programs_all_skipped", "excluded_not_accepted")
    tot = {k: sum(o[k] for o in outs) for k in keys}
    hashes: dict = {}
    for o in outs:
        for h, nt in o["hashes"]:
            hashes[h] = nt
        for m in o["selfcheck"]:
            res.self_check_failures.append(m)
        for m in o["rejected"]:
            res.self_check_failures.append("generated program rejected by the compiler: " + m)
    res.self_check_failures = sorted(set(res.self_check_failures))[:20]
    if tot["evaluations"] == 0 or tot["routines_checked"] == 0:
        res.self_check_failures.append("contract never evaluated")
    merged = merge_violations(outs)
    viol: dict = {}
    for part in run_pool(_shrink_worker, [(k, merged[k]) for k in sorted(merged)], min(ctx.jobs, max(1, len(merged)))):
        viol.update(part)
    samples = []
    fam0 = P.space(ctx.tier)[0]
    for i in (len(fam0) // 3, len(fam0) // 2, len(fam0) - 5):
        p = fam0[i]
        if p is not None:
            samples.append(P.to_text(p))
    samples.append(P.to_text(P.random_indexed(ctx.seed, 0)))
    res.standins.append(
        StandIn(
            contract=CONTRACT,
            tier="T3",
            bound=f"{ctx.tier}: exhaustive skeleton families [{describe_space(ctx.tier)}] + {RANDOM_N[ctx.tier]} random programs (seed {ctx.seed}, size <= 40)",
            evaluations=tot["evaluations"],
            distinct_nontrivial=sum(1 for nt in hashes.values() if nt),
            exhaustive=False,
            samples=samples,
            notes=(
                f"distinct programs {len(hashes)}; statically invalid skeletons filtered {tot['invalid_skeleton']}; "
                f"not accepted by the compiler (cross-routine jump to a label at a routine end, SsbCompilerError) "
                f"{tot['excluded_not_accepted']}; routines compared {tot['routines_checked']}; routines skipped for op-free "
                f"cycles {tot['routines_skipped_opfree']} (programs entirely skipped {tot['programs_all_skipped']}); "
                "exhaustive inside each skeleton family, not over concrete forms (round-robin) and not for the random part"
            ),
        )
    )
    for key in sorted(viol):
        v = viol[key]
        res.violations.append(
            Violation(
                signature="C01:" + key,
                what=f"{v['count']} programs; smallest: {v['detail']}",
                input={"text": v["text"], "core": v["core"], "original_text": v["original_text"]},
                contract=CONTRACT,
                observed={"compiled": v["compiled"], "distinguishing_path": v["detail"]},
                extra={"count": v["count"], "original_item": v["item"], "members": v.get("members", [])},
            )
        )
    res.extra["wall_s_run"] = round(time.time() - t0, 1)
    res.extra["counters"] = tot
    return res


def replay(record: dict, ctx: Ctx) -> bool:
    from spec import esast

    inp = record["input"]
    prog = esast.parse(inp["text"])
    o = analyse(prog, inp["text"], selfcheck_roundtrip=False)
    return any(s == inp["core"] for s, _ in o.problems)


if __name__ == "__main__":
    tier = sys.argv[1] if len(sys.argv) > 1 else "quick"
    r = run(Ctx(tier=tier, jobs=int(os.environ.get("VERIF_JOBS", "16")), prop="C01"))
    print(json.dumps({"standins": [s.__dict__ for s in r.standins], "extra": r.extra, "selfcheck": r.self_check_failures}, indent=1, default=str)[:6000])
    for v in r.violations:
        print("VIOLATION", v.signature, "|", v.what)
        print(v.input["text"])
