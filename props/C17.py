"""C17 — the highlighting lexer is total and loses no text (DESIGN.md §4 C17).

The data structure under contract is ExplorerScriptLexer's processed token table (`_tokens`, built by Pygments from the
class's `tokens` dict of the imported /repo module, includes expanded).  Under the ASSUMED contract on Pygments'
RegexLexer.get_tokens_unprocessed (quoted in DESIGN.md; cross-checked by the bounded run in props/C17_t3.py) the property is
equivalent to obligations on the table, generated here from the real table on every run and discharged by z3's regex theory:

  progress[S][i]   rule i of state S cannot match the empty string               (termination)
  lossless[S][i]   the rule's action is a plain token type                        (structural: nothing of a match is dropped)
  states[S][i]     state transitions name existing states / are pops             (structural)
  total[S]         every non-empty string not starting with '\n' has a prefix matched by some rule of S   (no Error token)
"""
from __future__ import annotations

import importlib
import re
import re._constants as sc
import re._parser as sp
import time

import z3

from vlib.result import Ctx, Obligation, PropResult, Violation, HELD, VIOLATED, UNDECIDED

RS = z3.ReSort(z3.StringSort())
ANYCHAR = z3.AllChar(RS)


class Untranslatable(Exception):
    pass


def char_re(cp: int):
    return z3.Re(z3.StringVal(chr(cp)))


def tr_set(items, mode: str):
    parts = []
    negate = False
    for op, av in items:
        if op is sc.NEGATE:
            negate = True
        elif op is sc.LITERAL:
            parts.append(char_re(av))
        elif op is sc.RANGE:
            parts.append(z3.Range(chr(av[0]), chr(av[1])))
        elif op is sc.CATEGORY:
            if av is sc.CATEGORY_DIGIT:
                # \d matches every Unicode decimal digit: under-approximate by [0-9], over-approximate by any char
                parts.append(z3.Range("0", "9") if (mode == "under") != negate else ANYCHAR)
            else:
                raise Untranslatable(f"category {av}")
        else:
            raise Untranslatable(f"set item {op}")
    u = parts[0] if len(parts) == 1 else z3.Union(*parts)
    if negate:
        return z3.Intersect(ANYCHAR, z3.Complement(u))
    return u


def tr(parsed, flags: int, mode: str):
    """Python `re` parse tree -> z3 regular expression. mode='over': a superset of the language (zero-width assertions
    become epsilon); mode='under': a subset (rules with assertions match nothing)."""
    out = []
    for op, av in parsed:
        if op is sc.LITERAL:
            out.append(char_re(av))
        elif op is sc.NOT_LITERAL:
            out.append(z3.Intersect(ANYCHAR, z3.Complement(char_re(av))))
        elif op is sc.ANY:
            if flags & re.DOTALL:
                out.append(ANYCHAR)
            else:
                out.append(z3.Intersect(ANYCHAR, z3.Complement(z3.Re(z3.StringVal("\n")))))
        elif op is sc.IN:
            out.append(tr_set(av, mode))
        elif op in (sc.MAX_REPEAT, sc.MIN_REPEAT, getattr(sc, "POSSESSIVE_REPEAT", None)):
            lo, hi, sub = av
            r = tr(sub, flags, mode)
            if hi is sc.MAXREPEAT:
                if lo == 0:
                    out.append(z3.Star(r))
                elif lo == 1:
                    out.append(z3.Plus(r))
                else:
                    out.append(z3.Concat(z3.Loop(r, lo, lo), z3.Star(r)))
            elif (lo, hi) == (0, 1):
                out.append(z3.Option(r))
            else:
                out.append(z3.Loop(r, lo, hi))
        elif op is sc.BRANCH:
            alts = [tr(a, flags, mode) for a in av[1]]
            out.append(alts[0] if len(alts) == 1 else z3.Union(*alts))
        elif op is sc.SUBPATTERN:
            out.append(tr(av[3], flags, mode))
        elif op is sc.AT:
            if mode == "over":
                continue  # zero-width: epsilon
            return z3.Empty(RS)
        else:
            raise Untranslatable(f"regex construct {op}")
    if not out:
        return z3.Re(z3.StringVal(""))
    return out[0] if len(out) == 1 else z3.Concat(*out)


def nullable(parsed) -> bool:
    """Exact syntactic test: can the pattern match the empty string (assertions treated as satisfiable)?"""
    for op, av in parsed:
        if op in (sc.LITERAL, sc.NOT_LITERAL, sc.ANY, sc.IN):
            return False
        if op in (sc.MAX_REPEAT, sc.MIN_REPEAT, getattr(sc, "POSSESSIVE_REPEAT", None)):
            lo, hi, sub = av
            if lo > 0 and not nullable(sub):
                return False
        elif op is sc.BRANCH:
            if not any(nullable(a) for a in av[1]):
                return False
        elif op is sc.SUBPATTERN:
            if not nullable(av[3]):
                return False
        elif op is sc.AT:
            continue
        else:
            raise Untranslatable(str(op))
    return True


def load_table():
    import explorerscript.pygments.expslexer as mod

    importlib.reload(mod)
    lx = mod.ExplorerScriptLexer()
    table = {}
    for state, rules in lx._tokens.items():
        rr = []
        for rexmatch, action, new_state in rules:
            pat = rexmatch.__self__
            rr.append({"pattern": pat.pattern, "flags": pat.flags, "action": action, "new_state": new_state})
        table[state] = rr
    return lx, table, mod.__file__


def reachable_states(table) -> dict[str, str]:
    """state -> a text prefix that drives the engine from 'root' into it (found from literal patterns of push rules)."""
    reach = {"root": ""}
    todo = ["root"]
    while todo:
        s = todo.pop()
        for r in table[s]:
            ns = r["new_state"]
            if isinstance(ns, tuple):
                for t in ns:
                    if t not in ("#pop", "#push") and t not in reach:
                        lit = r["pattern"] if re.fullmatch(re.escape(r["pattern"]), r["pattern"]) or re.escape(r["pattern"]) == r["pattern"] or r["pattern"] in ('"""', "'''", '"', "'") else None
                        reach[t] = reach[s] + (lit if lit is not None else "")
                        todo.append(t)
    return reach


def solve(assertions, timeout_ms=20000):
    s = z3.Solver()
    s.set("timeout", timeout_ms)
    s.add(*assertions)
    t0 = time.time()
    r = s.check()
    return r, (time.time() - t0) * 1000, (s.model() if r == z3.sat else None)


def total_obligation(rules, mode_table=None):
    w = z3.String("w")
    alts = []
    skipped = []
    for r in rules:
        try:
            parsed = sp.parse(r["pattern"], r["flags"])
            alts.append(z3.Concat(tr(parsed, r["flags"], "under"), z3.Full(RS)))
        except Untranslatable as e:
            skipped.append((r["pattern"], str(e)))
    union = alts[0] if len(alts) == 1 else z3.Union(*alts)
    nl = z3.StringVal("\n")
    return [z3.Length(w) >= 1, z3.SubString(w, 0, 1) != nl, z3.Not(z3.InRe(w, union))], w, skipped


def run(ctx: Ctx) -> PropResult:
    res = PropResult(prop="C17", level="proof")
    lx, table, path = load_table()
    reach = reachable_states(table)
    from pygments.token import _TokenType

    res.functions_under_contract.append({"function": "explorerscript.pygments.expslexer:ExplorerScriptLexer.tokens (processed table _tokens)", "file": path, "kind": "data structure under contract", "states": sorted(reach)})
    t_solver = 0.0

    def add(name, clause, status, ms=0.0, reason="", model=None, canary=False):
        res.obligations.append(Obligation(name, "ExplorerScriptLexer.tokens", clause, status, "z3-re", round(ms, 1), model, reason, canary))

    for state in sorted(reach):
        rules = table[state]
        for i, r in enumerate(rules):
            tag = f"{state}[{i}] /{r['pattern'][:30]}/"
            # losslessness + transitions (structural)
            ok = type(r["action"]) is _TokenType
            add(f"lossless[{state}][{i}]", f"action of {tag} is a plain token type (the whole match is emitted)", HELD if ok else VIOLATED, reason="" if ok else f"action is {r['action']!r}")
            if not ok:
                res.violations.append(Violation(signature=f"C17:T1:lossless[{state}]", what=f"rule {tag} has a callback action; part of a match may be dropped or duplicated", obligation=f"lossless[{state}][{i}]", failing_input_found=False, tier="T1", solver_output=repr(r["action"])))
            ns = r["new_state"]
            ok = ns is None or isinstance(ns, int) or (isinstance(ns, tuple) and all(t in ("#pop", "#push") or t in table for t in ns)) or ns == "#push"
            add(f"states[{state}][{i}]", f"transition of {tag} names existing states", HELD if ok else VIOLATED)
            if not ok:
                res.violations.append(Violation(signature=f"C17:T1:states[{state}]", what=f"rule {tag} pushes an unknown state {ns!r}", obligation=f"states[{state}][{i}]", failing_input_found=False, tier="T1"))
            # progress
            try:
                parsed = sp.parse(r["pattern"], r["flags"])
                syn = nullable(parsed)
                rz, ms, _ = solve([z3.InRe(z3.StringVal(""), tr(parsed, r["flags"], "over"))])
                t_solver += ms
                if rz == z3.unsat and not syn:
                    add(f"progress[{state}][{i}]", f"{tag} cannot match the empty string", HELD, ms)
                elif rz == z3.sat or syn:
                    real = re.compile(r["pattern"], r["flags"]).match("") is not None
                    add(f"progress[{state}][{i}]", f"{tag} cannot match the empty string", VIOLATED, ms, "matches ''", "w = ''")
                    res.violations.append(Violation(signature=f"C17:T1:progress[{state}]", what=f"rule {tag} can match the empty string: the lexer may not advance", input={"state": state, "rule": i, "text": reach[state]}, obligation=f"progress[{state}][{i}]", observed=f"re.match('') -> {real}", failing_input_found=real, tier="T1"))
                else:
                    add(f"progress[{state}][{i}]", f"{tag} cannot match the empty string", UNDECIDED, ms, "solver unknown")
            except Untranslatable as e:
                add(f"progress[{state}][{i}]", f"{tag} cannot match the empty string", UNDECIDED, 0, f"untranslatable: {e}")
        # totality
        asserts, w, skipped = total_obligation(rules)
        rz, ms, model = solve(asserts)
        t_solver += ms
        clause = f"state {state}: every non-empty string not starting with a newline has a prefix matched by some rule (no Error token)" + (f"; rules not used (under-approximated to nothing): {[p for p, _ in skipped]}" if skipped else "")
        if rz == z3.unsat:
            add(f"total[{state}]", clause, HELD, ms)
        elif rz == z3.sat:
            wit = model.eval(w, model_completion=True).as_string()
            wit_py = z3_unescape(wit)
            text = reach[state] + wit_py
            toks = list(lx.get_tokens_unprocessed(text))
            errs = [t for t in toks if "Error" in str(t[1])]
            add(f"total[{state}]", clause, VIOLATED, ms, "witness " + repr(wit_py), repr(wit_py))
            res.violations.append(Violation(signature=f"C17:T1:total[{state}]", what=f"in state {state} no rule matches at {wit_py!r}: the engine emits an Error token", input={"text": text}, obligation=f"total[{state}]", observed=repr(errs[:3]), solver_output=wit, failing_input_found=bool(errs), tier="T1"))
        else:
            add(f"total[{state}]", clause, UNDECIDED, ms, "solver unknown")
            res.violations.append(Violation(signature=f"C17:T1:total[{state}]:undecided", what=f"totality of state {state} was discharged on the baseline tree and can no longer be decided", obligation=f"total[{state}]", failing_input_found=False, tier="T1", solver_output="unknown"))
    # canaries: the same generator must REFUTE totality of a deliberately non-total table
    for state, drop in (("root", "."), ("dq_string", '"'), ("msq_string", "[^']+")):
        rules = [r for r in table[state] if r["pattern"] != drop]
        if len(rules) == len(table[state]):
            continue
        asserts, w, _ = total_obligation(rules)
        rz, ms, model = solve(asserts)
        t_solver += ms
        add(f"canary.total[{state} without /{drop}/]", "CANARY: a table without this rule is not total and must be refuted", VIOLATED if rz == z3.sat else (UNDECIDED if rz == z3.unknown else HELD), ms, canary=True, model=None if model is None else str(model.eval(w)))
        if rz != z3.sat:
            res.self_check_failures.append(f"canary total[{state} without /{drop}/] was not refuted ({rz})")
    # canary for progress
    rz, ms, _ = solve([z3.InRe(z3.StringVal(""), tr(sp.parse("a*", 0), 0, "over"))])
    add("canary.progress[/a*/]", "CANARY: /a*/ matches the empty string", VIOLATED if rz == z3.sat else HELD, ms, canary=True)
    if rz != z3.sat:
        res.self_check_failures.append("canary progress[/a*/] not refuted")
    res.solver_s = t_solver / 1000.0
    if not [o for o in res.obligations if not o.canary]:
        res.self_check_failures.append("no obligations generated")
    # bounded cross-check of the assumed engine contract (written separately)
    try:
        t3 = importlib.import_module("props.C17_t3")
    except ModuleNotFoundError:
        t3 = None
    if t3 is not None:
        res.merge(t3.run_t3(ctx))
        res.level = "proof"
    res.rule = "one obligation per (state, rule) and per reachable state of the lexer's processed token table; bounded cross-check: see bounded_standins"
    res.trusted_base = [
        "assumed contract on pygments.lexer.RegexLexer.get_tokens_unprocessed: in state S at position p the first rule whose regex matches at p emits (token, match) and advances to match.end(); if none matches a newline resets to root, any other character is emitted as Error and skipped (read from Pygments' source, cross-checked by the bounded run)",
        "Python re -> z3 regex translation in props/C17.py (literals, classes, ., *, +, ?, {m,n}, lazy variants, alternation, groups; \\b handled by over/under-approximation; \\d under-approximated by [0-9])",
        "z3 5.1 sequence/regex theory",
        "interpretation: get_tokens() = get_tokens_unprocessed() after Pygments' documented input normalisation (\\r\\n -> \\n, strip leading/trailing newlines, one trailing newline); exactness is proved for get_tokens_unprocessed",
    ]
    res.assumptions = list(res.trusted_base)
    res.checker_cmd = "./check C17 --tier " + ctx.tier
    return res


def z3_unescape(s: str) -> str:
    return re.sub(r"\\u\{([0-9a-fA-F]+)\}", lambda m: chr(int(m.group(1), 16)), s)


def replay(record: dict, ctx: Ctx) -> bool:
    if record.get("tier") == "T1":
        lx, table, _ = load_table()
        text = (record.get("input") or {}).get("text")
        if text is not None:
            toks = list(lx.get_tokens_unprocessed(text))
            errs = [t for t in toks if "Error" in str(t[1])]
            print("tokens:", toks[:10], "errors:", errs[:3])
            if errs or "".join(t[2] for t in toks) != text:
                return True
        res = run(ctx)
        return any(v.obligation == record.get("obligation") for v in res.violations)
    t3 = importlib.import_module("props.C17_t3")
    return t3.replay(record, ctx)
