"""C03 - compiled output is a closed, uniquely addressed op list (T3 part; the deductive part is added by the driver).

Contract on compile() (ExplorerScript path and SsbScript path), evaluated on every accepted program:

    (a) op offsets are pairwise distinct across all routines
    (b) every op whose name is in OPS_WITH_JUMP_TO_MEM_OFFSET has as LAST parameter an int (not bool) that is the
        offset of an op present in the result
    (c) no SsbLabel / SsbLabelJump / SsbForeignLabel instance remains
    (d) len(routine_infos) == len(named_coroutines) == len(routine_ops)   (tables indexed by routine id)

Inputs: every program of C01's space (gen/programs.py: exhaustive skeleton families incl. macro expansions, removed
jumps, labels at routine ends, cross-routine jumps, alias routines; + seeded random programs) and an exhaustive space of
small SsbScript texts (first line `//?: is-ssb-script: true`).
"""
from __future__ import annotations

import hashlib
import itertools
import json
import os
import sys
import time
from typing import Any, Optional

from vlib.result import Ctx, PropResult, StandIn, Violation

from props import C01

CONTRACT = (
    "compile(): offsets pairwise distinct across routines; every op in OPS_WITH_JUMP_TO_MEM_OFFSET has as last "
    "parameter an int equal to the offset of an op of the result; no SsbLabel/SsbLabelJump/SsbForeignLabel remains; "
    "len(routine_infos) == len(named_coroutines) == len(routine_ops)"
)
SSB_HEADER = "//?: is-ssb-script: true\n"


# ====================================================================================== the contract
def check_result(c: Any) -> list:
    """problems of a compilation result: list of (clause code, detail)"""
    from explorerscript.ssb_converting.ssb_special_ops import (
        OPS_WITH_JUMP_TO_MEM_OFFSET,
        SsbForeignLabel,
        SsbLabel,
        SsbLabelJump,
    )

    problems = []
    if c.routine_ops is None or c.routine_infos is None or c.named_coroutines is None:
        return [("tables-missing", "routine_ops / routine_infos / named_coroutines is None after compile()")]
    if not (len(c.routine_infos) == len(c.named_coroutines) == len(c.routine_ops)):
        problems.append(("table-length", f"{len(c.routine_infos)}/{len(c.named_coroutines)}/{len(c.routine_ops)}"))
    seen: dict = {}
    for ri, r in enumerate(c.routine_ops):
        for op in r:
            if isinstance(op, (SsbLabel, SsbLabelJump, SsbForeignLabel)):
                problems.append((f"pseudo-op-remains[{type(op).__name__}]", f"routine {ri}: {op.op_code.name}"))
                continue
            if op.offset in seen:
                problems.append(("offset-duplicate", f"offset {op.offset} in routine {seen[op.offset]} and {ri}"))
            seen[op.offset] = ri
    for ri, r in enumerate(c.routine_ops):
        for op in r:
            name = op.op_code.name
            if name in OPS_WITH_JUMP_TO_MEM_OFFSET and not isinstance(op, (SsbLabel, SsbLabelJump, SsbForeignLabel)):
                fam = "Branch" if name.startswith("Branch") else "Case" if name.startswith("Case") else name
                if len(op.params) == 0 or not isinstance(op.params[-1], int) or isinstance(op.params[-1], bool):
                    problems.append((f"jump-target-missing[{fam}]", f"routine {ri}: {name}@{op.offset} params {list(map(str, op.params))}"))
                elif op.params[-1] not in seen:
                    problems.append((f"jump-target-dangling[{fam}]", f"routine {ri}: {name}@{op.offset} targets {op.params[-1]}"))
    return problems


def analyse_text(text: str) -> tuple:
    """(status, problems): status accepted | rejected; exceptions other than the documented ones are problems"""
    from explorerscript.error import ParseError, SsbCompilerError

    try:
        c = C01.compile_text(text)
    except (SsbCompilerError, ParseError) as e:
        return "rejected", [], f"{type(e).__name__}: {e}"
    except Exception as e:  # noqa: BLE001 - exceptions of repository code are contract violations
        return "accepted", [(f"compile-raises[{type(e).__name__}]", f"{type(e).__name__}: {e}")], None
    return "accepted", check_result(c), C01.ops_dump(c.routine_ops)


# ====================================================================================== SsbScript texts
SSB_STMTS = (
    "op(1);", "Return();", "Jump(@x);", "Branch(1, 2, @x);", "Call(@y);", "CaseValue(3, 4, @y);", "@x;", "@y;", "§x;",
)  # fmt: skip
SSB_STMTS_PROBE = ("Branch(@x, 1, 2);", "Jump(@x, 5);")  # jump marker not in last position


def _ssb_valid(stmts_per_routine: tuple) -> bool:
    flat = [s for r in stmts_per_routine for s in r]
    defs = [s[1:-1] for s in flat if s[0] in "@§"]
    if len(set(defs)) != len(defs):
        return False
    for s in flat:
        if s[0] not in "@§":
            for lab in ("x", "y"):
                if "@" + lab in s and lab not in defs:
                    return False
    # every routine needs an op (the grammar needs a statement; a routine of labels only is C10's business)
    return all(any(s[0] not in "@§" for s in r) for r in stmts_per_routine)


def ssb_texts(tier: str) -> list:
    """exhaustive: one routine with <= N statements, two routines with <= M statements each, over SSB_STMTS; plus the
    probe statements (marker not last) in the first position of small programs"""
    n1, n2 = (4, 2) if tier == "quick" else (5, 3)
    out = []
    seqs = lambda n, alphabet: [t for k in range(1, n + 1) for t in itertools.product(alphabet, repeat=k)]  # noqa: E731
    for r in seqs(n1, SSB_STMTS):
        if _ssb_valid((r,)):
            out.append(("ssb1", (r,)))
    small = seqs(n2, SSB_STMTS)
    for r0 in small:
        for r1 in small:
            if _ssb_valid((r0, r1)):
                out.append(("ssb2", (r0, r1)))
                # routine ids out of order / used twice (the second routine must not silently replace the first)
                out.append(("ssb2:ids=1,0", (r0, r1)))
                out.append(("ssb2:ids=0,0", (r0, r1)))
    for probe in SSB_STMTS_PROBE:
        for r in seqs(2, ("op(1);", "@x;", "Return();")):
            for pos in range(len(r) + 1):
                rr = r[:pos] + (probe,) + r[pos:]
                if _ssb_valid((rr,)):
                    out.append(("ssb-marker-not-last", (rr,)))
    return out


def family_ids(family: str, n: int) -> list:
    if ":ids=" in family:
        ids = [int(x) for x in family.split(":ids=")[1].split(",")]
        return (ids + list(range(len(ids), n)))[:n]
    return list(range(n))


def ssb_text(routines: tuple, variant: int = 0, ids: list | None = None) -> str:
    heads = ("def {i} {{", "def {i} for actor ACTOR_{i} {{", "def {i} for_object({i}) {{", "def {i} for performer {i} {{")
    lines = [SSB_HEADER.rstrip("\n")]
    for i, r in enumerate(routines):
        if ids is not None:
            i = ids[i]
        if variant % 5 == 4 and ids is None:
            lines.append(f"coro CORO_{i} {{")
        else:
            lines.append(heads[(variant + i) % len(heads)].format(i=i))
        lines += ["    " + s for s in r]
        lines.append("}")
    return "\n".join(lines) + "\n"


def ssb_shape(family: str, routines: tuple) -> str:
    def st(s: str) -> str:
        if s[0] in "@§":
            return "@"
        return s.split("(")[0] + ("(@)" if "@" in s else "()")

    return family + ":" + " ".join("def{" + " ".join(st(s) for s in r) + "}" for r in routines)


def ssb_shrink(family: str, routines: tuple, code: str) -> tuple:
    def fails(rs: tuple) -> bool:
        if not _ssb_valid(rs):
            return False
        _, problems, _ = analyse_text(ssb_text(rs, 0, family_ids(family, len(rs)) if ":ids=" in family else None))
        return any(c == code for c, _ in problems)

    cur = routines
    changed = True
    while changed:
        changed = False
        cands = []
        if len(cur) > 1:
            cands.append(cur[:-1])
        for ri, r in enumerate(cur):
            for i in range(len(r)):
                cands.append(cur[:ri] + (r[:i] + r[i + 1 :],) + cur[ri + 1 :])
        for cand in cands:
            if all(len(r) > 0 for r in cand) and fails(cand):
                cur = cand
                changed = True
                break
    return cur


# ExplorerScript routine ids may skip numbers (the tables then hold empty entries for the skipped ids): the three tables must
# still have one length
GAP_TEXTS = [
    "def 0 {\n    a();\n}\ndef 1 {\n    b();\n}\ndef 4 {\n    c();\n}\n",
    "def 2 {\n    a();\n    end;\n}\n",
    "def 0 {\n    a();\n}\ndef 3 for actor 2 {\n    b();\n    jump @x;\n    §x;\n    c();\n}\ndef 7 for object OBJ {\n    d();\n}\n",
    "def 1 {\n    a();\n}\ndef 3 {\n    if (debug) {\n        b();\n    }\n    c();\n}\ndef 6 {\n    d();\n}\ndef 9 {\n    e();\n}\n",
    "def 5 {\n    @l;\n    a();\n    jump @l;\n}\ndef 8 {\n    call @l;\n}\n",
]


# ====================================================================================== workers
_CACHE: dict = {}


def _worker(args: tuple) -> dict:
    try:
        return _worker_impl(args)
    except Exception:  # noqa: BLE001
        import traceback

        raise RuntimeError("checker crash in worker: " + traceback.format_exc()) from None


def _worker_impl(args: tuple) -> dict:
    (items,) = args
    from gen import programs as P

    res = {"evaluations": 0, "rejected": 0, "jump_ops": 0, "hashes": [], "violations": {}, "rejected_samples": []}
    for item in items:
        if item[0] == "g":
            text = GAP_TEXTS[item[1]]
            prog = None
            family, routines = "routine-id-gap", ()
            nontrivial = True
        elif item[0] == "s":
            _, tier, idx = item
            if ("ssb", tier) not in _CACHE:
                _CACHE[("ssb", tier)] = ssb_texts(tier)
            family, routines = _CACHE[("ssb", tier)][idx]
            text = ssb_text(routines, idx, family_ids(family, len(routines)) if ":ids=" in family else None)
            prog = None
            nontrivial = "@" in text.replace(SSB_HEADER, "")
        else:
            prog = C01._load(item, _CACHE)
            if prog is None:
                continue
            text = P.to_text(prog)
            nontrivial = P.has_control(prog)
        status, problems, dump = analyse_text(text)
        if status == "rejected":
            res["rejected"] += 1
            if len(res["rejected_samples"]) < 3:
                res["rejected_samples"].append(f"{dump} :: {text!r}")
            continue
        res["evaluations"] += 1
        if isinstance(dump, list):
            res["jump_ops"] += sum(1 for r in dump for op in r if op[1] in ("Jump", "Call") or op[1].startswith(("Branch", "Case")))
        res["hashes"].append((hashlib.sha1(text.encode()).hexdigest()[:16], nontrivial))
        for code, detail in problems:
            if prog is not None:
                small = C01.shrink_by(prog, lambda p, code=code: any(c == code for c, _ in analyse_text(P.to_text(p))[1]), 200)
                stext = P.to_text(small)
                sig = f"C03:explorerscript:{code}:{C01.shape(small)}"
            elif family == "routine-id-gap":
                stext = text
                sig = f"C03:explorerscript:{code}:routine-ids-with-gaps"
            else:
                small_r = ssb_shrink(family, routines, code)
                stext = ssb_text(small_r, 0, family_ids(family, len(small_r)) if ":ids=" in family else None)
                if family == "ssb-marker-not-last":
                    # the listener forgets a jump marker that is followed by another argument (exitPos_argument resets
                    # _turn_next_op_into_label_jump_for): one class, whatever the opcode or the position of the label
                    sig = "C03:ssbscript:jump-marker-not-last-argument:" + code.split("[")[0]
                else:
                    sig = f"C03:ssbscript:{code}:{ssb_shape(family, small_r)}"
            if sig in res["violations"]:
                res["violations"][sig]["count"] += 1
                continue
            _, sproblems, sdump = analyse_text(stext)
            res["violations"][sig] = {
                "count": 1, "code": code, "text": stext, "original_text": text, "compiled": sdump,
                "detail": next((d for c, d in sproblems if c == code), detail),
            }  # fmt: skip
    return res


def run_t3(ctx: Ctx) -> PropResult:
    t0 = time.time()
    res = PropResult(prop="C03", level="exploration")
    n_ssb = len(ssb_texts(ctx.tier))
    items = C01.work_items(ctx) + [("s", ctx.tier, i) for i in range(n_ssb)] + [("g", i) for i in range(len(GAP_TEXTS))]
    outs = C01.run_pool(_worker, C01.chunks(items, ctx.jobs), ctx.jobs)
    tot = {k: sum(o[k] for o in outs) for k in ("evaluations", "rejected", "jump_ops")}
    hashes: dict = {}
    for o in outs:
        for h, nt in o["hashes"]:
            hashes[h] = nt
    viol = C01.merge_violations(outs)
    res.rule = (
        "inputs = every program of C01's space [" + C01.describe_space(ctx.tier) + f"] + {C01.RANDOM_N[ctx.tier]} seeded "
        f"random programs, and {n_ssb} SsbScript texts (all sequences of <= 4 (quick) / 5 statements over {list(SSB_STMTS)} "
        "in one routine, all pairs of routines with <= 2 / 3 statements - each pair also with the routine ids in reverse order and with the same id twice -, plus probes with the jump marker not in last "
        "position); the four clauses are evaluated on every compilation result. distinct = distinct texts; "
        "non-trivial = contains a control construct / a jump marker."
    )
    res.assumptions = ["programs rejected with SsbCompilerError / ParseError are outside the quantifier (counted)"]
    res.trusted_base = ["gen/programs.py", "props/C03.check_result"]
    if tot["evaluations"] == 0 or tot["jump_ops"] == 0:
        res.self_check_failures.append("contract never evaluated on an op with a jump target")
    res.standins.append(
        StandIn(
            contract=CONTRACT,
            tier="T3",
            bound=f"{ctx.tier}: C01's program space + {n_ssb} SsbScript texts",
            evaluations=tot["evaluations"],
            distinct_nontrivial=sum(1 for nt in hashes.values() if nt),
            exhaustive=False,
            samples=[ssb_text(*[ssb_texts(ctx.tier)[k][1]], k) for k in (n_ssb // 2, n_ssb - 1)],
            notes=f"distinct texts {len(hashes)}; rejected by the compiler (not in the quantifier) {tot['rejected']}; "
            f"jump-carrying ops inspected {tot['jump_ops']}",
        )
    )
    for sig in sorted(viol):
        v = viol[sig]
        res.violations.append(
            Violation(
                signature=sig,
                what=f"{v['count']} programs; smallest: {v['detail']}",
                input={"text": v["text"], "code": v["code"], "original_text": v["original_text"]},
                contract=CONTRACT,
                observed={"compiled": v["compiled"], "detail": v["detail"]},
                extra={"count": v["count"]},
            )
        )
    res.extra["wall_s_run_t3"] = round(time.time() - t0, 1)
    res.extra["counters_t3"] = tot
    return res


run = run_t3


def replay(record: dict, ctx: Ctx) -> bool:
    inp = record["input"]
    _, problems, _ = analyse_text(inp["text"])
    return any(c == inp["code"] for c, _ in problems)


if __name__ == "__main__":
    tier = sys.argv[1] if len(sys.argv) > 1 else "quick"
    r = run_t3(Ctx(tier=tier, jobs=int(os.environ.get("VERIF_JOBS", "16")), prop="C03"))
    print(json.dumps({"standins": [s.__dict__ for s in r.standins], "extra": r.extra, "selfcheck": r.self_check_failures}, indent=1, default=str)[:4000])
    for v in r.violations:
        print("VIOLATION", v.signature, "|", v.what)
        print(v.input["text"])
