"""C11 - results depend only on the input, not on what was processed before.   (tier T3: bounded stand-in)

Contracts, evaluated on the REAL compile()/convert():

  H  (history)   for a pool of calls (compile of valid / failing programs, ExplorerScript- and SsbScript-decompilation of routine
                 sets incl. ones that fall back to SsbScript), every word of length L over the pool (quick L=4: all histories of
                 length <= 3 followed by the observed call; thorough L=5) occurs as a contiguous run of calls in some worker
                 process (a de Bruijn sequence B(|pool|, L), cut into chunks that overlap by L-1 calls).  The canonical bytes of
                 EVERY call's result must equal the bytes the same call produces ALONE in a FRESH process.
  R  (reuse)     one ExplorerScriptSsbCompiler instance used for several files gives the same as fresh instances.
  T  (twice)     the same decompiler input *objects* decompiled again (second instance over the same op objects; convert() a
                 second time on the same instance) give the same text and source map as the first time.
  F  (frame)     convert() leaves the caller's routine set unchanged: offsets, op codes and every parameter value
                 (spec.machine.param_key) and machine(input) are identical before and after.  `indent` of string parameters is
                 not part of the value.
  I  (indent)    a string parameter object that was printed at one indent and is then printed elsewhere (same object reachable
                 from two ops - what the compiler's macro substitution produces - or reused in a second routine set) does not
                 change later output.
  G  (cache)     directed attack on graph_utils.find_first_common_next_vertex_in_edges_cache (keyed by id(graph)): leave a
                 stale entry behind (a conversion that falls back to SsbScript after a lookup), force id() recycling, decompile
                 a routine set whose lookup has the same edge-id string.

The canonical bytes of a result: compile -> ops (offset, op code name/id, param_key of every parameter), routine infos, coroutine
names, source_map.serialize(), or (exception type, message); convert -> text, source_map.serialize(), or (exception type, message).
"""
from __future__ import annotations

import gc
import hashlib
import json
import multiprocessing
import os
import shutil
import sys
import tempfile

from vlib.result import Ctx, PropResult, StandIn, Violation

from props.C10 import COVERAGE_PROGRAMS, PPL, valid_corpus

CONTRACT_H = "a call's result (canonical bytes) after any history of earlier calls equals its result alone in a fresh process"
CONTRACT_R = "compile() on a reused compiler instance gives the same result as on a fresh instance"
CONTRACT_T = "decompiling the same routine-set objects again gives the same text and source map"
CONTRACT_F = "convert() leaves offsets, op codes, every parameter value and machine(input) of the caller's routine set unchanged"
CONTRACT_I = "output does not depend on the indent a string parameter object was last printed at"
CONTRACT_G = "a stale entry of the id(graph)-keyed cache is never used for a different graph"

DM = ("DMODE_CLOSED", "DMODE_OPEN", "DMODE_REQUEST", "DMODE_OPEN_AND_REQUEST")
COV = dict(COVERAGE_PROGRAMS)

# ---------------------------------------------------------------------------------------------------------------------
# pool of calls.  A call descriptor is JSON-able and self-contained (replay files carry the descriptors they need).
# ---------------------------------------------------------------------------------------------------------------------
SRC_STRINGS = (
    "macro say($s, $t) {\n    $VAR_X = $s;\n    if (debug) {\n        forever {\n            talk($s, $t);\n            break_loop;\n        }\n    }\n"
    "    switch ($VAR_A) {\n        case 1:\n            talk($t);\n            $VAR_Y = $t;\n    }\n}\n"
    "def 0 {\n    ~say('''first\n    second\n      third''', {english=\"\"\"e1\n    e2\"\"\", german='g'});\n"
    "    message_SwitchTalk ($VAR_A) {\n        case 1:\n            '''m1\n            m2'''\n        default:\n            {english=\"x\\ny\"}\n    }\n"
    "    if ($VAR_A == 1) {\n        with (actor 2) { talk(\"a\\nb\", 'q\\'q'); }\n    }\n    end;\n}\n"
)
SRC_BIG = COV["if-forms"].replace("def 0", "def 0") + COV["loops"].replace("def 0", "def 1") + COV["labels"].replace("def 0", "def 2 for actor ACTOR_X")
LIB = "macro lib($a) {\n    lib_op($a, Position<'lp', 1, 2.5>);\n    if ($a < 3) { return; }\n    lib_tail();\n}\n"
SRC_IMPORT = 'import "./lib.exps";\nmacro local($x) {\n    ~lib($x);\n    local_op($x);\n}\ndef 0 {\n    ~local(1);\n    ~lib(5);\n    end;\n}\n'
SRC_PARSE_ERROR = "def 0 {\n    a();\n}\ndef 1 {\n    b(;\n}\n"
SRC_NESTED_ERROR = "def 0 {\n    a();\n    return;\n}\ndef 1 {\n    forever {\n        if (debug) {\n            switch ($V) {\n                case 1:\n                    b();\n            }\n            break;\n        }\n    }\n}\n"
SRC_MACRO_ERROR = "macro inner($x, $y) {\n    op($x, $y);\n}\nmacro outer() {\n    a();\n    if (debug) {\n        ~inner(1);\n    }\n}\ndef 0 {\n    ~outer();\n}\n"
SRC_LABEL_ERROR = "def 0 {\n    a();\n    if (edit) { jump @nowhere; }\n    b();\n}\n"
SRC_SSBS = "//?: is-ssb-script: true\ndef 0 {\n    a(1, \"s\");\n    @l;\n    b({english=\"x\"});\n    Jump(@l);\n}\n"


def _op(off: int, name: str, *params) -> dict:
    return {"offset": off, "opcode": name, "params": list(params)}


# routine sets written by hand (param table + indices, see build_routines)
def _raw_set(name: str, routines: list[list[dict]], table: list) -> dict:
    return {"name": name, "table": table, "routines": [{"type": "GENERIC", "linked_to": 0, "linked_to_name": None, "coro": None, "ops": r} for r in routines]}


# Routine sets that make convert() fall back to SsbScript AFTER a common-vertex lookup stored {edge ids: None} (found by
# enumerating all op lists of length 3 over {op, Branch, Jump, Switch, Case, Return, ctx} and reading the cache afterwards).
# Which of them leaves a residue depends on the repository version, hence several; all leave the key '1,2'.
RAW_FALLBACK_H = _raw_set("fallback-after-branch-lookup", [[_op(0, "BranchDebug", 0, 1), _op(1, "a", 3), _op(2, "BranchDebug", 0, 0)]], [["int", 1], ["int", 0], ["int", 2], ["str", "two\nlines"]])
RAW_FALLBACK_H2 = _raw_set("fallback-after-branch-lookup-b", [[_op(0, "BranchDebug", 0, 1), _op(1, "a"), _op(2, "BranchDebug", 0, 1)]], [["int", 1], ["int", 0]])
RAW_FALLBACK_H3 = _raw_set("fallback-after-branch-lookup-c", [[_op(0, "BranchDebug", 0, 1), _op(1, "BranchDebug", 0, 1), _op(2, "BranchDebug", 0, 0)]], [["int", 1], ["int", 0]])
# no Branch op, one switch whose first lookup has the edge-id string '1,2' and a non-None result
RAW_SWITCH_O = _raw_set("switch-only", [[_op(0, "Jump", 0), _op(1, "Switch", 1), _op(2, "Case", 2, 3), _op(3, "Jump", 4)]], [["int", 1], ["const", "$a"], ["int", 2], ["int", 3], ["int", 0]])
RAW_POOL_SETS = (RAW_FALLBACK_H, RAW_FALLBACK_H2, RAW_SWITCH_O)
RAW_ATTACK_H = (RAW_FALLBACK_H, RAW_FALLBACK_H2, RAW_FALLBACK_H3)


def pool_sources(thorough: bool) -> list[dict]:
    """The compile calls of the pool and the sources whose compiled routines become decompile calls."""
    return [
        {"kind": "compile", "name": "valid-macros", "text": COV["macros"]},
    ] + ([{"kind": "compile", "name": "valid-big", "text": SRC_BIG}] if thorough else []) + [
        {"kind": "compile", "name": "valid-imports", "text": SRC_IMPORT, "files": {"lib.exps": LIB}},
        {"kind": "compile", "name": "parse-error", "text": SRC_PARSE_ERROR},
        {"kind": "compile", "name": "error-in-nested-block", "text": SRC_NESTED_ERROR},
        {"kind": "compile", "name": "error-in-macro", "text": SRC_MACRO_ERROR},
        {"kind": "compile", "name": "ssbscript", "text": SRC_SSBS},
    ]


DECOMPILE_FROM = [("switch-forms", COV["switch-forms"]), ("strings", SRC_STRINGS), ("big", SRC_BIG)]


# ---------------------------------------------------------------------------------------------------------------------
# worker side
# ---------------------------------------------------------------------------------------------------------------------
_S: dict = {}


def _setup(root: str) -> None:
    """root: directory all processes use for the (fixed) file names of compile calls."""
    if _S.get("root") == root:
        return
    import logging
    import warnings

    logging.disable(logging.CRITICAL)
    warnings.simplefilter("ignore")
    _S["root"] = root
    _S["devnull"] = open(os.devnull, "w")


def _param_desc(p) -> list:
    from spec.machine import param_key

    k = param_key(p)
    if k[0] == "lang":
        return ["lang", [list(kv) for kv in p.strings.items()]]  # keep insertion order: it is printed in that order
    return list(k)


def _param_obj(d: list):
    from explorerscript.ssb_converting import ssb_data_types as T

    k = d[0]
    if k == "int":
        return int(d[1])
    if k == "fixed":
        o = T.SsbOpParamFixedPoint(0, "0")
        o.value = d[1]
        return o
    if k == "const":
        return T.SsbOpParamConstant(d[1])
    if k == "str":
        return T.SsbOpParamConstString(d[1])
    if k == "lang":
        return T.SsbOpParamLanguageString({a: b for a, b in d[1]})
    if k == "pos":
        return T.SsbOpParamPositionMarker(d[1], d[2], d[3], d[4], d[5])
    raise ValueError(d)


def describe_routines(routine_ops, routine_infos, named) -> dict:
    """JSON description of a compiler result that keeps the sharing of parameter objects between ops."""
    table: list = []
    index: dict[int, int] = {}
    routines = []
    for ri, ops in enumerate(routine_ops):
        info = routine_infos[ri]
        rops = []
        for op in ops:
            ps = []
            for p in op.params:
                if id(p) not in index or isinstance(p, int):
                    index[id(p)] = len(table)
                    table.append(_param_desc(p))
                ps.append(index[id(p)])
            rops.append({"offset": op.offset, "opcode": op.op_code.name, "params": ps})
        routines.append(
            {
                "type": info.type.name,
                "linked_to": info.linked_to,
                "linked_to_name": info.linked_to_name,
                "coro": named[ri] if info.type.name == "COROUTINE" else None,
                "ops": rops,
            }
        )
    return {"table": table, "routines": routines}


def build_routines(desc: dict):
    """Fresh objects for a routine-set description: (infos, ops, coroutines)."""
    from explorerscript.ssb_converting import ssb_data_types as T

    objs = [_param_obj(d) for d in desc["table"]]
    infos, rops, coros = [], [], []
    for ri, r in enumerate(desc["routines"]):
        infos.append(T.SsbRoutineInfo(T.SsbRoutineType[r["type"]], r["linked_to"], r["linked_to_name"]))
        rops.append([T.SsbOperation(o["offset"], T.SsbOpCode(-1, o["opcode"]), [objs[i] for i in o["params"]]) for o in r["ops"]])
        if r["coro"] is not None:
            coros.append(T.SsbCoroutine(ri, r["coro"]))
    return infos, rops, coros


def snapshot(rops) -> list:
    from spec.machine import param_key

    return [[[op.offset, op.op_code.name, op.op_code.id, [list(map(_j, param_key(p))) for p in op.params]] for op in r] for r in rops]


def _j(x):
    return list(map(_j, x)) if isinstance(x, tuple) else x


def _exc_bytes(e: BaseException) -> dict:
    return {"raise": type(e).__name__, "msg": str(e).replace(_S.get("root", "\0"), "<root>")}


def canon_compile(comp) -> dict:
    return {
        "ops": snapshot(comp.routine_ops),
        "infos": [None if i is None else [i.type.name, i.linked_to, i.linked_to_name] for i in comp.routine_infos],
        "coros": [c if isinstance(c, str) else repr(c) for c in comp.named_coroutines],
        "source_map": comp.source_map.serialize(),
    }


def do_call(call: dict, compiler=None, keep: dict | None = None) -> bytes:
    """Execute one call of the pool; canonical bytes of its result."""
    root = _S["root"]
    kind = call["kind"]
    old = sys.stderr
    sys.stderr = _S["devnull"]
    try:
        if kind == "compile":
            from explorerscript.ssb_converting.ssb_compiler import ExplorerScriptSsbCompiler

            d = os.path.join(root, "c-" + call["name"])
            if not os.path.isdir(d):
                os.makedirs(d, exist_ok=True)
                for rel, content in call.get("files", {}).items():
                    with open(os.path.join(d, rel), "w", encoding="utf-8") as fh:
                        fh.write(content)
            comp = compiler or ExplorerScriptSsbCompiler(PPL, [])
            try:
                comp.compile(call["text"], os.path.join(d, "main.exps"))
                res = canon_compile(comp)
            except Exception as e:  # noqa: BLE001
                res = _exc_bytes(e)
        else:
            from explorerscript.ssb_converting.ssb_data_types import DungeonModeConstants
            from explorerscript.ssb_converting.ssb_decompiler import ExplorerScriptSsbDecompiler
            from explorerscript.ssb_script.ssb_converting.ssb_decompiler import SsbScriptSsbDecompiler

            infos, rops, coros = build_routines(call["routines"])
            if keep is not None:
                keep["objs"] = (infos, rops, coros)
            try:
                if kind == "decompile":
                    dec = ExplorerScriptSsbDecompiler(infos, rops, coros, PPL, DungeonModeConstants(*DM))
                else:
                    dec = SsbScriptSsbDecompiler(infos, rops, coros)
                if keep is not None:
                    keep["dec"] = dec
                text, sm = dec.convert()
                res = {"text": text, "source_map": sm.serialize()}
            except Exception as e:  # noqa: BLE001
                res = _exc_bytes(e)
    finally:
        sys.stderr = old
    return json.dumps(res, sort_keys=True, ensure_ascii=True).encode()


def task_build_pool(args) -> list[dict]:
    """Runs in a fresh process: compile the DECOMPILE_FROM sources and describe their routines."""
    root, thorough = args
    _setup(root)
    from explorerscript.ssb_converting.ssb_compiler import ExplorerScriptSsbCompiler

    pool = pool_sources(thorough)
    for name, src in DECOMPILE_FROM:
        if name == "big" and not thorough:
            continue
        comp = ExplorerScriptSsbCompiler(PPL, [])
        comp.compile(src, os.path.join(root, "pool-" + name + ".exps"))
        desc = describe_routines(comp.routine_ops, comp.routine_infos, comp.named_coroutines)
        pool.append({"kind": "decompile", "name": "compiled-" + name, "routines": desc})
        if name == "strings":
            pool.append({"kind": "decompile-ssbscript", "name": "ssbscript-of-" + name, "routines": desc})
    for raw in RAW_POOL_SETS:
        pool.append({"kind": "decompile", "name": raw["name"], "routines": {"table": raw["table"], "routines": raw["routines"]}})
    return pool


def task_baseline(args) -> tuple[str, str]:
    """Fresh process: one call alone. Returns (digest, bytes as text)."""
    root, call = args
    _setup(root)
    b = do_call(call)
    return hashlib.sha1(b).hexdigest(), b.decode()


def task_sequence(args) -> dict:
    """Fresh process: run calls[seq[0]], calls[seq[1]], ...; report every call whose bytes differ from its baseline."""
    root, pool, seq, baseline, start = args
    _setup(root)
    bad = []
    for pos, ci in enumerate(seq):
        b = do_call(pool[ci])
        if hashlib.sha1(b).hexdigest() != baseline[ci]:
            bad.append({"pos": start + pos, "call": ci, "before": list(seq[max(0, pos - 8) : pos]), "got": b.decode()[:4000]})
            if len(bad) >= 40:
                break
        if pos % 7 == 0:
            gc.collect()  # make id() recycling likely: results of earlier calls are dropped and collected
    return {"n": len(seq), "bad": bad}


def task_run_words(args) -> list[str]:
    """Fresh process: a list of call descriptors in order; digests of all results (used for minimisation and replay)."""
    root, calls = args
    _setup(root)
    out = []
    for c in calls:
        out.append(hashlib.sha1(do_call(c)).hexdigest())
        gc.collect()
    return out


def task_reuse(args) -> list[dict]:
    """R: one compiler instance for several files."""
    root, calls, baseline, orders = args
    _setup(root)
    from explorerscript.ssb_converting.ssb_compiler import ExplorerScriptSsbCompiler

    bad = []
    for order in orders:
        comp = ExplorerScriptSsbCompiler(PPL, [])
        for k, ci in enumerate(order):
            b = do_call(calls[ci], compiler=comp)
            if hashlib.sha1(b).hexdigest() != baseline[ci]:
                bad.append({"order": list(order[: k + 1]), "call": ci, "got": b.decode()[:2000]})
    return bad


def _convert_again(kind: str, infos, rops, coros):
    from explorerscript.ssb_converting.ssb_data_types import DungeonModeConstants
    from explorerscript.ssb_converting.ssb_decompiler import ExplorerScriptSsbDecompiler
    from explorerscript.ssb_script.ssb_converting.ssb_decompiler import SsbScriptSsbDecompiler

    if kind == "decompile":
        return ExplorerScriptSsbDecompiler(infos, rops, coros, PPL, DungeonModeConstants(*DM))
    return SsbScriptSsbDecompiler(infos, rops, coros)


def _res_bytes(fn) -> bytes:
    old = sys.stderr
    sys.stderr = _S["devnull"]
    try:
        try:
            text, sm = fn()
            res = {"text": text, "source_map": sm.serialize()}
        except Exception as e:  # noqa: BLE001
            res = _exc_bytes(e)
    finally:
        sys.stderr = old
    return json.dumps(res, sort_keys=True, ensure_ascii=True).encode()


def task_twice_and_frame(args) -> list[dict]:
    """T and F on a list of decompile calls (objects built once per call)."""
    root, calls = args
    _setup(root)
    from spec.machine import MalformedRoutines, machine

    out = []
    for call in calls:
        keep: dict = {}
        rec = {"name": call["name"], "kind": call["kind"], "problems": []}
        infos, rops, coros = build_routines(call["routines"])
        before = snapshot(rops)
        lens_before = [len(r) for r in rops]
        try:
            m_before = machine(rops, "table")
        except (MalformedRoutines, Exception) as e:  # noqa: BLE001
            m_before = ("malformed", type(e).__name__)
        dec1 = _convert_again(call["kind"], infos, rops, coros)
        first = _res_bytes(dec1.convert)
        after = snapshot(rops)
        try:
            m_after = machine(rops, "table")
        except (MalformedRoutines, Exception) as e:  # noqa: BLE001
            m_after = ("malformed", type(e).__name__)
        if before != after or lens_before != [len(r) for r in rops]:
            diff = next(((ri, oi, a, b) for ri, (ra, rb) in enumerate(zip(before, after)) for oi, (a, b) in enumerate(zip(ra, rb)) if a != b), None)
            rec["problems"].append({"clause": "F", "symptom": "params-or-ops-changed", "detail": repr(diff)[:500]})
        elif m_before != m_after:
            rec["problems"].append({"clause": "F", "symptom": "machine-changed", "detail": ""})
        # T(ii): a second instance over the same objects
        second = _res_bytes(_convert_again(call["kind"], infos, rops, coros).convert)
        if second != first:
            rec["problems"].append({"clause": "T", "symptom": "second-instance-same-objects-differs", "detail": _first_diff(first, second)})
        # T(i): the same instance again
        third = _res_bytes(dec1.convert)
        if third != first:
            rec["problems"].append({"clause": "T", "symptom": "second-convert-on-same-instance-differs", "detail": _first_diff(first, third)})
        rec["first_is_exception"] = b'"raise"' in first[:12]
        out.append(rec)
    return out


def _first_diff(a: bytes, b: bytes) -> str:
    sa, sb = a.decode(), b.decode()
    i = next((k for k in range(min(len(sa), len(sb))) if sa[k] != sb[k]), min(len(sa), len(sb)))
    return f"first difference at byte {i}: {sa[max(0, i - 60) : i + 60]!r} vs {sb[max(0, i - 60) : i + 60]!r}"


def task_indent(root: str) -> list[dict]:
    """I: a shared string parameter object printed at two indents."""
    _setup(root)
    from explorerscript.ssb_converting import ssb_data_types as T

    out = []

    def conv(kind, infos, rops, coros):
        return _res_bytes(_convert_again(kind, infos, rops, coros).convert)

    def gen(n):
        return [T.SsbRoutineInfo(T.SsbRoutineType.GENERIC, 0) for _ in range(n)]

    def op(off, name, *ps):
        return T.SsbOperation(off, T.SsbOpCode(-1, name), list(ps))

    C = T.SsbOpParamConstant
    for kind_name, mk in (("const-string", lambda: T.SsbOpParamConstString("l1\nl2")), ("lang-string", lambda: T.SsbOpParamLanguageString({"english": "l1\nl2"}))):
        # (1) one routine set, the object reachable from two ops (as the compiler's macro substitution produces):
        #     a site that does not set the indent (flag_Set) first, then a nested site that sets it
        def set1(p_top, p_nested):
            return [[op(0, "flag_Set", C("$X"), p_top), op(1, "BranchDebug", 1, 3), op(2, "Return"), op(3, "talk", p_nested), op(4, "Return")]]

        shared = mk()
        rops = set1(shared, shared)
        a = conv("decompile", gen(1), rops, [])
        b = conv("decompile", gen(1), rops, [])
        fresh = conv("decompile", gen(1), set1(mk(), mk()), [])
        if a != b:
            out.append({"case": f"shared-object-in-one-set:{kind_name}", "symptom": "second-decompile-of-same-objects-differs", "detail": _first_diff(a, b)})
        if a != fresh:
            out.append({"case": f"shared-object-in-one-set:{kind_name}", "symptom": "differs-from-unshared-equal-values", "detail": _first_diff(fresh, a)})
        # (2) two routine sets sharing the object: A prints it nested, then B prints it at a site that keeps the stale indent
        p = mk()
        set_a = [[op(0, "BranchDebug", 1, 2), op(1, "Return"), op(2, "talk", p), op(3, "Return")]]
        set_b = lambda q: [[op(0, "flag_Set", C("$X"), q), op(1, "Return")]]  # noqa: E731
        alone = conv("decompile", gen(1), set_b(mk()), [])
        conv("decompile", gen(1), set_a, [])
        after = conv("decompile", gen(1), set_b(p), [])
        if alone != after:
            out.append({"case": f"object-reused-in-second-set:{kind_name}", "symptom": "output-depends-on-earlier-print", "detail": _first_diff(alone, after)})
    out.append({"case": "evaluated", "symptom": "", "detail": "6"})
    return out


def task_cache_attack(args) -> dict:
    """G: leave stale entries in the id(graph)-keyed cache, recycle ids, decompile a routine set with the same edge ids."""
    root, h_call, o_call, n_h, n_o = args
    _setup(root)
    from explorerscript.ssb_converting.decompiler.graph_building import graph_utils as GU

    clean = do_call(o_call)
    GU.find_first_common_next_vertex_in_edges_cache.clear()  # monitor only: start the experiment from an empty cache
    for _ in range(n_h):
        do_call(h_call)
        gc.collect()
    cache = GU.find_first_common_next_vertex_in_edges_cache
    stale = {k: {kk: ("None" if vv is None else "edges") for kk, vv in v.items()} for k, v in cache.items() if v}
    res = {"n_h": n_h, "stale_entries_after_history": len(stale), "stale_keys": sorted({kk for v in stale.values() for kk in v}), "hit_at": None}
    for i in range(n_o):
        b = do_call(o_call)
        if b != clean:
            res["hit_at"] = i
            res["clean"] = clean.decode()[:1500]
            res["got"] = b.decode()[:1500]
            break
        gc.collect()
    res["cache_size_end"] = len(cache)
    return res


def task_cli_counter(root: str) -> dict:
    """Observation (not a contract of C11, see run()): cli.decompile.read_routines twice in one process."""
    _setup(root)
    from explorerscript.cli import decompile as D

    doc = [{"type": "GENERIC", "ops": [{"opcode": "a", "params": []}, {"opcode": "Jump", "params": [1]}]}]
    first = [[o.offset for o in r] for r in D.read_routines(doc)[2]]
    second = [[o.offset for o in r] for r in D.read_routines(doc)[2]]
    return {"first_offsets": first, "second_offsets": second, "same": first == second}


# ---------------------------------------------------------------------------------------------------------------------
# parent side
# ---------------------------------------------------------------------------------------------------------------------
def de_bruijn(k: int, n: int) -> list[int]:
    """de Bruijn sequence B(k, n) (Lyndon word concatenation); cyclic: append the first n-1 symbols to make it linear."""
    a = [0] * (k * n)
    seq: list[int] = []

    def db(t: int, p: int) -> None:
        if t > n:
            if n % p == 0:
                seq.extend(a[1 : p + 1])
        else:
            a[t] = a[t - p]
            db(t + 1, p)
            for j in range(a[t - p] + 1, k):
                a[t] = j
                db(t + 1, t)

    sys.setrecursionlimit(max(10000, sys.getrecursionlimit()))
    db(1, 1)
    return seq + seq[: n - 1]


def _fresh(mp, fn, arg):
    with mp.Pool(1) as p:
        return p.apply(fn, (arg,))


def _minimise(mp_pool, root, pool, baseline, bad: dict) -> tuple[list[int], bool]:
    """A short history (subsequence of the calls before `bad`) that reproduces the difference in a fresh process.
    Round 1: every suffix of the recorded calls (in parallel); round 2: every 1- and 2-element subsequence of the shortest
    reproducing suffix.  Each candidate runs in its own fresh process."""
    before = bad["before"]
    ci = bad["call"]

    def trial(cands: list[list[int]]) -> list[bool]:
        digs = mp_pool.map(task_run_words, [(root, [pool[i] for i in h + [ci]]) for h in cands], chunksize=1)
        return [d[-1] != baseline[ci] for d in digs]

    sufs = [before[len(before) - k :] if k else [] for k in range(len(before) + 1)]
    ok = trial(sufs)
    best = next((h for h, o in zip(sufs, ok) if o), None)
    if best is None:
        return before, False
    # greedy one-at-a-time removal, all candidates of a round in parallel
    while len(best) > 1:
        cands = [best[:i] + best[i + 1 :] for i in range(len(best))]
        ok2 = trial(cands)
        nxt = next((h for h, o in zip(cands, ok2) if o), None)
        if nxt is None:
            break
        best = nxt
    return best, True


def run(ctx: Ctx) -> PropResult:
    import time

    res = PropResult(prop="C11", level="exploration")
    t0 = time.time()
    timing: dict = {}
    res.extra["timing_s"] = timing
    L = 5 if ctx.thorough else 4
    root = tempfile.mkdtemp(prefix="verif-C11-")
    mp = multiprocessing.get_context("spawn")
    try:
        with mp.Pool(ctx.jobs, maxtasksperchild=1) as fresh:  # every task runs in a fresh process
            pool = fresh.apply(task_build_pool, ((root, ctx.thorough),))
            names = [c["name"] for c in pool]
            base = fresh.map(task_baseline, [(root, c) for c in pool], chunksize=1)
            base2 = fresh.map(task_baseline, [(root, c) for c in pool], chunksize=1)
            baseline = [d for d, _ in base]
            for i, ((d1, _), (d2, _)) in enumerate(zip(base, base2)):
                if d1 != d2:
                    res.violations.append(
                        Violation(
                            signature=f"C11:H:{pool[i]['kind']}:{names[i]}:differs-between-two-fresh-processes",
                            what=f"call {names[i]} gives different bytes in two fresh processes",
                            input={"history": [], "observed": pool[i]},
                            contract=CONTRACT_H,
                            observed={"first": base[i][1][:1000], "second": base2[i][1][:1000]},
                        )
                    )
            timing["baselines"] = round(time.time() - t0, 1)
            # ---- H
            seq = de_bruijn(len(pool), L)
            n_chunks = ctx.jobs * (4 if ctx.thorough else 2)
            size = -(-len(seq) // n_chunks)
            jobs = []
            for s in range(0, len(seq), size):
                lo = max(0, s - (L - 1))
                jobs.append((root, pool, seq[lo : s + size], baseline, lo))
            outs = fresh.map(task_sequence, jobs, chunksize=1)
            n_calls = sum(o["n"] for o in outs)
            timing["H_runs"] = round(time.time() - t0, 1)
            seen_sig: dict[str, int] = {}
            for o in outs:
                for bad in o["bad"]:
                    ci = bad["call"]
                    key = names[ci]
                    seen_sig[key] = seen_sig.get(key, 0) + 1
                    if seen_sig[key] > 1:
                        continue  # one witness per observed call is minimised; the others are counted
                    hist, ok = _minimise(fresh, root, pool, baseline, bad)
                    res.violations.append(
                        Violation(
                            signature=f"C11:H:{pool[ci]['kind']}:{names[ci]}:result-differs-after-history",
                            what=f"{pool[ci]['kind']} of '{names[ci]}' gives a different result after the history [{', '.join(names[i] for i in hist)}] than alone in a fresh process",
                            input={"history": [pool[i] for i in hist], "observed": pool[ci]},
                            contract=CONTRACT_H,
                            observed={"baseline": base[ci][1][:3000], "got": bad["got"][:3000], "position_in_run": bad["pos"]},
                        )
                    )
            words = len(pool) ** L
            res.extra["H_differing_calls_per_observed"] = seen_sig
            res.standins.append(
                StandIn(
                    contract="H: " + CONTRACT_H,
                    tier="T3",
                    bound=f"pool of {len(pool)} calls ({', '.join(names)}); every word of length {L} (= all histories of length <= {L - 1} + observed call) as a contiguous run, B({len(pool)},{L}) in {len(jobs)} fresh processes; baselines from 2 x {len(pool)} fresh processes",
                    evaluations=n_calls,
                    distinct_nontrivial=words,
                    exhaustive=True,
                    samples=[names[:4], seq[:12]],
                    notes="exhaustive w.r.t. the stated pool and history length only; gc.collect() every 7th call to let id()s be recycled",
                )
            )
            timing["H_minimise"] = round(time.time() - t0, 1)
            # ---- R
            comp_idx = [i for i, c in enumerate(pool) if c["kind"] == "compile"]
            import itertools

            orders = list(itertools.product(comp_idx, repeat=2)) + (list(itertools.product(comp_idx, repeat=3)) if ctx.thorough else [tuple(comp_idx), tuple(reversed(comp_idx)), tuple(comp_idx + comp_idx)])
            rb = fresh.apply(task_reuse, ((root, pool, baseline, orders),))
            done = set()
            for b in rb:
                ci = b["call"]
                prev = b["order"][-2] if len(b["order"]) > 1 else None
                key = (ci, prev)
                if key in done:
                    continue
                done.add(key)
                res.violations.append(
                    Violation(
                        signature=f"C11:R:compile:{names[ci]}:differs-on-reused-instance-after:{names[prev] if prev is not None else 'nothing'}",
                        what=f"compile of '{names[ci]}' on a compiler instance already used for {[names[i] for i in b['order'][:-1]]} differs from a fresh instance",
                        input={"mode": "reuse", "order": [pool[i] for i in b["order"]]},
                        contract=CONTRACT_R,
                        observed={"baseline": base[ci][1][:2000], "got": b["got"]},
                    )
                )
            res.standins.append(
                StandIn(contract="R: " + CONTRACT_R, tier="T3", bound=f"{len(orders)} orders over {len(comp_idx)} compile calls on one instance", evaluations=sum(len(o) for o in orders), distinct_nontrivial=len(orders), exhaustive=False, samples=[[names[i] for i in orders[1]]])
            )
            timing["R"] = round(time.time() - t0, 1)
            # ---- T / F on the pool's decompile calls and on compiled corpus programs
            dec_calls = [c for c in pool if c["kind"] != "compile"]
            corpus = valid_corpus(ctx.seed, 600 if ctx.thorough else 100, size=4)
            more = fresh.map(task_corpus_calls, [(root, ch) for ch in _chunks(corpus, 40)], chunksize=1)
            corpus_calls = [c for ch in more for c in ch]
            # pool calls one per fresh process (so that T is not disturbed by what clause H/G is about); corpus in chunks
            tf = fresh.map(task_twice_and_frame, [(root, [c]) for c in dec_calls] + [(root, ch) for ch in _chunks(corpus_calls, 25)], chunksize=1)
            n_tf = 0
            by_name = {c["name"]: c for c in dec_calls + corpus_calls}
            seen_tf: set[str] = set()
            n_exc = 0
            for ch in tf:
                for rec in ch:
                    n_tf += 1
                    n_exc += rec["first_is_exception"]
                    for pr in rec["problems"]:
                        cls = rec["name"] if not rec["name"].startswith("corpus:") else "compiled-corpus-program"
                        if pr["symptom"] == "second-convert-on-same-instance-differs":
                            cls = "any"  # one defect (convert() replaces its own input), whatever the routine set
                        sig = f"C11:{pr['clause']}:{rec['kind']}:{cls}:{pr['symptom']}"
                        if sig in seen_tf and cls in ("compiled-corpus-program", "any"):
                            res.extra.setdefault("more_witnesses", {}).setdefault(sig, 0)
                            res.extra["more_witnesses"][sig] += 1
                            continue
                        seen_tf.add(sig)
                        res.violations.append(
                            Violation(
                                signature=sig,
                                what=f"{rec['kind']} of '{rec['name']}': {pr['symptom']} ({pr['detail'][:200]})",
                                input={"mode": "twice-frame", "call": by_name[rec["name"]]},
                                contract=CONTRACT_T if pr["clause"] == "T" else CONTRACT_F,
                                observed=pr,
                            )
                        )
            for cl, ct in (("T", CONTRACT_T), ("F", CONTRACT_F)):
                res.standins.append(
                    StandIn(contract=f"{cl}: " + ct, tier="T3", bound=f"{len(dec_calls)} pool routine sets + compiler output of {len(corpus_calls)} corpus programs (both decompilers for every 5th)", evaluations=n_tf, distinct_nontrivial=len({json.dumps(c['routines'], sort_keys=True) for c in dec_calls + corpus_calls}), exhaustive=False, samples=[dec_calls[0]["name"], corpus[0][1]], notes=f"{n_exc} of the inputs make convert() raise (compared as results too)")
                )
            timing["TF"] = round(time.time() - t0, 1)
            # ---- I
            ind = fresh.apply(task_indent, (root,))
            n_ind = 0
            for r in ind:
                if r["case"] == "evaluated":
                    n_ind = int(r["detail"])
                    continue
                res.violations.append(
                    Violation(
                        signature=f"C11:I:{r['case']}:{r['symptom']}",
                        what=f"string parameter indent leaks into later output ({r['case']}): {r['detail'][:240]}",
                        input={"mode": "indent", "case": r["case"]},
                        contract=CONTRACT_I,
                        observed=r,
                    )
                )
            res.standins.append(StandIn(contract="I: " + CONTRACT_I, tier="T3", bound="const string and language string; shared inside one routine set / reused in a second set", evaluations=n_ind, distinct_nontrivial=4, exhaustive=False, samples=["flag_Set($X, P); if (debug) { talk(P); }  with one object P = 'l1\\nl2'"]))
            # ---- G
            o_call = next(c for c in pool if c["name"] == RAW_SWITCH_O["name"])
            h_calls = [{"kind": "decompile", "name": raw["name"], "routines": {"table": raw["table"], "routines": raw["routines"]}} for raw in RAW_ATTACK_H]
            attack_jobs = [(root, h, o_call, n_h, 300) for h in h_calls for n_h in (1, 3, 50)]
            attacks = fresh.map(task_cache_attack, attack_jobs, chunksize=1)
            for a_, j_ in zip(attacks, attack_jobs):
                a_["h"] = j_[1]["name"]
            res.extra["cache_attack"] = [{k: v for k, v in a.items() if k not in ("clean", "got")} for a in attacks]
            hit = next((a for a in attacks if a["hit_at"] is not None), None)
            if hit is not None:
                h_call = next(h for h in h_calls if h["name"] == hit["h"])
                res.violations.append(
                    Violation(
                        signature="C11:G:stale-cache-entry-of-dead-graph-used:decompile:switch-only:after:fallback-after-branch-lookup",
                        what="a conversion that falls back to SsbScript leaves {edge ids: None} under id(graph) in find_first_common_next_vertex_in_edges_cache; a later graph that gets the same id() reads it and a switch loses its end label",
                        input={"mode": "cache-attack", "h": h_call, "o": o_call, "n_h": hit["n_h"], "n_o": 300},
                        contract=CONTRACT_G,
                        observed=hit,
                    )
                )
            if not any(a["stale_entries_after_history"] for a in attacks):
                res.self_check_failures.append("clause G: none of the fallback routine sets leaves an entry in the cache any more - the attack is vacuous, pick new ones")
            res.standins.append(StandIn(contract="G: " + CONTRACT_G, tier="T3", bound="3 fallback routine sets x history of 1/3/50 conversions, then up to 300 conversions of the switch-only set, gc.collect() between calls", evaluations=sum(300 if a["hit_at"] is None else a["hit_at"] + 1 for a in attacks), distinct_nontrivial=9, exhaustive=False, samples=[RAW_FALLBACK_H["routines"][0]["ops"], RAW_SWITCH_O["routines"][0]["ops"]]))
            timing["I_G"] = round(time.time() - t0, 1)
            # ---- observation: CLI counter
            res.extra["cli_decompile_counter"] = fresh.apply(task_cli_counter, (root,))
    finally:
        shutil.rmtree(root, ignore_errors=True)

    res.rule = (
        "pool (quick: 12 calls, thorough: 14) = compile calls (valid with macros, [thorough: valid big,] valid with an import, parse error, SsbCompilerError inside a nested "
        "block, ValueError inside a macro, SsbScript source) + decompile calls (compiler output of three sources, the SsbScript "
        "decompiler on one of them, three hand-written routine sets: two falling back to SsbScript after a cache lookup (one with a multi-line string), one switch-only). distinct = "
        "words over the pool; a word is non-trivial when it has >= 2 calls (all have)."
    )
    res.assumptions = [
        "a 'fresh process' is a spawned python process that has made no other call of the pool",
        "every compile call uses the same absolute file name in all processes (a scratch directory); exception messages are compared after replacing that directory name",
        "id() recycling cannot be forced, only made likely (results dropped, gc.collect()); clause G reports what was observed",
        "explorerscript.cli.decompile.read_routines is not a documented interface (docs/cli_api_usage.rst documents the command and the two classes); its module-level counter is recorded under coverage.cli_decompile_counter, not as a violation",
    ]
    res.extra["pool"] = names
    if not n_calls:
        res.self_check_failures.append("clause H never evaluated")
    if not n_tf:
        res.self_check_failures.append("clauses T/F never evaluated")
    if not n_ind:
        res.self_check_failures.append("clause I never evaluated")
    return res


def _chunks(xs: list, n: int) -> list[list]:
    return [xs[i : i + n] for i in range(0, len(xs), n)]


def task_corpus_calls(args) -> list[dict]:
    """Compile corpus programs (fresh process) and describe their routines as decompile calls."""
    root, progs = args
    _setup(root)
    from explorerscript.ssb_converting.ssb_compiler import ExplorerScriptSsbCompiler

    out = []
    for k, (name, text) in enumerate(progs):
        comp = ExplorerScriptSsbCompiler(PPL, [])
        try:
            comp.compile(text, os.path.join(root, "corpus.exps"))
        except Exception:  # noqa: BLE001 - not this property's business
            continue
        if any(i is None for i in comp.routine_infos):
            continue
        desc = describe_routines(comp.routine_ops, comp.routine_infos, comp.named_coroutines)
        out.append({"kind": "decompile", "name": "corpus:" + name, "routines": desc})
        if k % 5 == 0:
            out.append({"kind": "decompile-ssbscript", "name": "corpus:ssbs:" + name, "routines": desc})
    return out


def replay(record: dict, ctx: Ctx) -> bool:
    inp = record["input"]
    root = tempfile.mkdtemp(prefix="verif-C11r-")
    mp = multiprocessing.get_context("spawn")
    try:
        with mp.Pool(2, maxtasksperchild=1) as fresh:
            mode = inp.get("mode", "history")
            if mode == "history":
                alone = fresh.apply(task_baseline, ((root, inp["observed"]),))[0]
                digs = fresh.apply(task_run_words, ((root, inp["history"] + [inp["observed"]]),))
                if not inp["history"]:
                    return fresh.apply(task_baseline, ((root, inp["observed"]),))[0] != alone
                return digs[-1] != alone
            if mode == "reuse":
                calls = inp["order"]
                baseline = [fresh.apply(task_baseline, ((root, c),))[0] for c in calls]
                bad = fresh.apply(task_reuse, ((root, calls, baseline, [tuple(range(len(calls)))]),))
                return any(b["call"] == len(calls) - 1 for b in bad)
            if mode == "twice-frame":
                recs = fresh.apply(task_twice_and_frame, ((root, [inp["call"]]),))
                want = record["signature"].rsplit(":", 1)[-1]
                return any(p["symptom"] == want for r in recs for p in r["problems"])
            if mode == "indent":
                want = record["signature"].split(":", 2)[2]
                return any(f"{r['case']}:{r['symptom']}" == want for r in fresh.apply(task_indent, (root,)))
            if mode == "cache-attack":
                a = fresh.apply(task_cache_attack, ((root, inp["h"], inp["o"], inp["n_h"], inp["n_o"]),))
                return a["hit_at"] is not None
    finally:
        shutil.rmtree(root, ignore_errors=True)
    raise ValueError("unknown replay mode")
