"""C11 - results depend only on the input, not on what was processed before.   (tier T3: bounded stand-in)

Contracts, evaluated on the REAL compile()/convert():

  H  (history)   for a pool of calls (compile of valid / failing programs, ExplorerScript- and SsbScript-decompilation of routine
                 sets incl. ones that fall back to SsbScript), every word of length L over the pool (quick L=4: all histories of
                 length <= 3 followed by the observed call; thorough L=5) occurs as a contiguous run of calls in some worker
                 process (a de Bruijn sequence B(|pool|, L), cut into chunks that overlap by L-1 calls).  The canonical bytes of
                 EVERY call's result must equal the bytes the same call produces ALONE in a FRESH process.
  R  (reuse)     one ExplorerScriptSsbCompiler instance used for several files gives the same as fresh instances: all pairs over
                 the pool's compile calls and 11 import-chain calls that share one directory (imports failing at depth 2 with a
                 parse error / missing file / routine / compile error, a failing text compiled under the NAME of a file that
                 later calls import, valid importers of the same files), and all triples of the import-chain calls.
  T  (twice)     the same decompiler input *objects* decompiled again (second instance over the same op objects; convert() a
                 second time on the same instance) give the same text and source map as the first time.
  F  (frame)     convert() leaves the caller's routine set unchanged: offsets, op codes and every parameter value
                 (spec.machine.param_key) and machine(input) are identical before and after.  `indent` of string parameters is
                 not part of the value.
  I  (indent)    a string parameter object that was printed at one indent and is then printed elsewhere (same object reachable
                 from two ops - what the compiler's macro substitution produces - or reused in a second routine set) does not
                 change later output.
  O  (order)     a large and diverse pool of routine sets (compiler output of >= 700 programs of gen/programs.py - a stride sample
                 of every exhaustive family plus seeded random programs - and of props.C10.valid_corpus) is decompiled in K = 4
                 (thorough 8) orders (identity, reversed, seeded shuffles), each order in its own fresh process; the canonical bytes
                 of every input must be the same in all K processes.  Inputs that keep the decompiler busy for > 3 s are excluded
                 (probed in a forked child) and listed in the evidence.
  S  (static)    AST scan of the whole package (explorerscript/antlr excluded) for mutable default arguments, module-level mutable
                 bindings, class-level mutable attributes and `global` statements; every hit must be on the AUDITED list below
                 with its discharge reason (some reasons are machine-checked: 'never mutated', 'shadowed in __init__'); an
                 un-audited hit is a violation `C11:static:<kind>:<module>:<name>` without a failing input.
  G  (cache)     directed attack on graph_utils.find_first_common_next_vertex_in_edges_cache (keyed by id(graph)): leave a
                 stale entry behind (a conversion that falls back to SsbScript after a lookup), force id() recycling, decompile
                 a routine set whose lookup has the same edge-id string.

The canonical bytes of a result: compile -> ops (offset, op code name/id, param_key of every parameter), routine infos, coroutine
names, source_map.serialize(), or (exception type, message); convert -> text, source_map.serialize(), or (exception type, message).
"""
from __future__ import annotations

import gc
import hashlib
import json
import multiprocessing
import os
import shutil
import sys
import tempfile

from vlib.result import Ctx, PropResult, StandIn, Violation

from props.C10 import COVERAGE_PROGRAMS, PPL, valid_corpus

CONTRACT_H = "a call's result (canonical bytes) after any history of earlier calls equals its result alone in a fresh process"
CONTRACT_R = "compile() on a reused compiler instance gives the same result as on a fresh instance"
CONTRACT_T = "decompiling the same routine-set objects again gives the same text and source map"
CONTRACT_F = "convert() leaves offsets, op codes, every parameter value and machine(input) of the caller's routine set unchanged"
CONTRACT_I = "output does not depend on the indent a string parameter object was last printed at"
CONTRACT_O = "a decompile call's result does not depend on the order in which a large set of routine sets is decompiled in one process"
CONTRACT_S = "every process-wide mutable binding of the package (mutable default argument, mutated module-level object, class-level mutable attribute, `global`) is on the audited list with a discharge reason"
CONTRACT_G = "a stale entry of the id(graph)-keyed cache is never used for a different graph"

DM = ("DMODE_CLOSED", "DMODE_OPEN", "DMODE_REQUEST", "DMODE_OPEN_AND_REQUEST")
COV = dict(COVERAGE_PROGRAMS)

# ---------------------------------------------------------------------------------------------------------------------
# pool of calls.  A call descriptor is JSON-able and self-contained (replay files carry the descriptors they need).
# ---------------------------------------------------------------------------------------------------------------------
SRC_STRINGS = (
    "macro say($s, $t) {\n    $VAR_X = $s;\n    if (debug) {\n        forever {\n            talk($s, $t);\n            break_loop;\n        }\n    }\n"
    "    switch ($VAR_A) {\n        case 1:\n            talk($t);\n            $VAR_Y = $t;\n    }\n}\n"
    "def 0 {\n    ~say('''first\n    second\n      third''', {english=\"\"\"e1\n    e2\"\"\", german='g'});\n"
    "    message_SwitchTalk ($VAR_A) {\n        case 1:\n            '''m1\n            m2'''\n        default:\n            {english=\"x\\ny\"}\n    }\n"
    "    if ($VAR_A == 1) {\n        with (actor 2) { talk(\"a\\nb\", 'q\\'q'); }\n    }\n    end;\n}\n"
)
SRC_BIG = COV["if-forms"].replace("def 0", "def 0") + COV["loops"].replace("def 0", "def 1") + COV["labels"].replace("def 0", "def 2 for actor ACTOR_X")
LIB = "macro lib($a) {\n    lib_op($a, Position<'lp', 1, 2.5>);\n    if ($a < 3) { return; }\n    lib_tail();\n}\n"
SRC_IMPORT = 'import "./lib.exps";\nmacro local($x) {\n    ~lib($x);\n    local_op($x);\n}\ndef 0 {\n    ~local(1);\n    ~lib(5);\n    end;\n}\n'
SRC_PARSE_ERROR = "def 0 {\n    a();\n}\ndef 1 {\n    b(;\n}\n"
SRC_NESTED_ERROR = "def 0 {\n    a();\n    return;\n}\ndef 1 {\n    forever {\n        if (debug) {\n            switch ($V) {\n                case 1:\n                    b();\n            }\n            break;\n        }\n    }\n}\n"
SRC_MACRO_ERROR = "macro inner($x, $y) {\n    op($x, $y);\n}\nmacro outer() {\n    a();\n    if (debug) {\n        ~inner(1);\n    }\n}\ndef 0 {\n    ~outer();\n}\n"
SRC_LABEL_ERROR = "def 0 {\n    a();\n    if (edit) { jump @nowhere; }\n    b();\n}\n"
SRC_SSBS = "//?: is-ssb-script: true\ndef 0 {\n    a(1, \"s\");\n    @l;\n    b({english=\"x\"});\n    Jump(@l);\n}\n"


def _op(off: int, name: str, *params) -> dict:
    return {"offset": off, "opcode": name, "params": list(params)}


# routine sets written by hand (param table + indices, see build_routines)
def _raw_set(name: str, routines: list[list[dict]], table: list) -> dict:
    return {"name": name, "table": table, "routines": [{"type": "GENERIC", "linked_to": 0, "linked_to_name": None, "coro": None, "ops": r} for r in routines]}


# Routine sets that make convert() fall back to SsbScript AFTER a common-vertex lookup stored {edge ids: None} (found by
# enumerating all op lists of length 3 over {op, Branch, Jump, Switch, Case, Return, ctx} and reading the cache afterwards).
# Which of them leaves a residue depends on the repository version, hence several; all leave the key '1,2'.
RAW_FALLBACK_H = _raw_set("fallback-after-branch-lookup", [[_op(0, "BranchDebug", 0, 1), _op(1, "a", 3), _op(2, "BranchDebug", 0, 0)]], [["int", 1], ["int", 0], ["int", 2], ["str", "two\nlines"]])
RAW_FALLBACK_H2 = _raw_set("fallback-after-branch-lookup-b", [[_op(0, "BranchDebug", 0, 1), _op(1, "a"), _op(2, "BranchDebug", 0, 1)]], [["int", 1], ["int", 0]])
RAW_FALLBACK_H3 = _raw_set("fallback-after-branch-lookup-c", [[_op(0, "BranchDebug", 0, 1), _op(1, "BranchDebug", 0, 1), _op(2, "BranchDebug", 0, 0)]], [["int", 1], ["int", 0]])
# no Branch op, one switch whose first lookup has the edge-id string '1,2' and a non-None result
RAW_SWITCH_O = _raw_set("switch-only", [[_op(0, "Jump", 0), _op(1, "Switch", 1), _op(2, "Case", 2, 3), _op(3, "Jump", 4)]], [["int", 1], ["const", "$a"], ["int", 2], ["int", 3], ["int", 0]])
RAW_POOL_SETS = (RAW_FALLBACK_H, RAW_FALLBACK_H2, RAW_SWITCH_O)
RAW_ATTACK_H = (RAW_FALLBACK_H, RAW_FALLBACK_H2, RAW_FALLBACK_H3)


def pool_sources(thorough: bool) -> list[dict]:
    """The compile calls of the pool and the sources whose compiled routines become decompile calls."""
    return [
        {"kind": "compile", "name": "valid-macros", "text": COV["macros"]},
    ] + ([{"kind": "compile", "name": "valid-big", "text": SRC_BIG}] if thorough else []) + [
        {"kind": "compile", "name": "valid-imports", "text": SRC_IMPORT, "files": {"lib.exps": LIB}},
        {"kind": "compile", "name": "parse-error", "text": SRC_PARSE_ERROR},
        {"kind": "compile", "name": "error-in-nested-block", "text": SRC_NESTED_ERROR},
        {"kind": "compile", "name": "error-in-macro", "text": SRC_MACRO_ERROR},
        {"kind": "compile", "name": "ssbscript", "text": SRC_SSBS},
    ]


# Import chains for clause R (reuse of one compiler object): all in ONE directory, so a path that an aborted compile() left
# behind in the compiler object (e.g. on an import stack) is met again by a later compile() of the same object.
_LIB_OK = "macro lib($a) {\n    lib_op($a);\n}\n"
CHAIN_FILES = {
    "lib_ok.exps": _LIB_OK,
    "c_ok.exps": "macro mco() {\n    c_op();\n}\n",
    "c_broken.exps": "macro mc( {\n    c_op();\n}\n",
    "c_routine.exps": "macro mcr() {\n    c_op();\n}\ndef 0 {\n    not_allowed_here();\n}\n",
    "b_ok.exps": 'import "./c_ok.exps";\nmacro mbo() {\n    ~mco();\n    b_op();\n}\n',
    "b_broken.exps": 'import "./c_broken.exps";\nmacro mb() {\n    b_op();\n}\n',
    "b_missing.exps": 'import "./c_ok.exps";\nimport "./nope.exps";\nmacro mbm() {\n    b_op();\n}\n',
    "b_mixed.exps": 'import "./c_ok.exps";\nimport "./c_broken.exps";\nmacro mbx() {\n    b_op();\n}\n',
    "b_routine.exps": 'import "./c_routine.exps";\nmacro mbr() {\n    b_op();\n}\n',
    "b_stray.exps": 'import "./c_ok.exps";\nmacro mbs() {\n    break;\n}\n',
    # four files that define a macro of the same name: the import that comes LAST in the text wins, in every process
    "dup_a.exps": "macro same() {\n    from_a();\n}\nmacro only_a() {\n    a_op();\n}\n",
    "dup_b.exps": "macro same() {\n    from_b();\n}\n",
    "dup_c.exps": "macro same() {\n    from_c();\n}\n",
    "dup_d.exps": "macro same() {\n    from_d();\n}\n",
}


def _chain(name: str, file: str, text: str) -> dict:
    return {"kind": "compile", "name": name, "dir": "chain", "file": file, "files": CHAIN_FILES, "text": text}


def chain_calls() -> list[dict]:
    """compile calls with imports that fail at depth >= 2, texts compiled under the name of a file that is imported by a later
    call, and valid programs importing the files that were on the import chain of a failed call."""
    main = "def 0 {{\n    {0}\n    end;\n}}\n"
    return [
        _chain("chain:a-b-broken_c", "a1.exps", 'import "./b_broken.exps";\n' + main.format("~mb();")),
        _chain("chain:a-b-missing_c", "a2.exps", 'import "./b_missing.exps";\n' + main.format("~mbm();")),
        _chain("chain:a-b-ok_c_then_broken_c", "a3.exps", 'import "./b_mixed.exps";\n' + main.format("~mbx();")),
        _chain("chain:a-b-routine_in_c", "a4.exps", 'import "./b_routine.exps";\n' + main.format("~mbr();")),
        _chain("chain:a-b-compile-error-in-b", "a5.exps", 'import "./lib_ok.exps";\nimport "./b_stray.exps";\n' + main.format("~lib(1);")),
        _chain("chain:valid-imports-b_ok", "a6.exps", 'import "./b_ok.exps";\n' + main.format("~mbo();")),
        _chain("chain:valid-imports-c_ok-lib_ok", "a7.exps", 'import "./c_ok.exps";\nimport "./lib_ok.exps";\n' + main.format("~mco();\n    ~lib(2);")),
        _chain("chain:valid-same-file-name-as-a1", "a1.exps", 'import "./b_ok.exps";\n' + main.format("~mbo();")),
        _chain("chain:same-macro-name-in-four-imports", "a8.exps", 'import "./dup_c.exps";\nimport "./dup_a.exps";\nimport "./dup_d.exps";\nimport "./dup_b.exps";\n' + main.format("~same();\n    ~only_a();")),
        _chain("chain:same-macro-name-in-four-imports-other-order", "a9.exps", 'import "./dup_b.exps";\nimport "./dup_d.exps";\nimport "./dup_a.exps";\nimport "./dup_c.exps";\n' + main.format("~same();")),
        # a text that fails midway, compiled under the NAME of a file that later calls import
        _chain("chain:broken-text-under-name-lib_ok", "lib_ok.exps", 'import "./c_broken.exps";\n' + _LIB_OK),
        _chain("chain:broken-text-under-name-b_ok", "b_ok.exps", 'import "./c_ok.exps";\nimport "./c_broken.exps";\nmacro mbo() {\n    b_op();\n}\n'),
        _chain("chain:broken-text-under-name-c_ok", "c_ok.exps", 'import "./b_broken.exps";\nmacro mco() {\n    c_op();\n}\n'),
    ]


DECOMPILE_FROM = [("switch-forms", COV["switch-forms"]), ("strings", SRC_STRINGS), ("big", SRC_BIG)]


# ---------------------------------------------------------------------------------------------------------------------
# worker side
# ---------------------------------------------------------------------------------------------------------------------
_S: dict = {}


def _setup(root: str) -> None:
    """root: directory all processes use for the (fixed) file names of compile calls."""
    if _S.get("root") == root:
        return
    import logging
    import warnings

    logging.disable(logging.CRITICAL)
    warnings.simplefilter("ignore")
    _S["root"] = root
    _S["devnull"] = open(os.devnull, "w")


def _param_desc(p) -> list:
    from spec.machine import param_key

    k = param_key(p)
    if k[0] == "lang":
        return ["lang", [list(kv) for kv in p.strings.items()]]  # keep insertion order: it is printed in that order
    return list(k)


def _param_obj(d: list):
    from explorerscript.ssb_converting import ssb_data_types as T

    k = d[0]
    if k == "int":
        return int(d[1])
    if k == "fixed":
        o = T.SsbOpParamFixedPoint(0, "0")
        o.value = d[1]
        return o
    if k == "const":
        return T.SsbOpParamConstant(d[1])
    if k == "str":
        return T.SsbOpParamConstString(d[1])
    if k == "lang":
        return T.SsbOpParamLanguageString({a: b for a, b in d[1]})
    if k == "pos":
        return T.SsbOpParamPositionMarker(d[1], d[2], d[3], d[4], d[5])
    raise ValueError(d)


def describe_routines(routine_ops, routine_infos, named) -> dict:
    """JSON description of a compiler result that keeps the sharing of parameter objects between ops."""
    table: list = []
    index: dict[int, int] = {}
    routines = []
    for ri, ops in enumerate(routine_ops):
        info = routine_infos[ri]
        rops = []
        for op in ops:
            ps = []
            for p in op.params:
                if id(p) not in index or isinstance(p, int):
                    index[id(p)] = len(table)
                    table.append(_param_desc(p))
                ps.append(index[id(p)])
            rops.append({"offset": op.offset, "opcode": op.op_code.name, "params": ps})
        routines.append(
            {
                "type": info.type.name,
                "linked_to": info.linked_to,
                "linked_to_name": info.linked_to_name,
                "coro": named[ri] if info.type.name == "COROUTINE" else None,
                "ops": rops,
            }
        )
    return {"table": table, "routines": routines}


def build_routines(desc: dict):
    """Fresh objects for a routine-set description: (infos, ops, coroutines)."""
    from explorerscript.ssb_converting import ssb_data_types as T

    objs = [_param_obj(d) for d in desc["table"]]
    infos, rops, coros = [], [], []
    for ri, r in enumerate(desc["routines"]):
        infos.append(T.SsbRoutineInfo(T.SsbRoutineType[r["type"]], r["linked_to"], r["linked_to_name"]))
        rops.append([T.SsbOperation(o["offset"], T.SsbOpCode(-1, o["opcode"]), [objs[i] for i in o["params"]]) for o in r["ops"]])
        if r["coro"] is not None:
            coros.append(T.SsbCoroutine(ri, r["coro"]))
    return infos, rops, coros


def snapshot(rops) -> list:
    from spec.machine import param_key

    return [[[op.offset, op.op_code.name, op.op_code.id, [list(map(_j, param_key(p))) for p in op.params]] for op in r] for r in rops]


def _j(x):
    return list(map(_j, x)) if isinstance(x, tuple) else x


def _exc_bytes(e: BaseException) -> dict:
    return {"raise": type(e).__name__, "msg": str(e).replace(_S.get("root", "\0"), "<root>")}


def canon_compile(comp) -> dict:
    return {
        "ops": snapshot(comp.routine_ops),
        "infos": [None if i is None else [i.type.name, i.linked_to, i.linked_to_name] for i in comp.routine_infos],
        "coros": [c if isinstance(c, str) else repr(c) for c in comp.named_coroutines],
        "source_map": comp.source_map.serialize(),
    }


def do_call(call: dict, compiler=None, keep: dict | None = None) -> bytes:
    """Execute one call of the pool; canonical bytes of its result."""
    root = _S["root"]
    kind = call["kind"]
    old = sys.stderr
    sys.stderr = _S["devnull"]
    try:
        if kind == "compile":
            from explorerscript.ssb_converting.ssb_compiler import ExplorerScriptSsbCompiler

            d = os.path.join(root, "c-" + call.get("dir", call["name"]))
            if not os.path.isdir(d):
                tmp = tempfile.mkdtemp(prefix="mk-", dir=root)
                for rel, content in call.get("files", {}).items():
                    with open(os.path.join(tmp, rel), "w", encoding="utf-8") as fh:
                        fh.write(content)
                try:
                    os.rename(tmp, d)  # atomic: several fresh processes may want the same directory
                except OSError:
                    shutil.rmtree(tmp, ignore_errors=True)
            comp = compiler or ExplorerScriptSsbCompiler(call.get("ppl", PPL), [])
            try:
                comp.compile(call["text"], os.path.join(d, call.get("file", "main.exps")))
                res = canon_compile(comp)
            except Exception as e:  # noqa: BLE001
                res = _exc_bytes(e)
        else:
            from explorerscript.ssb_converting.ssb_data_types import DungeonModeConstants
            from explorerscript.ssb_converting.ssb_decompiler import ExplorerScriptSsbDecompiler
            from explorerscript.ssb_script.ssb_converting.ssb_decompiler import SsbScriptSsbDecompiler

            infos, rops, coros = build_routines(call["routines"])
            if keep is not None:
                keep["objs"] = (infos, rops, coros)
            try:
                if kind == "decompile":
                    dec = ExplorerScriptSsbDecompiler(infos, rops, coros, call.get("ppl", PPL), DungeonModeConstants(*DM))
                else:
                    dec = SsbScriptSsbDecompiler(infos, rops, coros)
                if keep is not None:
                    keep["dec"] = dec
                text, sm = dec.convert()
                res = {"text": text, "source_map": sm.serialize()}
            except Exception as e:  # noqa: BLE001
                res = _exc_bytes(e)
    finally:
        sys.stderr = old
    return json.dumps(res, sort_keys=True, ensure_ascii=True).encode()


def task_build_pool(args) -> list[dict]:
    """Runs in a fresh process: compile the DECOMPILE_FROM sources and describe their routines."""
    root, thorough = args
    _setup(root)
    from explorerscript.ssb_converting.ssb_compiler import ExplorerScriptSsbCompiler

    pool = pool_sources(thorough)
    for name, src in DECOMPILE_FROM:
        if name == "big" and not thorough:
            continue
        comp = ExplorerScriptSsbCompiler(PPL, [])
        comp.compile(src, os.path.join(root, "pool-" + name + ".exps"))
        desc = describe_routines(comp.routine_ops, comp.routine_infos, comp.named_coroutines)
        pool.append({"kind": "decompile", "name": "compiled-" + name, "routines": desc})
        if name == "strings":
            pool.append({"kind": "decompile-ssbscript", "name": "ssbscript-of-" + name, "routines": desc})
    for raw in RAW_POOL_SETS:
        pool.append({"kind": "decompile", "name": raw["name"], "routines": {"table": raw["table"], "routines": raw["routines"]}})
    return pool


def task_baseline(args) -> tuple[str, str]:
    """Fresh process: one call alone. Returns (digest, bytes as text)."""
    root, call = args
    _setup(root)
    b = do_call(call)
    return hashlib.sha1(b).hexdigest(), b.decode()


def task_sequence(args) -> dict:
    """Fresh process: run calls[seq[0]], calls[seq[1]], ...; report every call whose bytes differ from its baseline."""
    root, pool, seq, baseline, start = args
    _setup(root)
    bad = []
    for pos, ci in enumerate(seq):
        b = do_call(pool[ci])
        if hashlib.sha1(b).hexdigest() != baseline[ci]:
            bad.append({"pos": start + pos, "call": ci, "before": list(seq[max(0, pos - 8) : pos]), "got": b.decode()[:4000]})
            if len(bad) >= 40:
                break
        if pos % 20 == 0:
            gc.collect()  # make id() recycling likely: results of earlier calls are dropped and collected
    return {"n": len(seq), "bad": bad}


def task_run_words(args) -> list[str]:
    """Fresh process: a list of call descriptors in order; digests of all results (used for minimisation and replay)."""
    root, calls = args
    _setup(root)
    out = []
    for c in calls:
        out.append(hashlib.sha1(do_call(c)).hexdigest())
        gc.collect()
    return out


def task_reuse(args) -> list[dict]:
    """R: one compiler instance for several files."""
    root, calls, baseline, orders = args
    _setup(root)
    from explorerscript.ssb_converting.ssb_compiler import ExplorerScriptSsbCompiler

    bad = []
    for order in orders:
        comp = ExplorerScriptSsbCompiler(PPL, [])
        for k, ci in enumerate(order):
            b = do_call(calls[ci], compiler=comp)
            if hashlib.sha1(b).hexdigest() != baseline[ci]:
                bad.append({"order": list(order[: k + 1]), "call": ci, "got": b.decode()[:2000]})
    return bad


def _convert_again(kind: str, infos, rops, coros):
    from explorerscript.ssb_converting.ssb_data_types import DungeonModeConstants
    from explorerscript.ssb_converting.ssb_decompiler import ExplorerScriptSsbDecompiler
    from explorerscript.ssb_script.ssb_converting.ssb_decompiler import SsbScriptSsbDecompiler

    if kind == "decompile":
        return ExplorerScriptSsbDecompiler(infos, rops, coros, PPL, DungeonModeConstants(*DM))
    return SsbScriptSsbDecompiler(infos, rops, coros)


def _res_bytes(fn) -> bytes:
    old = sys.stderr
    sys.stderr = _S["devnull"]
    try:
        try:
            text, sm = fn()
            res = {"text": text, "source_map": sm.serialize()}
        except Exception as e:  # noqa: BLE001
            res = _exc_bytes(e)
    finally:
        sys.stderr = old
    return json.dumps(res, sort_keys=True, ensure_ascii=True).encode()


def task_twice_and_frame(args) -> list[dict]:
    """T and F on a list of decompile calls (objects built once per call)."""
    root, calls = args
    _setup(root)
    from spec.machine import MalformedRoutines, machine

    out = []
    for call in calls:
        keep: dict = {}
        rec = {"name": call["name"], "kind": call["kind"], "problems": []}
        infos, rops, coros = build_routines(call["routines"])
        before = snapshot(rops)
        lens_before = [len(r) for r in rops]
        try:
            m_before = machine(rops, "table")
        except (MalformedRoutines, Exception) as e:  # noqa: BLE001
            m_before = ("malformed", type(e).__name__)
        dec1 = _convert_again(call["kind"], infos, rops, coros)
        first = _res_bytes(dec1.convert)
        after = snapshot(rops)
        try:
            m_after = machine(rops, "table")
        except (MalformedRoutines, Exception) as e:  # noqa: BLE001
            m_after = ("malformed", type(e).__name__)
        if before != after or lens_before != [len(r) for r in rops]:
            diff = next(((ri, oi, a, b) for ri, (ra, rb) in enumerate(zip(before, after)) for oi, (a, b) in enumerate(zip(ra, rb)) if a != b), None)
            rec["problems"].append({"clause": "F", "symptom": "params-or-ops-changed", "detail": repr(diff)[:500]})
        elif m_before != m_after:
            rec["problems"].append({"clause": "F", "symptom": "machine-changed", "detail": ""})
        # T(ii): a second instance over the same objects
        second = _res_bytes(_convert_again(call["kind"], infos, rops, coros).convert)
        if second != first:
            rec["problems"].append({"clause": "T", "symptom": "second-instance-same-objects-differs", "detail": _first_diff(first, second)})
        # T(i): the same instance again
        third = _res_bytes(dec1.convert)
        if third != first:
            rec["problems"].append({"clause": "T", "symptom": "second-convert-on-same-instance-differs", "detail": _first_diff(first, third)})
        rec["first_is_exception"] = b'"raise"' in first[:12]
        out.append(rec)
    return out


def _first_diff(a: bytes, b: bytes) -> str:
    sa, sb = a.decode(), b.decode()
    i = next((k for k in range(min(len(sa), len(sb))) if sa[k] != sb[k]), min(len(sa), len(sb)))
    return f"first difference at byte {i}: {sa[max(0, i - 60) : i + 60]!r} vs {sb[max(0, i - 60) : i + 60]!r}"


def task_indent(root: str) -> list[dict]:
    """I: a shared string parameter object printed at two indents."""
    _setup(root)
    from explorerscript.ssb_converting import ssb_data_types as T

    out = []

    def conv(kind, infos, rops, coros):
        return _res_bytes(_convert_again(kind, infos, rops, coros).convert)

    def gen(n):
        return [T.SsbRoutineInfo(T.SsbRoutineType.GENERIC, 0) for _ in range(n)]

    def op(off, name, *ps):
        return T.SsbOperation(off, T.SsbOpCode(-1, name), list(ps))

    C = T.SsbOpParamConstant
    for kind_name, mk in (("const-string", lambda: T.SsbOpParamConstString("l1\nl2")), ("lang-string", lambda: T.SsbOpParamLanguageString({"english": "l1\nl2"}))):
        # (1) one routine set, the object reachable from two ops (as the compiler's macro substitution produces):
        #     a site that does not set the indent (flag_Set) first, then a nested site that sets it
        def set1(p_top, p_nested):
            return [[op(0, "flag_Set", C("$X"), p_top), op(1, "BranchDebug", 1, 3), op(2, "Return"), op(3, "talk", p_nested), op(4, "Return")]]

        shared = mk()
        rops = set1(shared, shared)
        a = conv("decompile", gen(1), rops, [])
        b = conv("decompile", gen(1), rops, [])
        fresh = conv("decompile", gen(1), set1(mk(), mk()), [])
        if a != b:
            out.append({"case": f"shared-object-in-one-set:{kind_name}", "symptom": "second-decompile-of-same-objects-differs", "detail": _first_diff(a, b)})
        if a != fresh:
            out.append({"case": f"shared-object-in-one-set:{kind_name}", "symptom": "differs-from-unshared-equal-values", "detail": _first_diff(fresh, a)})
        # (2) two routine sets sharing the object: A prints it nested, then B prints it at a site that keeps the stale indent
        p = mk()
        set_a = [[op(0, "BranchDebug", 1, 2), op(1, "Return"), op(2, "talk", p), op(3, "Return")]]
        set_b = lambda q: [[op(0, "flag_Set", C("$X"), q), op(1, "Return")]]  # noqa: E731
        alone = conv("decompile", gen(1), set_b(mk()), [])
        conv("decompile", gen(1), set_a, [])
        after = conv("decompile", gen(1), set_b(p), [])
        if alone != after:
            out.append({"case": f"object-reused-in-second-set:{kind_name}", "symptom": "output-depends-on-earlier-print", "detail": _first_diff(alone, after)})
        # (3) the string is a parameter of a JUMPING op (an operation used as if-condition, a case menu): the decompilers see such ops
        #     wrapped into label jumps; the SsbScript view printed first (where strings are indented differently), then ExplorerScript
        for jname, jparams in (("BranchExecuteSub", lambda q: [q, 3]), ("CaseMenu", lambda q: [q, 3])):
            def set3(q, jname=jname, jparams=jparams):
                body = [op(1, jname, *jparams(q)), op(2, "Return"), op(3, "talk", 1), op(4, "Return")]
                if jname == "CaseMenu":
                    return [[op(0, "message_SwitchMenu", 0, 0)] + body]
                return [[op(0, "pre", 0)] + body]

            alone = conv("decompile", gen(1), set3(mk()), [])
            objs = set3(mk())
            conv("decompile-ssbscript", gen(1), objs, [])
            after = conv("decompile", gen(1), objs, [])
            if alone != after:
                out.append({"case": f"string-of-jumping-op-{jname}-after-ssbscript-view:{kind_name}", "symptom": "output-depends-on-earlier-print", "detail": _first_diff(alone, after)})
    out.append({"case": "evaluated", "symptom": "", "detail": "10"})
    return out


def task_cache_attack(args) -> dict:
    """G: leave stale entries in the id(graph)-keyed cache, recycle ids, decompile a routine set with the same edge ids."""
    root, h_call, o_call, n_h, n_o = args
    _setup(root)
    from explorerscript.ssb_converting.decompiler.graph_building import graph_utils as GU

    clean = do_call(o_call)
    GU.find_first_common_next_vertex_in_edges_cache.clear()  # monitor only: start the experiment from an empty cache
    for _ in range(n_h):
        do_call(h_call)
        gc.collect()
    cache = GU.find_first_common_next_vertex_in_edges_cache
    stale = {k: {kk: ("None" if vv is None else "edges") for kk, vv in v.items()} for k, v in cache.items() if v}
    res = {"n_h": n_h, "stale_entries_after_history": len(stale), "stale_keys": sorted({kk for v in stale.values() for kk in v}), "hit_at": None}
    for i in range(n_o):
        b = do_call(o_call)
        if b != clean:
            res["hit_at"] = i
            res["clean"] = clean.decode()[:1500]
            res["got"] = b.decode()[:1500]
            break
        gc.collect()
    res["cache_size_end"] = len(cache)
    return res


GEN_PPL = "PERFORMANCE_PROGRESS_LIST"  # the variable name gen/programs.py uses
CALL_TIMEOUT_S = 20


class _CallTimeout(BaseException):
    pass


def _alarm(*_a):
    raise _CallTimeout()


def task_order_compile(args) -> list[dict]:
    """Fresh process: compile (name, text, ppl) programs; returns decompile call descriptors for those that compile."""
    import signal

    root, progs = args
    _setup(root)
    from explorerscript.ssb_converting.ssb_compiler import ExplorerScriptSsbCompiler

    signal.signal(signal.SIGALRM, _alarm)
    out = []
    for name, text, ppl in progs:
        comp = ExplorerScriptSsbCompiler(ppl, [])
        signal.alarm(CALL_TIMEOUT_S)
        try:
            old = sys.stderr
            sys.stderr = _S["devnull"]
            try:
                comp.compile(text, os.path.join(root, "order.exps"))
            finally:
                sys.stderr = old
                signal.alarm(0)
        except (_CallTimeout, Exception):  # noqa: BLE001 - not this clause's business
            continue
        if any(i is None for i in comp.routine_infos) or not any(comp.routine_ops):
            continue
        call = {"kind": "decompile", "name": name, "ppl": ppl, "routines": describe_routines(comp.routine_ops, comp.routine_infos, comp.named_coroutines)}
        if _probe_fast(call):
            out.append(call)
        else:
            out.append({"kind": "excluded-slow", "name": name})
    return out


PROBE_S = 3.0


def _probe_fast(call: dict) -> bool:
    """Trial decompilation in a forked child that is killed after PROBE_S seconds.  Some routine sets keep the decompiler busy
    for minutes inside one igraph call (a SIGALRM handler cannot interrupt that); they would stall every order run."""
    import time

    pid = os.fork()
    if pid == 0:
        try:
            do_call(call)
        finally:
            os._exit(0)
    t0 = time.time()
    while time.time() - t0 < PROBE_S:
        done, _st = os.waitpid(pid, os.WNOHANG)
        if done:
            return True
        time.sleep(0.002)
    os.kill(pid, 9)
    os.waitpid(pid, 0)
    return False


def task_order_run(args) -> list[str]:
    """Fresh process: the calls in the given order; digest per call, returned in the ORIGINAL index order."""
    import signal

    root, calls, order = args
    _setup(root)
    signal.signal(signal.SIGALRM, _alarm)
    digs = [""] * len(calls)
    for n, i in enumerate(order):
        signal.alarm(CALL_TIMEOUT_S)
        try:
            try:
                digs[i] = hashlib.sha1(do_call(calls[i])).hexdigest()
            finally:
                signal.alarm(0)
        except _CallTimeout:
            digs[i] = "timeout"
        if n % 50 == 0:
            gc.collect()
    return digs


def order_programs(seed: int, thorough: bool) -> tuple[list[tuple[str, str, str]], str]:
    """(name, text, ppl) of the programs whose compiled routines form the large decompile pool; and where they come from."""
    progs: list[tuple[str, str, str]] = []
    src = "props.C10.valid_corpus"
    try:
        from gen import programs as GP

        per_family = 400 if thorough else 45
        for fam in GP.space("thorough" if thorough else "quick"):
            n = len(fam)
            step = max(1, n // per_family)
            for i in range((seed * 7) % step, n, step):
                pr = fam[i]
                if pr is not None:
                    progs.append((f"gen:{fam.name}:{i}", GP.to_text(pr), GEN_PPL))
        for i, pr in enumerate(GP.random_programs(seed, 1200 if thorough else 200, 40)):
            progs.append((f"gen:random:{i}", GP.to_text(pr), GEN_PPL))
        src = "gen/programs.py (stride sample of every exhaustive family + seeded random programs) + props.C10.valid_corpus"
    except Exception:  # noqa: BLE001 - optional source
        pass
    for name, text in valid_corpus(seed + 11, 600 if thorough else (100 if progs else 500), size=4):
        progs.append(("corpus:" + name, text, PPL))
    return progs, src


# ---------------------------------------------------------------------------------------------------------------------
# S: static frame audit (AST scan of the package, generated antlr files excluded)
# ---------------------------------------------------------------------------------------------------------------------
_MUTATING = {"append", "extend", "insert", "pop", "remove", "clear", "update", "add", "discard", "setdefault", "popitem", "sort", "reverse", "appendleft", "popleft"}
_CONTAINER_CALLS = {"list", "dict", "set", "defaultdict", "OrderedDict", "deque", "Counter" + "__never__"}
_IMMUTABLE_CALLS = {"frozenset", "tuple", "str", "int", "float", "bool", "bytes", "TypeVar", "NewType", "namedtuple", "getLogger", "compile", "Lock", "RLock", "object", "cast", "auto", "Path", "PurePath", "PurePosixPath"}  # fmt: skip

# (kind, module, name) -> (reason, machine-checked condition or None)
#   'never-mutated'  : no function of the package calls a mutating method on / stores into a binding of that name
#   'shadowed'       : the class's __init__ assigns self.<name> (the class-level object is never the one that is used)
AUDITED: dict[tuple[str, str, str], tuple[str, str | None]] = {
    ("module-level", "explorerscript.ssb_converting.decompiler.graph_building.graph_utils", "find_first_common_next_vertex_in_edges_cache"): (
        "memo keyed by id(graph): every lookup sequence for a graph starts with find_first_common_next_vertex_in_edges__clear_cache(g) "
        "(graph_minimizer.py: before each branch lookup, before each switch lookup, at the start of build_loops/remove_label_markers), "
        "so an entry of an earlier graph is never read; not dischargeable statically -> rests on clauses H, O and G of this check",
        None,
    ),
    ("module-level", "explorerscript.cli.decompile", "counter"): (
        "op counter of the decompile COMMAND; one process per command run; read_routines is not a documented interface (recorded under coverage.cli_decompile_counter)",
        None,
    ),
    ("class-level", "explorerscript.ssb_converting.ssb_decompiler", "ExplorerScriptSsbDecompiler.labels_already_printed"): ("class-level default, replaced per instance in __init__ and again at the start of convert()", "shadowed"),
    ("class-level", "explorerscript.ssb_converting.ssb_decompiler", "ExplorerScriptSsbDecompiler.forever_start_handler_stack"): ("class-level default, replaced per instance in __init__", "shadowed"),
    ("class-level", "explorerscript.ssb_converting.decompiler.write_handlers.label_jump", "LabelJumpWriteHandler._label_jump_marker_handlers"): ("dispatch table marker type -> handler class, only read", "never-mutated"),
    ("class-level", "explorerscript.ssb_converting.decompiler.write_handlers.simple_op", "SimpleOperationWriteHandler._ssb_operations_special_cases_handlers"): ("dispatch table op name -> handler class, only read", "never-mutated"),
    ("class-level", "explorerscript.pygments.expslexer", "ExplorerScriptLexer.aliases"): ("pygments lexer metadata, only read by pygments", "never-mutated"),
    ("class-level", "explorerscript.pygments.expslexer", "ExplorerScriptLexer.filenames"): ("pygments lexer metadata, only read by pygments", "never-mutated"),
    ("class-level", "explorerscript.pygments.expslexer", "ExplorerScriptLexer.tokens"): ("pygments token table, compiled once by the RegexLexer metaclass, only read afterwards", "never-mutated"),
}


def static_audit(pkg_parent: str) -> dict:
    """Scan <pkg_parent>/explorerscript.  Returns {'hits': [...], 'unaudited': [...], 'failed_conditions': [...], 'auto_discharged': n}."""
    import ast

    def callee(n: ast.Call) -> str:
        f = n.func
        return f.attr if isinstance(f, ast.Attribute) else (f.id if isinstance(f, ast.Name) else "?")

    def mutable_value(v) -> str | None:
        if isinstance(v, (ast.List, ast.Dict, ast.Set, ast.ListComp, ast.DictComp, ast.SetComp)):
            return "container"
        if isinstance(v, ast.Call):
            c = callee(v)
            if c in ("list", "dict", "set", "defaultdict", "OrderedDict", "deque"):
                return "container"
            if c not in _IMMUTABLE_CALLS:
                return "object:" + c
        return None

    trees: dict[str, ast.Module] = {}
    base = os.path.join(pkg_parent, "explorerscript")
    for dp, dn, fn in sorted(os.walk(base)):
        if os.sep + "antlr" in dp + os.sep or dp.endswith(os.sep + "antlr"):
            continue
        for f in sorted(fn):
            if f.endswith(".py"):
                path = os.path.join(dp, f)
                mod = os.path.relpath(path, pkg_parent)[:-3].replace(os.sep, ".")
                if mod.endswith(".__init__"):
                    mod = mod[: -len(".__init__")]
                with open(path, encoding="utf-8") as fh:
                    trees[mod] = ast.parse(fh.read())

    def base_name(x) -> str | None:
        while isinstance(x, ast.Subscript):
            x = x.value
        if isinstance(x, ast.Name):
            return x.id
        if isinstance(x, ast.Attribute):
            return x.attr
        return None

    mutated: set[str] = set()
    hits: list[tuple[str, str, str, str]] = []
    init_assigns: dict[tuple[str, str], set[str]] = {}
    for mod, t in trees.items():
        for fn_ in ast.walk(t):
            if isinstance(fn_, (ast.FunctionDef, ast.AsyncFunctionDef)):
                for n in ast.walk(fn_):
                    if isinstance(n, ast.Call) and isinstance(n.func, ast.Attribute) and n.func.attr in _MUTATING:
                        b = base_name(n.func.value)
                        if b:
                            mutated.add(b)
                    elif isinstance(n, (ast.Assign, ast.Delete)):
                        for x in n.targets:
                            if isinstance(x, ast.Subscript) and base_name(x):
                                mutated.add(base_name(x))
                    elif isinstance(n, (ast.AugAssign, ast.AnnAssign)):
                        x = n.target
                        if isinstance(x, ast.Subscript) and base_name(x):
                            mutated.add(base_name(x))
                        elif isinstance(n, ast.AugAssign) and isinstance(x, ast.Name):
                            mutated.add(x.id)
                    elif isinstance(n, ast.Global):
                        for nm in n.names:
                            hits.append(("global", mod, f"{fn_.name}.{nm}", "global statement"))
                            mutated.add(nm)
        for c in ast.walk(t):
            if isinstance(c, ast.ClassDef):
                for m in c.body:
                    if isinstance(m, ast.FunctionDef) and m.name == "__init__":
                        for n in ast.walk(m):
                            if isinstance(n, (ast.Assign, ast.AnnAssign)):
                                for x in n.targets if isinstance(n, ast.Assign) else [n.target]:
                                    if isinstance(x, ast.Attribute) and isinstance(x.value, ast.Name) and x.value.id == "self":
                                        init_assigns.setdefault((mod, c.name), set()).add(x.attr)
    auto = 0
    for mod, t in trees.items():
        for n in t.body:
            if isinstance(n, (ast.Assign, ast.AnnAssign)) and getattr(n, "value", None) is not None:
                mv = mutable_value(n.value)
                for x in n.targets if isinstance(n, ast.Assign) else [n.target]:
                    if isinstance(x, ast.Name) and mv:
                        if mv == "container" and x.id not in mutated:
                            auto += 1  # a constant table: never written after import
                        else:
                            hits.append(("module-level", mod, x.id, mv))
        for c in ast.walk(t):
            if isinstance(c, ast.ClassDef):
                is_enum = any((isinstance(b, ast.Name) and b.id.endswith("Enum")) or (isinstance(b, ast.Attribute) and b.attr.endswith("Enum")) for b in c.bases)
                for n in c.body:
                    if isinstance(n, (ast.Assign, ast.AnnAssign)) and getattr(n, "value", None) is not None and not is_enum:
                        mv = mutable_value(n.value)
                        for x in n.targets if isinstance(n, ast.Assign) else [n.target]:
                            if isinstance(x, ast.Name) and mv:
                                if mv == "container" and x.id not in mutated and AUDITED.get(("class-level", mod, f"{c.name}.{x.id}")) is None:
                                    auto += 1  # a constant table on the class: no function of the package writes a binding of that name
                                else:
                                    hits.append(("class-level", mod, f"{c.name}.{x.id}", mv))
            if isinstance(c, (ast.FunctionDef, ast.AsyncFunctionDef, ast.Lambda)):
                a = c.args
                pos = a.posonlyargs + a.args
                pairs = list(zip(pos[len(pos) - len(a.defaults) :], a.defaults)) + [(k, d) for k, d in zip(a.kwonlyargs, a.kw_defaults) if d is not None]
                for arg, d in pairs:
                    mv = mutable_value(d)
                    if mv:
                        if mv == "container" and arg.arg not in mutated and AUDITED.get(("mutable-default", mod, f"{getattr(c, 'name', '<lambda>')}.{arg.arg}")) is None:
                            auto += 1  # never written through that name anywhere in the package
                        else:
                            hits.append(("mutable-default", mod, f"{getattr(c, 'name', '<lambda>')}.{arg.arg}", mv))
    unaudited, failed = [], []
    for kind, mod, name, what in hits:
        entry = AUDITED.get((kind, mod, name))
        if entry is None:
            unaudited.append([kind, mod, name, what])
            continue
        cond = entry[1]
        attr = name.split(".")[-1]
        if cond == "never-mutated" and attr in mutated:
            failed.append([kind, mod, name, "audited as never mutated, but a function of the package mutates a binding of that name"])
        if cond == "shadowed" and attr not in init_assigns.get((mod, name.split(".")[0]), set()):
            failed.append([kind, mod, name, "audited as shadowed in __init__, but __init__ does not assign self." + attr])
    hit_keys = {(k, m, n) for k, m, n, _ in hits}
    return {
        "modules": len(trees),
        "hits": [list(h) for h in hits],
        "unaudited": unaudited,
        "failed_conditions": failed,
        "auto_discharged": auto,
        "stale_allowlist_entries": [list(k) for k in AUDITED if k not in hit_keys],
    }


def task_cli_counter(root: str) -> dict:
    """Observation (not a contract of C11, see run()): cli.decompile.read_routines twice in one process."""
    _setup(root)
    from explorerscript.cli import decompile as D

    doc = [{"type": "GENERIC", "ops": [{"opcode": "a", "params": []}, {"opcode": "Jump", "params": [1]}]}]
    first = [[o.offset for o in r] for r in D.read_routines(doc)[2]]
    second = [[o.offset for o in r] for r in D.read_routines(doc)[2]]
    return {"first_offsets": first, "second_offsets": second, "same": first == second}


# ---------------------------------------------------------------------------------------------------------------------
# parent side
# ---------------------------------------------------------------------------------------------------------------------
def de_bruijn(k: int, n: int) -> list[int]:
    """de Bruijn sequence B(k, n) (Lyndon word concatenation); cyclic: append the first n-1 symbols to make it linear."""
    a = [0] * (k * n)
    seq: list[int] = []

    def db(t: int, p: int) -> None:
        if t > n:
            if n % p == 0:
                seq.extend(a[1 : p + 1])
        else:
            a[t] = a[t - p]
            db(t + 1, p)
            for j in range(a[t - p] + 1, k):
                a[t] = j
                db(t + 1, t)

    sys.setrecursionlimit(max(10000, sys.getrecursionlimit()))
    db(1, 1)
    return seq + seq[: n - 1]


def _fresh_runner(fn, arg, conn) -> None:
    try:
        conn.send((True, fn(arg)))
    except BaseException:  # noqa: BLE001 - reported to the parent, which re-raises (checker crash, exit 3)
        import traceback

        conn.send((False, traceback.format_exc()))
    finally:
        conn.close()


class _Async:
    def __init__(self, owner: "FreshProcesses", tasks: list, single: bool):
        self.owner, self.tasks, self.single = owner, tasks, single

    def get(self):
        self.owner.wait(self.tasks)
        out = [t["result"] for t in self.tasks]
        return out[0] if self.single else out


class FreshProcesses:
    """Runs every task in a process of its own (spawn), at most n at a time.  multiprocessing.Pool(maxtasksperchild=1) was
    observed to dead-lock with ~100 queued tasks (all workers idle, parent waiting), and it never notices a worker that died;
    this scheduler is pumped from get()/apply()/map() and turns a dead worker into an exception."""

    def __init__(self, mp, n: int):
        from collections import deque

        self.mp, self.n = mp, n
        self.queue: "deque[dict]" = deque()
        self.running: dict = {}

    def __enter__(self) -> "FreshProcesses":
        return self

    def __exit__(self, *exc) -> None:
        for conn, (proc, _t) in list(self.running.items()):
            proc.terminate()
            proc.join()
            conn.close()
        self.running.clear()
        self.queue.clear()

    def _start_more(self) -> None:
        while self.queue and len(self.running) < self.n:
            t = self.queue.popleft()
            recv, send = self.mp.Pipe(False)
            proc = self.mp.Process(target=_fresh_runner, args=(t["fn"], t["arg"], send))
            proc.start()
            send.close()
            self.running[recv] = (proc, t)

    def _pump(self, timeout: float) -> None:
        from multiprocessing.connection import wait

        self._start_more()
        if not self.running:
            return
        for conn in wait(list(self.running), timeout):
            proc, t = self.running.pop(conn)
            try:
                ok, val = conn.recv()
            except (EOFError, OSError):
                ok, val = False, f"worker process for {t['fn'].__name__} died without a result (exit code {proc.exitcode})"
            conn.close()
            proc.join()
            t["done"], t["ok"], t["result"] = True, ok, val
        self._start_more()

    def wait(self, tasks: list) -> None:
        while not all(t["done"] for t in tasks):
            self._pump(1.0)
        for t in tasks:
            if not t["ok"]:
                raise RuntimeError(f"task {t['fn'].__name__} failed in its worker process:\n{t['result']}")

    def _submit(self, fn, arg) -> dict:
        t = {"fn": fn, "arg": arg, "done": False, "ok": None, "result": None}
        self.queue.append(t)
        self._pump(0)
        return t

    def apply_async(self, fn, args: tuple) -> _Async:
        return _Async(self, [self._submit(fn, args[0])], True)

    def map_async(self, fn, items, chunksize: int = 1) -> _Async:
        return _Async(self, [self._submit(fn, x) for x in items], False)

    def apply(self, fn, args: tuple):
        return self.apply_async(fn, args).get()

    def map(self, fn, items, chunksize: int = 1) -> list:
        return self.map_async(fn, items).get()


def _minimise(mp_pool, root, pool, baseline, bad: dict) -> tuple[list[int], bool]:
    """A short history (subsequence of the calls before `bad`) that reproduces the difference in a fresh process.
    Round 1: every suffix of the recorded calls (in parallel); round 2: every 1- and 2-element subsequence of the shortest
    reproducing suffix.  Each candidate runs in its own fresh process."""
    before = bad["before"]
    ci = bad["call"]

    def trial(cands: list[list[int]]) -> list[bool]:
        digs = mp_pool.map(task_run_words, [(root, [pool[i] for i in h + [ci]]) for h in cands], chunksize=1)
        return [d[-1] != baseline[ci] for d in digs]

    sufs = [before[len(before) - k :] if k else [] for k in range(len(before) + 1)]
    ok = trial(sufs)
    best = next((h for h, o in zip(sufs, ok) if o), None)
    if best is None:
        return before, False
    # greedy one-at-a-time removal, all candidates of a round in parallel
    while len(best) > 1:
        cands = [best[:i] + best[i + 1 :] for i in range(len(best))]
        ok2 = trial(cands)
        nxt = next((h for h, o in zip(cands, ok2) if o), None)
        if nxt is None:
            break
        best = nxt
    return best, True


def _minimise_order(fresh, root: str, calls: list, before: list[int], i: int, alone: str) -> tuple[list[int], bool]:
    """A short list of earlier calls after which call i differs from its result alone (each trial in a fresh process, the
    trials of a round in parallel).  Step 1: 8-ary search for the shortest reproducing suffix of `before` (assumes that the
    leak persists once it happened); step 2: ddmin on that suffix (bounded number of rounds)."""

    def trial(cands: list[list[int]]) -> list[bool]:
        digs = fresh.map(task_run_words, [(root, [calls[j] for j in h] + [calls[i]]) for h in cands], chunksize=1)
        return [d[-1] != alone for d in digs]

    lo, hi = 0, len(before)  # dropping the first lo calls reproduces (lo = 0: the recorded run); dropping hi (= all) does not
    while hi - lo > 1:
        cuts = sorted({lo + (hi - lo) * k // 8 for k in range(1, 8)} - {lo, hi})
        if not cuts:
            break
        ok = trial([before[c:] for c in cuts])
        good = [c for c, o in zip(cuts, ok) if o]
        if good:
            lo = max(good)
        bad = [c for c, o in zip(cuts, ok) if not o and c > lo]
        if bad:
            hi = min(bad)
    hist = before[lo:]
    if not trial([hist])[0]:
        return before[-40:], False
    n = 2
    for _round in range(10):
        if len(hist) <= 1:
            break
        size = -(-len(hist) // n)
        chunks = [hist[k : k + size] for k in range(0, len(hist), size)]
        cands = [[x for c2 in chunks[:k] + chunks[k + 1 :] for x in c2] for k in range(len(chunks))]
        ok = trial(cands)
        pick = next((c for c, o in zip(cands, ok) if o), None)
        if pick is not None:
            hist, n = pick, max(n - 1, 2)
        elif n >= len(hist):
            break
        else:
            n = min(len(hist), n * 2)
    return hist, True


def run(ctx: Ctx) -> PropResult:
    import time

    res = PropResult(prop="C11", level="exploration")
    t0 = time.time()
    timing: dict = {}
    res.extra["timing_s"] = timing
    L = 5 if ctx.thorough else 4
    root = tempfile.mkdtemp(prefix="verif-C11-")
    mp = multiprocessing.get_context("spawn")
    try:
        with FreshProcesses(mp, ctx.jobs) as fresh:  # every task runs in a fresh process
            pool = fresh.apply(task_build_pool, ((root, ctx.thorough),))
            names = [c["name"] for c in pool]
            base = fresh.map(task_baseline, [(root, c) for c in pool], chunksize=1)
            base2 = fresh.map(task_baseline, [(root, c) for c in pool], chunksize=1)
            baseline = [d for d, _ in base]
            for i, ((d1, _), (d2, _)) in enumerate(zip(base, base2)):
                if d1 != d2:
                    res.violations.append(
                        Violation(
                            signature=f"C11:H:{pool[i]['kind']}:{names[i]}:differs-between-two-fresh-processes",
                            what=f"call {names[i]} gives different bytes in two fresh processes",
                            input={"history": [], "observed": pool[i]},
                            contract=CONTRACT_H,
                            observed={"first": base[i][1][:1000], "second": base2[i][1][:1000]},
                        )
                    )
            timing["baselines"] = round(time.time() - t0, 1)
            # ---- schedule: everything below is independent work; submit it all now (short prerequisite tasks first, then the
            # long order runs, then the history runs) and collect the results clause by clause further down.
            import itertools
            import random as _random

            progs, prog_src = order_programs(ctx.seed, ctx.thorough)
            ar_ocomp = fresh.map_async(task_order_compile, [(root, ch) for ch in _chunks(progs, -(-len(progs) // ctx.jobs))], chunksize=1)
            r_calls = [c for c in pool if c["kind"] == "compile"] + chain_calls()
            ar_rbase = fresh.map_async(task_baseline, [(root, c) for c in r_calls], chunksize=1)
            corpus = valid_corpus(ctx.seed, 600 if ctx.thorough else 100, size=4)
            ar_corpus = fresh.map_async(task_corpus_calls, [(root, ch) for ch in _chunks(corpus, 40)], chunksize=1)
            o_call = next(c for c in pool if c["name"] == RAW_SWITCH_O["name"])
            h_calls = [{"kind": "decompile", "name": raw["name"], "routines": {"table": raw["table"], "routines": raw["routines"]}} for raw in RAW_ATTACK_H]
            attack_jobs = [(root, h, o_call, n_h, 150) for h in h_calls for n_h in (1, 3, 30)]
            ar_attacks = fresh.map_async(task_cache_attack, attack_jobs, chunksize=1)
            ar_ind = fresh.apply_async(task_indent, (root,))
            ar_cli = fresh.apply_async(task_cli_counter, (root,))
            # order runs (long, only K of them): start as soon as the routine sets are there
            o_calls = [c for ch in ar_ocomp.get() for c in ch]
            res.extra["O_excluded_slow_to_decompile"] = [c["name"] for c in o_calls if c["kind"] == "excluded-slow"]
            o_calls = [c for c in o_calls if c["kind"] != "excluded-slow"]
            o_calls += [c for c in pool if c["kind"] != "compile"]
            n_o = len(o_calls)
            K = 8 if ctx.thorough else 4
            o_orders = [list(range(n_o)), list(reversed(range(n_o)))]
            for k in range(K - 2):
                sh = list(range(n_o))
                _random.Random(f"C11-order-{ctx.seed}-{k}").shuffle(sh)
                o_orders.append(sh)
            ar_O = fresh.map_async(task_order_run, [(root, o_calls, o) for o in o_orders], chunksize=1)
            timing["scheduled"] = round(time.time() - t0, 1)
            # ---- H
            seq = de_bruijn(len(pool), L)
            n_chunks = ctx.jobs * 4 if ctx.thorough else (ctx.jobs * 3) // 2
            size = -(-len(seq) // n_chunks)
            jobs = []
            for s in range(0, len(seq), size):
                lo = max(0, s - (L - 1))
                jobs.append((root, pool, seq[lo : s + size], baseline, lo))
            ar_H = fresh.map_async(task_sequence, jobs, chunksize=1)
            # R and T/F second stages, queued behind the history runs
            r_names = [c["name"] for c in r_calls]
            n_pool_c = sum(1 for c in pool if c["kind"] == "compile")
            r_base = ar_rbase.get()
            r_baseline = [d for d, _ in r_base]
            # ---- P (process): the same calls in fresh processes started with OTHER string-hash seeds (the registered command pins
            # PYTHONHASHSEED=0 for its own reproducibility; a result that depends on the iteration order of a set of strings
            # would differ between ordinary processes).  Every compile call (incl. the import chains) and every decompile call.
            p_calls = r_calls + [c for c in pool if c["kind"] != "compile"]
            p_base = r_baseline + [baseline[i] for i, c in enumerate(pool) if c["kind"] != "compile"]
            saved_hs = os.environ.get("PYTHONHASHSEED")
            p_evals = 0
            try:
                for hs in ("1", "7", "12345") + (("99", "31337", "2", "3") if ctx.thorough else ()):
                    os.environ["PYTHONHASHSEED"] = hs
                    with FreshProcesses(mp, ctx.jobs) as fresh_hs:
                        got = fresh_hs.map(task_baseline, [(root, c) for c in p_calls], chunksize=1)
                    for c, want, (d, text) in zip(p_calls, p_base, got):
                        p_evals += 1
                        if d != want:
                            sig = f"C11:P:{c['kind']}:{c['name']}:differs-with-another-string-hash-seed"
                            if not any(v.signature == sig for v in res.violations):
                                res.violations.append(Violation(signature=sig, what=f"call {c['name']} gives different bytes in a fresh process started with PYTHONHASHSEED={hs} than with PYTHONHASHSEED=0", input={"history": [], "observed": c, "hash_seed": hs}, contract="a call's result in a fresh process does not depend on the process (string hash seed)", observed={"with_seed_" + hs: text[:1500]}))
            finally:
                if saved_hs is None:
                    os.environ.pop("PYTHONHASHSEED", None)
                else:
                    os.environ["PYTHONHASHSEED"] = saved_hs
            res.standins.append(StandIn(contract="P: a call's result in a fresh process does not depend on the string hash seed of the process", tier="T3", bound=f"{len(p_calls)} calls (all compile calls incl. import chains with one macro name defined by four imported files, all decompile calls) x {p_evals // max(1, len(p_calls))} hash seeds, each call in its own process", evaluations=p_evals, distinct_nontrivial=len(p_calls), exhaustive=False, samples=[p_calls[-1]["name"]]))
            all_idx = list(range(len(r_calls)))
            chain_idx = all_idx[n_pool_c:]
            orders = list(itertools.product(all_idx, repeat=2)) + list(itertools.product(chain_idx, repeat=3))
            orders += list(itertools.product(all_idx, repeat=3)) if ctx.thorough else [tuple(all_idx), tuple(reversed(all_idx)), tuple(all_idx + all_idx)]
            orders = list(dict.fromkeys(orders))
            ar_R = fresh.map_async(task_reuse, [(root, r_calls, r_baseline, ch) for ch in _chunks(orders, -(-len(orders) // ctx.jobs))], chunksize=1)
            dec_calls = [c for c in pool if c["kind"] != "compile"]
            corpus_calls = [c for ch in ar_corpus.get() for c in ch]
            # pool calls one per fresh process (so that T is not disturbed by what clause H/G is about); corpus in chunks
            ar_TF = fresh.map_async(task_twice_and_frame, [(root, [c]) for c in dec_calls] + [(root, ch) for ch in _chunks(corpus_calls, 25)], chunksize=1)
            outs = ar_H.get()
            n_calls = sum(o["n"] for o in outs)
            timing["H_runs"] = round(time.time() - t0, 1)
            seen_sig: dict[str, int] = {}
            for o in outs:
                for bad in o["bad"]:
                    ci = bad["call"]
                    key = names[ci]
                    seen_sig[key] = seen_sig.get(key, 0) + 1
                    if seen_sig[key] > 1:
                        continue  # one witness per observed call is minimised; the others are counted
                    hist, ok = _minimise(fresh, root, pool, baseline, bad)
                    res.violations.append(
                        Violation(
                            signature=f"C11:H:{pool[ci]['kind']}:{names[ci]}:result-differs-after-history",
                            what=f"{pool[ci]['kind']} of '{names[ci]}' gives a different result after the history [{', '.join(names[i] for i in hist)}] than alone in a fresh process",
                            input={"history": [pool[i] for i in hist], "observed": pool[ci]},
                            contract=CONTRACT_H,
                            observed={"baseline": base[ci][1][:3000], "got": bad["got"][:3000], "position_in_run": bad["pos"]},
                        )
                    )
            words = len(pool) ** L
            res.extra["H_differing_calls_per_observed"] = seen_sig
            res.standins.append(
                StandIn(
                    contract="H: " + CONTRACT_H,
                    tier="T3",
                    bound=f"pool of {len(pool)} calls ({', '.join(names)}); every word of length {L} (= all histories of length <= {L - 1} + observed call) as a contiguous run, B({len(pool)},{L}) in {len(jobs)} fresh processes; baselines from 2 x {len(pool)} fresh processes",
                    evaluations=n_calls,
                    distinct_nontrivial=words,
                    exhaustive=True,
                    samples=[names[:4], seq[:12]],
                    notes="exhaustive w.r.t. the stated pool and history length only; gc.collect() every 20th call to let id()s be recycled",
                )
            )
            timing["H_minimise"] = round(time.time() - t0, 1)
            # ---- R
            rb = [b for ch in ar_R.get() for b in ch]
            done: dict = {}
            for b in sorted(rb, key=lambda b: len(b["order"])):
                ci = b["call"]
                prev = b["order"][-2] if len(b["order"]) > 1 else None
                key = (ci if ci < n_pool_c else -1, prev if prev is None or prev < n_pool_c else -1)
                done[key] = done.get(key, 0) + 1
                if done[key] > 2:
                    continue  # one signature per (class of observed call, class of preceding call); two witnesses each
                res.violations.append(
                    Violation(
                        signature=f"C11:R:compile:{'import-chain' if ci >= n_pool_c else r_names[ci]}:differs-on-reused-instance-after:{('import-chain' if prev >= n_pool_c else r_names[prev]) if prev is not None else 'nothing'}",
                        what=f"compile of '{r_names[ci]}' on a compiler instance already used for {[r_names[i] for i in b['order'][:-1]]} differs from a fresh instance",
                        input={"mode": "reuse", "order": [r_calls[i] for i in b["order"]]},
                        contract=CONTRACT_R,
                        observed={"baseline": r_base[ci][1][:2000], "got": b["got"]},
                    )
                )
            res.standins.append(
                StandIn(
                    contract="R: " + CONTRACT_R,
                    tier="T3",
                    bound=f"{len(orders)} orders on one compiler instance over {len(r_calls)} compile calls: all pairs, all triples of the {len(chain_idx)} import-chain calls (imports failing at depth 2, broken text under the name of a file imported later, valid importers of the same files)",
                    evaluations=sum(len(o) for o in orders),
                    distinct_nontrivial=len(orders),
                    exhaustive=False,
                    samples=[[r_names[i] for i in orders[len(all_idx) + 1]], r_names[n_pool_c:]],
                )
            )
            timing["R"] = round(time.time() - t0, 1)
            # ---- T / F on the pool's decompile calls and on compiled corpus programs
            tf = ar_TF.get()
            n_tf = 0
            by_name = {c["name"]: c for c in dec_calls + corpus_calls}
            seen_tf: set[str] = set()
            n_exc = 0
            for ch in tf:
                for rec in ch:
                    n_tf += 1
                    n_exc += rec["first_is_exception"]
                    for pr in rec["problems"]:
                        cls = rec["name"] if not rec["name"].startswith("corpus:") else "compiled-corpus-program"
                        if pr["symptom"] == "second-convert-on-same-instance-differs":
                            cls = "any"  # one defect (convert() replaces its own input), whatever the routine set
                        sig = f"C11:{pr['clause']}:{rec['kind']}:{cls}:{pr['symptom']}"
                        if sig in seen_tf and cls in ("compiled-corpus-program", "any"):
                            res.extra.setdefault("more_witnesses", {}).setdefault(sig, 0)
                            res.extra["more_witnesses"][sig] += 1
                            continue
                        seen_tf.add(sig)
                        res.violations.append(
                            Violation(
                                signature=sig,
                                what=f"{rec['kind']} of '{rec['name']}': {pr['symptom']} ({pr['detail'][:200]})",
                                input={"mode": "twice-frame", "call": by_name[rec["name"]]},
                                contract=CONTRACT_T if pr["clause"] == "T" else CONTRACT_F,
                                observed=pr,
                            )
                        )
            for cl, ct in (("T", CONTRACT_T), ("F", CONTRACT_F)):
                res.standins.append(
                    StandIn(contract=f"{cl}: " + ct, tier="T3", bound=f"{len(dec_calls)} pool routine sets + compiler output of {len(corpus_calls)} corpus programs (both decompilers for every 5th)", evaluations=n_tf, distinct_nontrivial=len({json.dumps(c['routines'], sort_keys=True) for c in dec_calls + corpus_calls}), exhaustive=False, samples=[dec_calls[0]["name"], corpus[0][1]], notes=f"{n_exc} of the inputs make convert() raise (compared as results too)")
                )
            timing["TF"] = round(time.time() - t0, 1)
            # ---- I
            ind = ar_ind.get()
            n_ind = 0
            for r in ind:
                if r["case"] == "evaluated":
                    n_ind = int(r["detail"])
                    continue
                res.violations.append(
                    Violation(
                        signature=f"C11:I:{r['case']}:{r['symptom']}",
                        what=f"string parameter indent leaks into later output ({r['case']}): {r['detail'][:240]}",
                        input={"mode": "indent", "case": r["case"]},
                        contract=CONTRACT_I,
                        observed=r,
                    )
                )
            res.standins.append(StandIn(contract="I: " + CONTRACT_I, tier="T3", bound="const string and language string; shared inside one routine set / reused in a second set", evaluations=n_ind, distinct_nontrivial=4, exhaustive=False, samples=["flag_Set($X, P); if (debug) { talk(P); }  with one object P = 'l1\\nl2'"]))
            # ---- G
            attacks = ar_attacks.get()
            for a_, j_ in zip(attacks, attack_jobs):
                a_["h"] = j_[1]["name"]
            res.extra["cache_attack"] = [{k: v for k, v in a.items() if k not in ("clean", "got")} for a in attacks]
            hit = next((a for a in attacks if a["hit_at"] is not None), None)
            if hit is not None:
                h_call = next(h for h in h_calls if h["name"] == hit["h"])
                res.violations.append(
                    Violation(
                        signature="C11:G:stale-cache-entry-of-dead-graph-used:decompile:switch-only:after:fallback-after-branch-lookup",
                        what="a conversion that falls back to SsbScript leaves {edge ids: None} under id(graph) in find_first_common_next_vertex_in_edges_cache; a later graph that gets the same id() reads it and a switch loses its end label",
                        input={"mode": "cache-attack", "h": h_call, "o": o_call, "n_h": hit["n_h"], "n_o": 150},
                        contract=CONTRACT_G,
                        observed=hit,
                    )
                )
            if not any(a["stale_entries_after_history"] for a in attacks):
                res.self_check_failures.append("clause G: none of the fallback routine sets leaves an entry in the cache any more - the attack is vacuous, pick new ones")
            res.standins.append(StandIn(contract="G: " + CONTRACT_G, tier="T3", bound="3 fallback routine sets x history of 1/3/30 conversions, then up to 150 conversions of the switch-only set, gc.collect() between calls", evaluations=sum(150 if a["hit_at"] is None else a["hit_at"] + 1 for a in attacks), distinct_nontrivial=9, exhaustive=False, samples=[RAW_FALLBACK_H["routines"][0]["ops"], RAW_SWITCH_O["routines"][0]["ops"]]))
            timing["I_G"] = round(time.time() - t0, 1)
            # ---- O: order dependence over a large, diverse decompile pool
            o_digs = ar_O.get()
            timing["O_runs"] = round(time.time() - t0, 1)
            differing = [i for i in range(n_o) if len({d[i] for d in o_digs}) > 1]
            res.extra["O_order_dependent_inputs"] = len(differing)
            res.extra["O_pool_source"] = prog_src
            if differing:
                # witness: the first differing input (smallest description); which order is off? -> compare with the call alone
                i = min(differing, key=lambda j: (len(json.dumps(o_calls[j]["routines"])), j))
                alone = fresh.apply(task_baseline, ((root, o_calls[i]),))[0]
                k_bad = next((k for k in range(K) if o_digs[k][i] != alone), None)
                hist_calls: list[dict] = []
                minimal = False
                if k_bad is not None:
                    before = o_orders[k_bad][: o_orders[k_bad].index(i)]
                    hist_idx, minimal = _minimise_order(fresh, root, o_calls, before, i, alone)
                    hist_calls = [o_calls[j] for j in hist_idx]
                res.violations.append(
                    Violation(
                        signature="C11:O:decompile:result-depends-on-order-of-earlier-decompilations",
                        what=f"{len(differing)} of {n_o} routine sets decompile differently depending on the order of the run; witness '{o_calls[i]['name']}'"
                        + (f" after '{hist_calls[0]['name']}'" if len(hist_calls) == 1 else ""),
                        input={"history": hist_calls, "observed": o_calls[i]},
                        contract=CONTRACT_O,
                        observed={"digests_per_order": [d[i] for d in o_digs], "alone": alone, "history_reproduces_in_fresh_process": minimal, "differing_inputs": [o_calls[j]["name"] for j in differing[:30]]},
                    )
                )
            res.standins.append(
                StandIn(
                    contract="O: " + CONTRACT_O,
                    tier="T3",
                    bound=f"{n_o} routine sets (compiler output of {len(progs)} programs: {prog_src}; + the pool's sets) decompiled in {K} orders (identity, reversed, {K - 2} seeded shuffles), each order in its own fresh process",
                    evaluations=n_o * K,
                    distinct_nontrivial=len({json.dumps(c["routines"], sort_keys=True) for c in o_calls}),
                    exhaustive=False,
                    samples=[o_calls[0]["name"], progs[0][1]],
                )
            )
            timing["O"] = round(time.time() - t0, 1)
            # ---- observation: CLI counter
            res.extra["cli_decompile_counter"] = ar_cli.get()
    finally:
        shutil.rmtree(root, ignore_errors=True)

    # ---- S: static frame audit (no process needed: pure AST work)
    audit = static_audit(os.path.dirname(os.path.dirname(_explorerscript_file())))
    res.extra["static_audit"] = {k: v for k, v in audit.items() if k != "hits"}
    res.extra["static_audit"]["audited_hits"] = len(audit["hits"]) - len(audit["unaudited"])
    for kind, mod, name, what in audit["unaudited"]:
        res.violations.append(
            Violation(
                signature=f"C11:static:{kind}:{mod}:{name}",
                what=f"un-audited process-wide mutable state: {kind} {mod}:{name} ({what})",
                input=None,
                contract=CONTRACT_S,
                observed={"kind": kind, "module": mod, "name": name, "value": what},
                failing_input_found=False,
            )
        )
    for kind, mod, name, why in audit["failed_conditions"]:
        res.violations.append(
            Violation(
                signature=f"C11:static:{kind}:{mod}:{name}:discharge-condition-failed",
                what=f"{kind} {mod}:{name}: {why}",
                input=None,
                contract=CONTRACT_S,
                observed={"kind": kind, "module": mod, "name": name, "why": why},
                failing_input_found=False,
            )
        )
    res.standins.append(
        StandIn(
            contract="S: " + CONTRACT_S,
            tier="T3",
            bound=f"AST scan of {audit['modules']} modules of the package (explorerscript/antlr excluded): mutable defaults, module-level mutable bindings, class-level mutable attributes, global statements",
            evaluations=audit["modules"],
            distinct_nontrivial=len(audit["hits"]),
            exhaustive=True,
            samples=[h[:3] for h in audit["hits"][:3]],
            notes=f"{audit['auto_discharged']} module-level container literals are never mutated by any function of the package (auto-discharged); {len(audit['hits']) - len(audit['unaudited'])} hits are on the audited list; name-based mutation analysis (an alias could hide a mutation); exhaustive only w.r.t. these four syntactic kinds",
        )
    )
    if not audit["modules"]:
        res.self_check_failures.append("clause S scanned no module")
    res.rule = (
        "pool (quick: 12 calls, thorough: 14) = compile calls (valid with macros, [thorough: valid big,] valid with an import, parse error, SsbCompilerError inside a nested "
        "block, ValueError inside a macro, SsbScript source) + decompile calls (compiler output of three sources, the SsbScript "
        "decompiler on one of them, three hand-written routine sets: two falling back to SsbScript after a cache lookup (one with a multi-line string), one switch-only). distinct = "
        "words over the pool; a word is non-trivial when it has >= 2 calls (all have)."
    )
    res.assumptions = [
        "a 'fresh process' is a spawned python process that has made no other call of the pool",
        "every compile call uses the same absolute file name in all processes (a scratch directory); exception messages are compared after replacing that directory name",
        "id() recycling cannot be forced, only made likely (results dropped, gc.collect()); clause G reports what was observed",
        "explorerscript.cli.decompile.read_routines is not a documented interface (docs/cli_api_usage.rst documents the command and the two classes); its module-level counter is recorded under coverage.cli_decompile_counter, not as a violation",
    ]
    res.extra["pool"] = names
    if not n_calls:
        res.self_check_failures.append("clause H never evaluated")
    if not n_tf:
        res.self_check_failures.append("clauses T/F never evaluated")
    if not n_ind:
        res.self_check_failures.append("clause I never evaluated")
    return res


def _explorerscript_file() -> str:
    import importlib.util

    spec = importlib.util.find_spec("explorerscript")  # located, not imported: the parent process stays free of antlr/igraph
    return spec.origin


def _chunks(xs: list, n: int) -> list[list]:
    return [xs[i : i + n] for i in range(0, len(xs), n)]


def task_corpus_calls(args) -> list[dict]:
    """Compile corpus programs (fresh process) and describe their routines as decompile calls."""
    root, progs = args
    _setup(root)
    from explorerscript.ssb_converting.ssb_compiler import ExplorerScriptSsbCompiler

    out = []
    for k, (name, text) in enumerate(progs):
        comp = ExplorerScriptSsbCompiler(PPL, [])
        try:
            comp.compile(text, os.path.join(root, "corpus.exps"))
        except Exception:  # noqa: BLE001 - not this property's business
            continue
        if any(i is None for i in comp.routine_infos):
            continue
        desc = describe_routines(comp.routine_ops, comp.routine_infos, comp.named_coroutines)
        out.append({"kind": "decompile", "name": "corpus:" + name, "routines": desc})
        if k % 5 == 0:
            out.append({"kind": "decompile-ssbscript", "name": "corpus:ssbs:" + name, "routines": desc})
    return out


def replay(record: dict, ctx: Ctx) -> bool:
    inp = record["input"]
    if record["signature"].startswith("C11:static:"):
        audit = static_audit(os.path.dirname(os.path.dirname(_explorerscript_file())))
        sigs = {f"C11:static:{k}:{m}:{n}" for k, m, n, _ in audit["unaudited"]} | {f"C11:static:{k}:{m}:{n}:discharge-condition-failed" for k, m, n, _ in audit["failed_conditions"]}
        return record["signature"] in sigs
    root = tempfile.mkdtemp(prefix="verif-C11r-")
    mp = multiprocessing.get_context("spawn")
    try:
        with FreshProcesses(mp, 2) as fresh:
            mode = inp.get("mode", "history")
            if mode == "history" and inp.get("hash_seed") is not None:
                # clause P: the call alone with PYTHONHASHSEED=0 and with the recorded seed, each in a fresh process
                saved = os.environ.get("PYTHONHASHSEED")
                digs = []
                try:
                    for hs in ("0", str(inp["hash_seed"])):
                        os.environ["PYTHONHASHSEED"] = hs
                        with FreshProcesses(mp, 1) as f2:
                            digs.append(f2.apply(task_baseline, ((root, inp["observed"]),))[0])
                finally:
                    if saved is None:
                        os.environ.pop("PYTHONHASHSEED", None)
                    else:
                        os.environ["PYTHONHASHSEED"] = saved
                return digs[0] != digs[1]
            if mode == "history":
                alone = fresh.apply(task_baseline, ((root, inp["observed"]),))[0]
                digs = fresh.apply(task_run_words, ((root, inp["history"] + [inp["observed"]]),))
                if not inp["history"]:
                    return fresh.apply(task_baseline, ((root, inp["observed"]),))[0] != alone
                return digs[-1] != alone
            if mode == "reuse":
                calls = inp["order"]
                baseline = [fresh.apply(task_baseline, ((root, c),))[0] for c in calls]
                bad = fresh.apply(task_reuse, ((root, calls, baseline, [tuple(range(len(calls)))]),))
                return any(b["call"] == len(calls) - 1 for b in bad)
            if mode == "twice-frame":
                recs = fresh.apply(task_twice_and_frame, ((root, [inp["call"]]),))
                want = record["signature"].rsplit(":", 1)[-1]
                return any(p["symptom"] == want for r in recs for p in r["problems"])
            if mode == "indent":
                want = record["signature"].split(":", 2)[2]
                return any(f"{r['case']}:{r['symptom']}" == want for r in fresh.apply(task_indent, (root,)))
            if mode == "cache-attack":
                a = fresh.apply(task_cache_attack, ((root, inp["h"], inp["o"], inp["n_h"], inp["n_o"]),))
                return a["hit_at"] is not None
    finally:
        shutil.rmtree(root, ignore_errors=True)
    raise ValueError("unknown replay mode")
