"""C16 - layout, comments and alternative spellings do not change the compiled ops.      (tier T3: bounded stand-in, never proof)

Relational contract on ``ExplorerScriptSsbCompiler.compile`` (the real one):

    for every accepted program t and every re-spelling t' of t from the property's list
        fingerprint(compile(t')) == fingerprint(compile(t))
    fingerprint = (routine_ops as (offset, op name, param_key of every parameter), routine_infos, named_coroutines,
                   position-mark VALUES of the source map (direct and macro) -- not their line/column)

How re-spellings are made (independent of the repository's parser; the *expected* token sequence is known by construction):
the seed program is cut into tokens with the repository lexer ONCE (token texts + the layout between them); a re-spelling
changes only (a) the layout strings between tokens, or (b) the text of single tokens in a way the grammar (SsbCommon.g4 /
ExplorerScript.g4) and docs/language_spec.rst declare equivalent:

  compact       layout and comments removed next to the single-character tokens ( ) { } [ ] , ; : (which cannot merge with a neighbour)
  layout        every gap replaced by random layout (blanks, tabs, LF, CRLF, CR, line joining `\\`+newline, comments); a gap
                that was non-empty stays non-empty (removing layout can merge tokens: that is not a re-spelling)
  comment       a `// ...` line comment or a `/* ... */` block comment inserted at EACH token boundary in turn (also before
                the first and after the last token; at the very end also an unterminated `/* ...` and a `//` without newline,
                which SsbCommon.g4 BLOCK_COMMENT / LINE_COMMENT admit)
  label         `@x;` <-> `§x;` in label definitions (not in jump/call, where the grammar only has `@`)
  for-target    `for_actor(X)` <-> `for actor X` <-> `for actor (X)` <-> `for_actor X` (and object, performer)
  comma         trailing comma added / removed in operation and macro-call argument lists and language strings
  int-base      each INTEGER token re-spelled in every base / prefix case / zero padding (value per spec/literals.py)
  dec-zeros     each DECIMAL token (positive / negative, zero / non-zero / absent whole part; in every integer_like position and in
                position marks) with redundant leading zeros of the whole part added / removed (-7.5 <-> -007.5, -0.5 <-> -00.5 <-> -.5)
  quotes        each STRING_LITERAL whose body has no backslash and no quote: '..' <-> ".." and (where the grammar allows a
                multi-line literal) <-> '''..''' / \"\"\"..\"\"\" (only bodies without line breaks and surrounding blanks)

Signatures: C16:<transform>:<class of the changed place>:<symptom>.
"""
from __future__ import annotations

import functools
import hashlib
import json
import multiprocessing
import os
import random
import re
from typing import Any

from gen import values as V
from spec import literals as LIT
from vlib.result import REPO, Ctx, PropResult, StandIn, Violation

PPL = "$PERFORMANCE_PROGRESS_LIST"
CONTRACT = (
    "compile(t') has the same routine_ops (offsets, op names, parameters), routine_infos, named_coroutines and position-mark "
    "values as compile(t) for every listed re-spelling t' of an accepted program t"
)

# =====================================================================================================================
# seed programs
# =====================================================================================================================
BIG = r'''
macro m($a, $b) {
    foo($a, $b);
    if ($a == 1) { return; }
    bar(Position<'m1', 1, 2.5>);
}
def 0 {
    foo(1, -2, 0x1F, 0b11, 0o17, 1.5, -0.5, .25, CONST, $VAR, "s", 'x', """
      ml
      """, {en="a", de='b'}, Position<'p', 1, 2.5>, );
    @l1;
    §l2;
    jump @l1;
    call @l2;
    with (actor A) { foo(); }
    with (object 3) { $V = 1; }
    with (performer P) { jump @l1; }
    bar<actor 2>(1);
    baz<object OBJ>("x", 2,);
    if not ($A == 1 || $B > value($C) || $D[3] || not debug || edit || variation || scn($S) >= [1,2]) { a(); } elseif (1 < 2) { b(); } elseif not (debug) { b2(); } else { c(); }
    if ($A FALSE 1 || $A TRUE 1 || $A != 1 || $A <= 1 || $A & 1 || $A ^ 1 || $A &<< 1 || $A < 1) { a(); }
    if (not edit || not variation || debug) { a(); }
    switch ($X) { case 1: a(); break; case > 2: case == value($Y): b(); default: c(); }
    switch (scn($V)[0]) { case 1: a(); }
    switch (scn($V)[1]) { case 1: a(); }
    switch (random(3)) { case 1: a(); }
    switch (dungeon_mode(3)) { case 1: a(); case DMODE_OPEN: b(); }
    switch (sector()) { case 1: a(); }
    switch (message_SwitchMenu(1,2)) { case menu("x"): a(); case menu2(3): b(); case menu({en="q"}): c(); }
    switch (ProcessSpecial(1, 2, 3)) { default: a(); case 0: b(); break; }
    message_SwitchTalk ($P) { case 1: "a" case 2: {en="b"} default: 'c' }
    message_SwitchMonologue (3) { case 1: "a" }
    forever { a(); continue; break_loop; }
    for ($i = 0; $i < 3; $i += 1;) { a(); }
    while not ($i[2]) { a(); }
    while (debug) { a(); }
    $V = 3; $V = value(3); $V += 3; $V -= 1; $V *= 2; $V /= 2; $V[3] = 1; $V = scn[1, 2];
    clear $V; reset dungeon_result; init $V; adventure_log = 3; dungeon_mode(3) = 3; reset scn($V);
    $PERFORMANCE_PROGRESS_LIST[2] = 1;
    if ($PERFORMANCE_PROGRESS_LIST[2]) { a(); }
    ~m(1, "x");
    ~m(Position<"q", 3.5, 4>, 2,);
    end; hold; return;
}
def 1 for actor TEST { a(); }
def 2 for_actor(2) { a(); }
def 3 for object 3 { alias previous; }
def 4 for_performer(X) { a(); }
def 5 for performer (7) { a(); }
def 6 for_object OBJ { a(); }
coro Foo { a(); }
coro Bar { alias previous; }
'''

SMALL = [
    "def 0 { a(); }",
    "def 0 {\n  a(1, 2, 3);\n  b('x', \"y\");\n}\n",
    "coro A { a(); }\ncoro B { b(); }\n",
    "def 0 { @l; a(); jump @l; }",
    "def 0 { §l; a(); jump @l; }\ndef 1 { alias previous; }",
    "def 0 for actor 3 { a(); }\ndef 1 for_object(OBJ_X) { b(); }\ndef 2 for performer P { c(); }",
    "def 0 { if ($a == 1) { x(); } else { y(); } }",
    "def 0 { switch ($a) { case 1: x(); break; default: y(); } }",
    "def 0 { message_SwitchTalk ($a) { case 1: 'x' default: \"y\" } }",
    "def 0 { forever { x(); break_loop; } }",
    "def 0 { while ($a < 10) { $a += 1; } }",
    "def 0 { for ($a = 0; $a < 10; $a += 1;) { x(); } }",
    "def 0 { x(Position<'a', 1, 2>, Position<\"b\", 1.5, -2.5>); }",
    "def 0 { x({english='a', german=\"b\"}); y({english=\"\"\"\n   multi\n   line\n   \"\"\",}); }",
    "def 0 { x(-1, -0x10, 007.5, -.5, 00, 0b0, 0o0); }",
    "macro f($x) { a($x); }\ndef 0 { ~f(1); ~f('s'); }",
    "macro g() { a(); return; b(); }\nmacro f($x, $y) { ~g(); a($x, $y); }\ndef 0 { ~f(1, 2); }",
    "def 0 { with (actor 1) { a(); } b<object 2>(3); }",
    "def 0 { $a = 1; $a[1] = 0; $a = scn[1, 2]; $a = value($b); clear $a; init $a; reset scn($a); reset dungeon_result; adventure_log = 1; dungeon_mode(1) = 2; }",
    "def 0 { if (debug) { a(); } if (not edit) { b(); } if (variation || $a[3] || scn($b) == [1, 2]) { c(); } }",
    "def 0 { switch (random(5)) { case 0: case 1: a(); case >= 3: b(); break; case < value($c): d(); } }",
    "def 0 { switch (message_SwitchMenu(0, 0)) { case menu('Yes'): a(); break; case menu({english=\"No\"}): b(); break; case menu2(1): c(); } }",
    "def 0 { end; }\ndef 1 { hold; }\ndef 2 { return; }",
    "// leading comment\ndef 0 { /* inner */ a(); // trailing\n}\n/* unterminated",
    "def 0 { a('it\\'s', \"q\\\"q\", 'a\\nb', \"\"\"x\"\"\", '''y'''); }",
    # position marks in parts of a statement that the compile handlers collect out of source order (for: body before step; switch:
    # header after...): the ORDER of the recorded marks must not depend on where the line breaks are
    "def 0 { for ($i = 0; $i < 3; s(Position<'step', 1, 2>);) { b(Position<'body', 3, 4>); } while ($i < 3) { c(Position<'wb', 5, 6>); } "
    "switch (h(Position<'head', 7, 8>)) { case 1: d(Position<'case', 9, 10>); } for (i(Position<'init', 1.5, 2>); $i < 3; $i += 1;) { e(Position<'b2', 2, 2.5>); } }",
    # texts that BEGIN with a quote character (as multi-line literals they start with four quotes in a row)
    "def 0 { a('\\'Tis a fine day', \"\\\"Halt!\\\" she said\", '\"Q\" and more'); b({english='\\'Tis', german=\"\\\"So\\\" ist es\"}); }",
    # quote characters at the very start / end of the text, in every position that takes a string
    "def 0 { a(\"He said \\\"go\\\"\", 'the \\'gate\\'', '\"', \"'\", \"it's\", 'say \"x\"'); b({english=\"\\\"quoted\\\"\", german='\\'q\\''}); p(Position<'the \\'mark\\'', 1, 2>); "
    "switch (message_SwitchMenu(0, 0)) { case menu(\"\\\"Yes\\\"\"): a(); break; } message_SwitchTalk (1) { case 1: \"\\\"t\\\"\" default: 'd\\'' } }",
    # decimals of every sign / whole-part shape in every position that takes an integer_like (and in position marks)
    "macro dm($a) { x($a, -2.25); }\n"
    "def 0 { x(-7.5, 30.125, -030.125, -1.0, 1.0, -0.5, -.5, .5, 0.5, -00.25, 007.5, -12.0050, 100.0, -100.0); x<actor -7.5>(1); y<object 7.5>(-3.75); "
    "with (performer -12.5) { x(); } $v = -7.5; $v += -1.25; -7.5 = 3; $v = value(-7.5); -7.5[3] = 1; clear -7.5; init -9.5; reset scn(-7.5); "
    "adventure_log = -7.5; dungeon_mode(-7.5) = -8.5; -7.5 = scn[1, 2]; "
    "if (-7.5 == -6.5 || $a > value(-7.5) || -7.5[3] || scn(-7.5) == [1,2]) { x(); } "
    "switch (-7.5) { case -7.5: x(); break; case > -6.5: y(); break; case == value(-5.5): z(); break; case menu2(-4.5): w(); } "
    "switch (random(-7.5)) { case 1.5: x(); } switch (dungeon_mode(-7.5)) { case -1.5: x(); } switch (scn(-7.5)[0]) { case 1: x(); } "
    "message_SwitchTalk (-7.5) { case -7.5: 'x' case 7.5: 'y' } while (-7.5 < -6.5) { x(); } for (-7.5 = -6.5; $i < -5.5; $i += -4.5;) { x(); } "
    "~dm(-7.5); ~dm(-0.5); p(Position<'p', -7.5, -0.5>, Position<'q', -12.0, 3.50>); end; }",
    # '-' glued to numbers / assignment operators
    "def 0 { $a -= 1; $a -=-1; $a = -1; $a += -0x1; x(1,-2,-.5, -0.5); switch ($a) { case -1: x(); break; case > -2: y(); } if ($a < -1) { z(); } }",
    # identifiers that start with (or contain) keywords
    "def 0 { message_SwitchTalkX(1); iffy(); forx(); defx(); Positions(1); endx(); casex(); returnx(); for_actors(); notx(); value1(); menu22(); "
    "x(if_, FALSEx, TRUE_, $if, $for, $Position, debugx, scnx, actor, object, performer); jumpx(); @callx; jump @callx; }",
    # operators without any layout
    "def 0{if($a==1||$b>=value($c)||$d&<<2||$e<=3||$f!=4||$g&5||$h^6||$i<7||$j>8){a();}elseif not($a[1]){b();}else{c();}}",
    # line joining and CR / CRLF line ends in the seed itself
    "def 0 \\\n{ a(1, \\\r\n 2); \r b(); \r\n c(); }",
]

STATEMENT_POOL = [
    "a();",
    "b(1, 'x', CONST, $v, 2.5);",
    "c<actor ACTOR_X>(Position<'p', 1, 2.5>);",
    "with (object 3) { d(); }",
    "$v = 1;",
    "$v += value($w);",
    "$v[2] = 1;",
    "clear $v;",
    "@L{n};",
    "if ($v == 1) { a(); } else { b(); }",
    "if not ($v > 2 || debug) { a(); }",
    "switch ($v) { case 1: a(); break; case > 2: b(); default: c(); }",
    "switch (dungeon_mode(1)) { case 0: a(); break; }",
    "message_SwitchMonologue ($v) { case 0: 'x' default: {english='y'} }",
    "forever { a(); break_loop; }",
    "while ($v < 3) { $v += 1; continue; }",
    "for ($i = 0; $i < 3; $i += 1;) { a(); }",
    "~mac(1, 'x');",
    "x({english=\"a\", french='b',});",
    "y(0x10, -3, 0b101, 0o7, 00.50);",
    "z(-7.5, -030.125, -1.0, -0.5, -.5, 12.5);",
    "$v = -7.5;",
    "switch ($v) { case -2.5: a(); break; case > -10.25: b(); }",
]


def generated_programs(rng: random.Random, n: int) -> list[str]:
    out = []
    for k in range(n):
        m = rng.randint(2, 7)
        stmts = [rng.choice(STATEMENT_POOL).replace("{n}", str(j)) for j in range(m)]
        # labels must be unique: the {n} above makes them so
        body = "\n    ".join(stmts)
        prog = "macro mac($p, $q) { m($p, $q); }\n" if any("~mac" in s for s in stmts) else ""
        kind = rng.choice(["def 0", "def 0 for actor 1", "def 0 for_object(X)", "coro C"])
        prog += f"{kind} {{\n    {body}\n    end;\n}}\n"
        out.append(prog)
    return out


def seed_programs(ctx: Ctx) -> list[dict]:
    """[{name, text, path, lookup}] - all accepted by the compiler (checked by the caller)."""
    seeds = [{"name": "big", "text": BIG, "path": "/verif-nonexistent/big.exps", "lookup": []}]
    for i, t in enumerate(SMALL):
        seeds.append({"name": f"small{i}", "text": t, "path": f"/verif-nonexistent/small{i}.exps", "lookup": []})
    for i, t in enumerate(generated_programs(random.Random(ctx.seed + 16), 150 if ctx.thorough else 12)):
        seeds.append({"name": f"gen{i}", "text": t, "path": f"/verif-nonexistent/gen{i}.exps", "lookup": []})
    repo = ctx.repo if ctx.repo else REPO
    ex = os.path.join(repo, "example", "SCRIPT", "base.exps")
    if os.path.exists(ex):
        seeds.append({"name": "example/base", "text": open(ex, encoding="utf-8").read(), "path": ex, "lookup": [os.path.join(repo, "example", "macros")]})
    for sub in ("macros/dir/macros1.exps", "macros/dir/macros2.exps"):
        p = os.path.join(repo, "example", sub)
        if os.path.exists(p):
            # macro-only files: compiled as a main file they give zero routines but still exercise macros
            seeds.append({"name": "example/" + sub, "text": open(p, encoding="utf-8").read(), "path": p, "lookup": [os.path.join(repo, "example", "macros")]})
    fx = os.path.join(repo, "tests", "fixtures", "compiler", "macros_imports_test")
    if os.path.isdir(fx):
        for d in sorted(os.listdir(fx)):
            for fn in sorted(os.listdir(os.path.join(fx, d))):
                p = os.path.join(fx, d, fn)
                if fn.endswith(".exps"):
                    seeds.append({"name": f"fixture/{d}/{fn}", "text": open(p, encoding="utf-8").read(), "path": p, "lookup": []})
    return seeds


# =====================================================================================================================
# repository access
# =====================================================================================================================
@functools.lru_cache(maxsize=None)
def _repo():
    from antlr4 import InputStream, Token
    from explorerscript.antlr.ExplorerScriptLexer import ExplorerScriptLexer
    from explorerscript.ssb_converting.ssb_compiler import ExplorerScriptSsbCompiler
    from spec.machine import param_key

    class R:
        pass

    r = R()
    r.InputStream, r.Token, r.Lexer, r.Compiler, r.param_key = InputStream, Token, ExplorerScriptLexer, ExplorerScriptSsbCompiler, param_key
    skip = ("DEFAULT_TOKEN_CHANNEL", "HIDDEN", "MIN_CHAR_VALUE", "MAX_CHAR_VALUE", "DEFAULT_MODE", "MORE", "SKIP")
    r.TN = {v: k for k, v in vars(ExplorerScriptLexer).items() if k.isupper() and isinstance(v, int) and k not in skip}
    return r


def tokenize(text: str) -> tuple[list[tuple[str, str]], list[str]]:
    """(tokens [(TYPE, text)], gaps) with len(gaps) == len(tokens) + 1 and text == g0 t0 g1 t1 ... gn."""
    r = _repo()
    lx = r.Lexer(r.InputStream(text))
    lx.removeErrorListeners()
    toks, gaps = [], []
    pos = 0
    while True:
        t = lx.nextToken()
        if t.type == r.Token.EOF:
            break
        gaps.append(text[pos : t.start])
        name = r.TN.get(t.type, str(t.type))
        if name == "T__0":
            name = "SEMI"
        toks.append((name, text[t.start : t.stop + 1]))
        pos = t.stop + 1
    gaps.append(text[pos:])
    return toks, gaps


def render(toks: list[tuple[str, str]], gaps: list[str]) -> str:
    out = [gaps[0]]
    for (_ty, tx), g in zip(toks, gaps[1:]):
        out.append(tx)
        out.append(g)
    return "".join(out)


def _quiet():
    import contextlib
    import io

    return contextlib.redirect_stderr(io.StringIO())


class CompilerRaised(Exception):
    """Wraps an exception raised by the repository's compile() (as opposed to one raised by this checker)."""

    def __init__(self, exc: BaseException):
        super().__init__(repr(exc))
        self.exc = exc


def fingerprint(seed: dict, text: str) -> Any:
    """JSON-able fingerprint of compile(text); raises CompilerRaised(e) if compile() raises e."""
    r = _repo()
    try:
        with _quiet():
            c = r.Compiler(PPL, list(seed["lookup"])).compile(text, seed["path"])
    except Exception as e:
        raise CompilerRaised(e) from e
    ops = [[[op.offset, op.op_code.name, [_j(r.param_key(p)) for p in op.params]] for op in rt] for rt in c.routine_ops]
    infos = [[i.type.name, i.linked_to, i.linked_to_name] for i in c.routine_infos]
    named = [n if isinstance(n, str) else None for n in c.named_coroutines]
    sm = c.source_map
    marks = [[m.name, m.x_offset, m.y_offset, m.x_relative, m.y_relative] for m in sm.get_position_marks__direct()]
    mmarks = [[f, n, [m.name, m.x_offset, m.y_offset, m.x_relative, m.y_relative]] for (f, n, m) in sm.get_position_marks__macros()]
    return {"ops": ops, "infos": infos, "named": named, "marks": marks, "macro_marks": mmarks}


def _j(x):
    return json.loads(json.dumps(x, default=str))


def first_difference(a: Any, b: Any) -> str:
    for key in ("infos", "named", "marks", "macro_marks"):
        if a[key] != b[key]:
            return f"{key}: {a[key]!r} != {b[key]!r}"[:300]
    if len(a["ops"]) != len(b["ops"]):
        return f"number of routines {len(a['ops'])} != {len(b['ops'])}"
    for ri, (ra, rb) in enumerate(zip(a["ops"], b["ops"])):
        for oi, (oa, ob) in enumerate(zip(ra, rb)):
            if oa != ob:
                return f"routine {ri} op {oi}: {oa!r} != {ob!r}"[:300]
        if len(ra) != len(rb):
            return f"routine {ri}: {len(ra)} ops != {len(rb)} ops"
    return "?"


# =====================================================================================================================
# re-spellings: each yields (transform, class, new_tokens, new_gaps)
# =====================================================================================================================
LAYOUT_NONEMPTY = [" ", "\n", "\t", "  ", "\r\n", "\r", "\n\n    ", " \\\n ", "\\\r\n", "\\\r", "\\ \t\n", " /*x*/ ", "/**/", "//c\n", "// c \r\n", "\n// a\n// b\n", "/* a\n b */"]
LAYOUT_EMPTY_OK = ["", "", "", " ", "\n", "\t ", "/*y*/", "\\\n"]
LINE_COMMENTS = ["", " c ", "*", "/", "/*", "*/", "//", "'", '"', "'''", '"""', "\\", "§ @", "def 0 { x(); }", "\u00e9\u65e5\u2028x", "?: note: x", "\t\\"]
BLOCK_COMMENTS = ["", " c ", "*", "/", "/*", "//", "\n", "'", '"', "'''", '"""', "\\", "§ @", "def 0 { x(); }", "é日", "* /", "\r\n//\n", "**"]


def _layout_for(rng: random.Random, gap: str) -> str:
    if gap == "":
        return rng.choice(LAYOUT_EMPTY_OK)
    k = rng.randint(1, 3)
    return "".join(rng.choice(LAYOUT_NONEMPTY) for _ in range(k))


def t_layout(toks, gaps, rng: random.Random, n: int):
    for i in range(n):
        ng = [_layout_for(rng, g) for g in gaps]
        yield ("layout", "random", list(toks), ng)


PURE_PUNCT = set("(){}[],;:")


def t_compact(toks, gaps, rng: random.Random, n: int):
    """Remove layout (and comments) where the grammar cannot merge the neighbours: next to ( ) { } [ ] , ; : which are
    single-character tokens and never part of a longer token."""
    removable = [i for i in range(1, len(toks)) if toks[i - 1][1][-1] in PURE_PUNCT or toks[i][1][0] in PURE_PUNCT]
    ng = list(gaps)
    for i in removable:
        ng[i] = ""
    ng[0] = ""
    ng[-1] = ""
    yield ("compact", "all", list(toks), ng)
    for _ in range(n):
        ng = list(gaps)
        for i in removable:
            if rng.random() < 0.5:
                ng[i] = ""
        yield ("compact", "random-subset", list(toks), ng)


def t_comments(toks, gaps):
    n = len(toks)
    for b in range(n + 1):
        left = toks[b - 1][0] if b > 0 else "BOF"
        right = toks[b][0] if b < n else "EOF"
        lc = LINE_COMMENTS[b % len(LINE_COMMENTS)]
        bc = BLOCK_COMMENTS[b % len(BLOCK_COMMENTS)]
        for kind, com in (("line", "//" + lc + "\n"), ("block", "/*" + bc + "*/")):
            ng = list(gaps)
            # keep the original layout on both sides of the comment; half of the time glue the comment to the left token
            ng[b] = (gaps[b] + com) if b % 2 == 0 else (com + gaps[b])
            yield (f"comment-{kind}", f"{left}|{right}", list(toks), ng)
    # an attribute-shaped comment BEHIND code on the first line is an ordinary comment (only leading `//?:` lines are attributes)
    for b in (1, 2, 3):
        if b <= n and "\n" not in "".join(gaps[:b]):
            ng = list(gaps)
            ng[b] = gaps[b] + "//?: is-ssb-script: true\n"
            yield ("comment-line", f"attribute-shaped-behind-code|{toks[b - 1][0]}", list(toks), ng)
    # start of file: a meta-attribute-shaped comment with an attribute the compiler does not know (must be inert)
    ng = list(gaps)
    ng[0] = "//?: note: x\n" + gaps[0]
    yield ("comment-line", f"BOF-meta-attribute-shaped|{toks[0][0] if toks else 'EOF'}", list(toks), ng)
    # end of file: unterminated block comment / line comment without newline (both admitted by SsbCommon.g4)
    for kind, com in (("block-unterminated-at-eof", "/* never closed"), ("line-no-newline-at-eof", "// last line")):
        ng = list(gaps)
        ng[n] = gaps[n] + com
        yield (f"comment-{kind}", f"{toks[-1][0] if toks else 'BOF'}|EOF", list(toks), ng)


def t_labels(toks, gaps):
    idx = [i for i, (ty, _tx) in enumerate(toks) if ty in ("AT", "PARAGRAPH") and (i == 0 or toks[i - 1][0] not in ("JUMP", "CALL"))
           and i + 2 < len(toks) and toks[i + 1][0] == "IDENTIFIER" and toks[i + 2][0] == "SEMI"]
    flip = {"AT": ("PARAGRAPH", "§"), "PARAGRAPH": ("AT", "@")}
    for i in idx:
        nt = list(toks)
        nt[i] = flip[toks[i][0]]
        yield ("label", f"{toks[i][0]}->{nt[i][0]}", nt, list(gaps))
    if len(idx) > 1:
        nt = list(toks)
        for i in idx:
            nt[i] = flip[toks[i][0]]
        yield ("label", "all", nt, list(gaps))


TARGETS = {"for_actor": "actor", "for_object": "object", "for_performer": "performer"}


def t_for_target(toks, gaps):
    """DEF INTEGER (FOR_TARGET | FOR IDENTIFIER) '('? integer_like ')'? '{'"""
    n = len(toks)
    for i in range(n - 3):
        if toks[i][0] != "DEF" or toks[i + 1][0] != "INTEGER":
            continue
        j = i + 2
        if toks[j][0] == "FOR_TARGET":
            head_len, word = 1, TARGETS[toks[j][1]]
        elif toks[j][0] == "FOR" and j + 1 < n and toks[j + 1][0] == "IDENTIFIER" and toks[j + 1][1] in TARGETS.values():
            head_len, word = 2, toks[j + 1][1]
        else:
            continue
        k = j + head_len
        paren = toks[k][0] == "OPEN_PAREN"
        val_i = k + (1 if paren else 0)
        end = val_i + 1 + (1 if paren else 0)  # index after the target
        if paren and toks[val_i + 1][0] != "CLOSE_PAREN":
            continue
        val = toks[val_i]
        variants = {
            "legacy-parens": [("FOR_TARGET", "for_" + word), ("OPEN_PAREN", "("), val, ("CLOSE_PAREN", ")")],
            "legacy-bare": [("FOR_TARGET", "for_" + word), val],
            "new-bare": [("FOR", "for"), ("IDENTIFIER", word), val],
            "new-parens": [("FOR", "for"), ("IDENTIFIER", word), ("OPEN_PAREN", "("), val, ("CLOSE_PAREN", ")")],
        }
        current = toks[j:end]
        for name, repl in variants.items():
            if repl == current:
                continue
            nt = toks[:j] + repl + toks[end:]
            ng = gaps[: j + 1] + [" "] * (len(repl) - 1) + gaps[end:]
            yield ("for-target", name, nt, ng)


def _arglist_parens(toks) -> list[tuple[int, int]]:
    """(open index, close index) of the parentheses of operation / macro-call argument lists."""
    out = []
    n = len(toks)
    for i, (ty, _tx) in enumerate(toks):
        if ty != "OPEN_PAREN" or i == 0:
            continue
        p = toks[i - 1][0]
        is_arglist = False
        if p == "MACRO_CALL":
            is_arglist = True
        elif p == "IDENTIFIER":
            pp = toks[i - 2][0] if i >= 2 else ""
            is_arglist = pp not in ("FOR", "MACRO")
        elif p == "CLOSE_SHARP" and i >= 5 and toks[i - 5][0] == "IDENTIFIER" and toks[i - 4][0] == "OPEN_SHARP" and toks[i - 3][0] == "IDENTIFIER":
            is_arglist = True  # op<actor X>( ... )
        if not is_arglist:
            continue
        depth = 0
        for j in range(i, n):
            if toks[j][0] == "OPEN_PAREN":
                depth += 1
            elif toks[j][0] == "CLOSE_PAREN":
                depth -= 1
                if depth == 0:
                    out.append((i, j))
                    break
    return out


def _langstring_braces(toks) -> list[tuple[int, int]]:
    out = []
    n = len(toks)
    for i in range(n - 2):
        if toks[i][0] == "OPEN_BRACE" and toks[i + 1][0] == "IDENTIFIER" and toks[i + 2][0] == "ASSIGN":
            for j in range(i, n):
                if toks[j][0] == "CLOSE_BRACE":
                    out.append((i, j))
                    break
    return out


def t_commas(toks, gaps):
    for kind, pairs in (("arglist", _arglist_parens(toks)), ("lang-string", _langstring_braces(toks))):
        for o, c in pairs:
            if c == o + 1:
                continue  # empty list: no trailing comma possible
            if toks[c - 1][0] == "COMMA":
                nt = toks[: c - 1] + toks[c:]
                ng = gaps[: c - 1] + [gaps[c - 1] + gaps[c]] + gaps[c + 1 :]
                yield ("comma", f"{kind}:removed", nt, ng)
            else:
                nt = toks[:c] + [("COMMA", ",")] + toks[c:]
                ng = gaps[:c] + ["", gaps[c]] + gaps[c + 1 :]
                yield ("comma", f"{kind}:added", nt, ng)


def _int_context(toks, i) -> str:
    prev = toks[i - 1][0] if i else "BOF"
    return {"DEF": "routine-id", "OPEN_BRACKET": "index", "CASE": "case"}.get(prev, "value")


def t_int_bases(toks, gaps):
    for i, (ty, tx) in enumerate(toks):
        if ty != "INTEGER":
            continue
        v = LIT.integer_value(tx)
        for sp, kind in V.int_spellings(v):
            if sp == tx:
                continue
            nt = list(toks)
            nt[i] = ("INTEGER", sp)
            yield ("int-base", f"{kind}:{_int_context(toks, i)}", nt, list(gaps))
    for base in ("hex", "oct", "bin"):
        nt = list(toks)
        changed = False
        for i, (ty, tx) in enumerate(toks):
            if ty == "INTEGER":
                v = LIT.integer_value(tx)
                sp = next(s for s, k in V.int_spellings(v) if k == base)
                nt[i] = ("INTEGER", sp)
                changed = True
        if changed:
            yield ("int-base", f"{base}:all", nt, list(gaps))


def _decimal_alternatives(tx: str) -> list[tuple[str, str]]:
    """(spelling, how) for every spelling of the DECIMAL token tx that differs only in leading zeros of the whole part
    (the fraction digits are never touched: trailing zeros are not in the property's list)."""
    neg = tx.startswith("-")
    s = tx[1:] if neg else tx
    whole, fract = s.split(".")
    core = whole.lstrip("0")  # '' for a zero / absent whole part
    forms = []
    if core:
        forms += [(core, "canonical"), ("0" + core, "1-zero"), ("00" + core, "2-zeros"), ("00000" + core, "5-zeros")]
    else:
        forms += [("", "no-whole-part"), ("0", "canonical"), ("00", "2-zeros"), ("0000", "4-zeros")]
    out = []
    for w, how in forms:
        sp = ("-" if neg else "") + w + "." + fract
        if sp != tx:
            assert LIT.is_decimal_spelling(sp) and LIT.decimal_value(sp) == LIT.decimal_value(tx), (tx, sp)
            out.append((sp, how))
    return out


def _decimal_class(toks, i) -> str:
    tx = toks[i][1]
    neg = tx.startswith("-")
    whole = tx.lstrip("-").split(".")[0]
    shape = ("negative" if neg else "positive") + ("-nonzero-whole" if whole.strip("0") else "-zero-whole")
    prev = toks[i - 1][0] if i else "BOF"
    in_mark = prev == "COMMA" and any(t[0] == "POSITION" for t in toks[max(0, i - 6) : i]) and not any(t[0] == "CLOSE_SHARP" for t in toks[max(0, i - 6) : i])
    return f"{shape}:{'position-mark' if in_mark else 'integer-like'}"


def t_dec_zeros(toks, gaps):
    idx = [i for i, (ty, _tx) in enumerate(toks) if ty == "DECIMAL"]
    for i in idx:
        for sp, how in _decimal_alternatives(toks[i][1]):
            nt = list(toks)
            nt[i] = ("DECIMAL", sp)
            yield ("dec-zeros", _decimal_class(toks, i), nt, list(gaps))  # the padding style (how) is visible in the re-spelled text
    # all decimals of the program at once, per padding style
    for how in ("canonical", "2-zeros", "5-zeros", "no-whole-part"):
        nt = list(toks)
        changed = False
        for i in idx:
            alt = [sp for sp, h in _decimal_alternatives(toks[i][1]) if h == how or (how == "5-zeros" and h == "4-zeros")]
            if alt:
                nt[i] = ("DECIMAL", alt[0])
                changed = True
        if changed:
            yield ("dec-zeros", "all-decimals-at-once", nt, list(gaps))


SIMPLE_BODY = re.compile(r"[^\\'\"\r\n\f]*")
QUOTED_BODY = re.compile(r"""(?:[^\\\r\n\f]|\\['"])*""")  # no backslash except in front of a quote


def t_quotes(toks, gaps):
    for i, (ty, tx) in enumerate(toks):
        if ty not in ("STRING_LITERAL", "MULTILINE_STRING_LITERAL"):
            continue
        single = ty == "STRING_LITERAL"
        body = tx[1:-1] if single else tx[3:-3]
        if single and not SIMPLE_BODY.fullmatch(body) and QUOTED_BODY.fullmatch(body):
            # a single-line body with quote characters (bare or escaped) and nothing else special: the same value in the other
            # quote style - the delimiter escaped, the other quote bare (also at the very start / end of the text)
            value = body.replace("\\'", "'").replace('\\"', '"')
            prev = toks[i - 1][0] if i else "BOF"
            where = {"IMPORT": "import", "OPEN_SHARP": "position-mark-name", "ASSIGN": "lang-string"}.get(prev, "value")
            for name, q, o in (("sq", "'", '"'), ("dq", '"', "'")):
                # the delimiter must be escaped; the other quote may be written bare or escaped - all spell the same text
                for esc_other in (False, True):
                    body2 = value.replace(q, "\\" + q)
                    if esc_other:
                        if o not in value:
                            continue
                        body2 = body2.replace(o, "\\" + o)
                    sp = q + body2 + q
                    if sp == tx:
                        continue
                    nt = list(toks)
                    nt[i] = ("STRING_LITERAL", sp)
                    yield ("quotes", f"{name}:{where}:text-with-quotes" + (":other-quote-escaped" if esc_other else ""), nt, list(gaps))
            # the same text as a multi-line literal (where the grammar allows one): the text may BEGIN with the quote character of the
            # delimiter (four quotes in a row), it must not end with it
            if prev not in ("IMPORT", "OPEN_SHARP") and value == value.strip(" \t") and value != "":
                for name, q3 in (("tsq", "'''"), ("tdq", '"""')):
                    if q3 in value or value.endswith(q3[0]) or "\\" in value:
                        continue
                    nt = list(toks)
                    nt[i] = ("MULTILINE_STRING_LITERAL", q3 + value + q3)
                    yield ("quotes", f"{name}:{where}:text-with-quotes", nt, list(gaps))
            continue
        if not SIMPLE_BODY.fullmatch(body):
            continue
        if not single and (body != body.strip(" \t") or body == ""):
            continue
        prev = toks[i - 1][0] if i else "BOF"
        only_single = prev in ("IMPORT", "OPEN_SHARP")  # import "x"; and Position<'name', ..> take STRING_LITERAL only
        forms = {"sq": f"'{body}'", "dq": f'"{body}"'}
        if not only_single and body == body.strip(" \t") and body != "":
            forms["tsq"] = f"'''{body}'''"
            forms["tdq"] = f'"""{body}"""'
        where = {"IMPORT": "import", "OPEN_SHARP": "position-mark-name", "ASSIGN": "lang-string"}.get(prev, "value")
        for name, sp in forms.items():
            if sp == tx:
                continue
            nt = list(toks)
            nt[i] = ("STRING_LITERAL" if name in ("sq", "dq") else "MULTILINE_STRING_LITERAL", sp)
            yield ("quotes", f"{name}:{where}", nt, list(gaps))


def respellings(seed: dict, ctx_seed: int, thorough: bool):
    toks, gaps = tokenize(seed["text"])
    rng = random.Random(hashlib.sha1((seed["name"] + str(ctx_seed)).encode()).hexdigest())
    yield from t_layout(toks, gaps, rng, 60 if thorough else 8)
    yield from t_compact(toks, gaps, rng, 30 if thorough else 4)
    yield from t_comments(toks, gaps)
    yield from t_labels(toks, gaps)
    yield from t_for_target(toks, gaps)
    yield from t_commas(toks, gaps)
    yield from t_int_bases(toks, gaps)
    yield from t_dec_zeros(toks, gaps)
    yield from t_quotes(toks, gaps)


# =====================================================================================================================
# evaluation
# =====================================================================================================================
def evaluate(seed: dict, base_fp: Any, transform: str, cls: str, text: str) -> dict | None:
    inp = {"seed": seed, "transform": transform, "class": cls, "respelled": text}
    try:
        fp = fingerprint(seed, text)
    except CompilerRaised as cr:
        e = cr.exc
        return {
            "signature": f"C16:{transform}:{cls}:respelling-rejected-{type(e).__name__}",
            "what": f"{transform} ({cls}) of seed {seed['name']}: the re-spelling is rejected: {type(e).__name__}: {e}"[:400],
            "input": inp,
            "contract": CONTRACT,
            "observed": f"{type(e).__name__}: {e}"[:400],
        }
    if fp != base_fp:
        return {
            "signature": f"C16:{transform}:{cls}:different-output",
            "what": f"{transform} ({cls}) of seed {seed['name']}: compiled output differs: {first_difference(base_fp, fp)}"[:400],
            "input": inp,
            "contract": CONTRACT,
            "observed": first_difference(base_fp, fp),
        }
    return None


def _w_seed(args) -> dict:
    seed, ctx_seed, thorough, lo, hi = args
    base = fingerprint(seed, seed["text"])
    n = 0
    fails = []
    per: dict[str, int] = {}
    hashes = set()
    for k, (tr, cls, nt, ng) in enumerate(respellings(seed, ctx_seed, thorough)):
        if not (lo <= k < hi):
            continue
        text = render(nt, ng)
        n += 1
        per[tr] = per.get(tr, 0) + 1
        hashes.add(hashlib.sha1(text.encode()).hexdigest())
        f = evaluate(seed, base, tr, cls, text)
        if f:
            fails.append(f)
    return {"n": n, "fails": fails, "per": per, "distinct": len(hashes)}


def accepted_seeds(ctx: Ctx) -> tuple[list[dict], list[str]]:
    ok, rejected = [], []
    for s in seed_programs(ctx):
        try:
            fingerprint(s, s["text"])
            ok.append(s)
        except CompilerRaised:
            rejected.append(s["name"])
    return ok, rejected


def run(ctx: Ctx) -> PropResult:
    res = PropResult(prop="C16", level="exploration")
    seeds, rejected = accepted_seeds(ctx)
    tasks = []
    for s in seeds:
        total = sum(1 for _ in respellings(s, ctx.seed, ctx.thorough))
        step = 150
        for lo in range(0, total, step):
            tasks.append((s, ctx.seed, ctx.thorough, lo, min(total, lo + step)))
    mp = multiprocessing.get_context("spawn")
    with mp.Pool(max(1, ctx.jobs)) as pool:
        parts = pool.map(_w_seed, tasks, chunksize=1)
    n = sum(p["n"] for p in parts)
    distinct = sum(p["distinct"] for p in parts)
    per: dict[str, int] = {}
    fails = []
    for p in parts:
        fails += p["fails"]
        for k, v in p["per"].items():
            per[k] = per.get(k, 0) + v
    fails.sort(key=lambda f: (f["signature"], len(f["input"]["respelled"]), f["input"]["respelled"]))
    seen: dict[str, int] = {}
    for f in fails:
        seen[f["signature"]] = seen.get(f["signature"], 0) + 1
        if seen[f["signature"]] <= 3:
            res.violations.append(Violation(signature=f["signature"], what=f["what"], input=f["input"], contract=f["contract"], observed=f["observed"]))
    constructs = sorted({ty for s in seeds for (ty, _tx) in tokenize(s["text"])[0]})
    res.standins.append(StandIn(
        contract=CONTRACT, tier="T3",
        bound=f"{len(seeds)} accepted seed programs (construct-coverage program, {len(SMALL)} small programs, seeded generated programs, /repo/example, "
              f"tests/fixtures) x re-spellings: {json.dumps(per, sort_keys=True)}; a comment is inserted at every token boundary of every seed",
        evaluations=n,
        distinct_nontrivial=distinct,
        exhaustive=False,
        samples=[{"seed": "small3", "transform": "label", "respelled": "def 0 { §l; a(); jump @l; }"}],
        notes=f"distinct = distinct re-spelled texts (sha1), all non-trivial (each differs from its seed). Token kinds covered by the seeds: {len(constructs)}. "
              f"Seeds rejected by the compiler and therefore not used: {rejected}",
    ))
    res.rule = "seed programs are cut into tokens by the repository lexer once; re-spellings change layout strings or single token texts (see module docstring); real compile() on both"
    res.assumptions = [
        "bounded: seeds and re-spellings listed; random layout from random.Random(sha1(seed name, VERIF_SEED))",
        "the token boundaries of the SEED come from the repository lexer; the re-spelled text is never re-lexed by the checker - its token sequence is known by construction from the grammar",
        "spec/literals.py decides which integer / decimal spellings denote the same value",
        "comments whose text starts with '?:' on the first lines are meta attributes by design; only the harmless attribute 'note' is used as comment text",
    ]
    res.trusted_base = ["props/C16.py (token-level re-spelling)", "spec/literals.py", "spec/machine.py:param_key"]
    res.extra["per_transform"] = per
    res.extra["seeds"] = [s["name"] for s in seeds]
    res.extra["signature_counts"] = dict(sorted(seen.items()))
    if n == 0:
        res.self_check_failures.append("C16: no re-spelling was evaluated")
    own_rejected = [r for r in rejected if not r.startswith("fixture/test_err")]
    if own_rejected:
        res.self_check_failures.append(f"C16: seed programs that should be accepted are rejected by the compiler: {own_rejected}")
    for need in ("layout", "compact", "comment-line", "comment-block", "label", "for-target", "comma", "int-base", "dec-zeros", "quotes"):
        if not per.get(need):
            res.self_check_failures.append(f"C16: transformation '{need}' was never applied")
    return res


def replay(record: dict, ctx: Ctx) -> bool:
    inp = record["input"]
    seed = inp["seed"]
    base = fingerprint(seed, seed["text"])
    f = evaluate(seed, base, inp["transform"], inp["class"], inp["respelled"])
    return f is not None and f["signature"] == record["signature"]
