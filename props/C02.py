"""C02 -- decompiled source denotes the input routines; recompiling preserves behaviour (bounded stand-in, tier T3).

Contract on ExplorerScriptSsbDecompiler(infos, ops, coros, ...).convert() for every well-formed routine set R
(gen.ssb.is_well_formed = the predicate in the property text):
  (1) convert() returns a text (an exception is a violation; the same classes are reported by C06);
  (2) ExplorerScriptSsbCompiler.compile(text) accepts the text;
  (3) routine ids / kinds / targets / coroutine names of the compiled result equal those of R;
  (4) per routine r:  equiv(machine(compile(text).routine_ops), entry r, machine(R, target_index="table"), entry r) is None
      (signature prefix `C02:recompiled-behaviour`);
  (5) per routine r:  equiv(sem(esast.parse(text)), entry r, machine(R), entry r) is None -- the text *read according to the
      language specification* (spec/sem.py), independent of the compiler, so that a compiler defect cannot hide a decompiler
      defect (signature prefix `C02:text-semantics`).  Skipped for SsbScript fallback output (not ExplorerScript) and counted.

Signatures (one per failure class):
  C02:convert-raises:<ExceptionType>@<file:function that raised>[<normalised message>]      (same classes as C06)
  C02:recompile-rejects:<exception signature>:<shape token of the input>
  C02:recompiled-header:<symptom>:<shape>
  C02:{recompiled-behaviour|text-semantics}:differs-{at-routine-entry|later}:{first-op-jump|call}
        inputs with a routine starting with a Jump / with Call ops: what the text does instead is arbitrary, only the place is named
  C02:{...}:printed-as:<op X>-comes-back-as-<op Y>       two ops of one special-syntax family confused (independent of the shape)
  C02:{...}:{at-routine-entry|later}:<what differs>:<shape>      everything else
  C02:{...}:op-free-cycle:<shape>                         the text can loop without performing anything
The shape token (props/_ssb_common.shape_token) is the first feature of a fixed priority list that the input has (call, first-op-jump,
cross-jump-to-..., case-without-switch, jump-targets-case-op, switch-without-case, ..., backward-jump, ..., forward-jump).

Interpretation choices: dungeon-mode integers and the DungeonModeConstants handed to the decompiler denote the same parameter
(`flag_SetDungeonMode`, `Case` under `SwitchDungeonMode`); `JumpCommon(n);` / `Destroy();` are plain operations that end the flow
(spec/sem.FLOW_ENDING_PLAIN_OPS), like the machine model treats the compiled ops.
"""
from __future__ import annotations

from typing import Any

from vlib.result import Ctx, PropResult, StandIn

from props import _ssb_common as K

CONTRACT = (
    "for well-formed R: the decompiler's text is accepted by ExplorerScriptSsbCompiler.compile; routine ids/kinds/targets/coroutine names "
    "equal those of R; every routine of compile(text) is behaviourally equivalent (spec.machine.equiv) to the same routine of R"
)
CONTRACT_SEM = (
    "for well-formed R: the decompiler's text, read by the reference semantics of the language specification (spec.sem over spec.esast), "
    "has the routine headers of R and every routine is behaviourally equivalent to the same routine of R"
)

try:  # the reference semantics is written by another agent; the second check activates when it is importable
    from spec import esast as _esast
    from spec import sem as _sem

    HAVE_SEM = True
except Exception:  # pragma: no cover
    _esast = _sem = None  # type: ignore
    HAVE_SEM = False


def _family(name: str) -> str:
    from explorerscript.ssb_converting.ssb_special_ops import OPS_BRANCH, OPS_CTX, OPS_SWITCH_CASE_MAP, OPS_SWITCH_TEXT_CASE_MAP

    if name in OPS_BRANCH:
        return "Branch*"
    if name.startswith("Case") and name not in ("CaseText",):
        return name if name == "CaseScenario" else "Case*"
    if name in OPS_CTX:
        return "ctx-op"
    if name in OPS_SWITCH_CASE_MAP:
        return "Switch*"
    if name in OPS_SWITCH_TEXT_CASE_MAP:
        return "message_Switch*"
    if name in ("CaseText", "DefaultText", "Call", "Jump", "Return", "End", "Hold", "JumpCommon", "Destroy"):
        return name
    if name.startswith("flag_"):
        return "flag_*"
    return "plain-op"


CHAOS_TOKENS = ("first-op-jump", "call")


def behaviour_symptom(prefix: str, path: list | None, shape: str) -> str:
    """Signature part for a behavioural difference (path None: the text can loop without performing anything).
    * inputs with a routine starting with a Jump, or with Call ops: whatever follows is arbitrary -> only where it differs + the shape;
    * two ops of the same special-syntax family confused, or the same op with other parameters: the op names are the symptom,
      independent of the shape;
    * otherwise where + what + shape."""
    if path is None:
        return f"{prefix}:differs-later:{shape}" if shape in CHAOS_TOKENS else f"{prefix}:op-free-cycle:{shape}"
    where, what = mismatch_class(path).split(":", 1)
    if what in KNOWN_LOSSY_SPELLINGS:
        return f"{prefix}:{what}"  # also in inputs with a leading Jump / a Call: the symptom is specific enough
    if shape in CHAOS_TOKENS:
        return f"{prefix}:differs-{where}:{shape}"
    if what.startswith("same-op-other-parameter"):
        return f"{prefix}:{what}"
    return f"{prefix}:{where}:{what}:{shape}"


KNOWN_LOSSY_SPELLINGS = (
    "printed-as:BranchValue-comes-back-as-Branch",  # `$v == 1`
    "printed-as:flag_CalcValue-comes-back-as-flag_Set",  # `$v = 1;`
    "printed-as:CaseValue-comes-back-as-CaseScenario",  # `case > 1:` under switch ( scn($v)[0] )
    "printed-as:CaseScenario-comes-back-as-CaseValue",
)
_SUPER = {"Branch*": "branch", "Case*": "case", "CaseScenario": "case", "flag_*": "flag", "Switch*": "switch", "message_Switch*": "msw", "ctx-op": "ctx"}


def mismatch_class(path: list) -> str:
    """Coarse, decidable class of a distinguishing path: where the first difference is and what kind of difference it is
    (LEFT = what the text does, RIGHT = what the input does)."""
    _m, left, right = path[-1]
    (lk, ll), (rk, rl) = left, right
    where = "at-routine-entry" if len(path) == 1 else "later"
    if lk == rk and ll and rl and ll[0] == rl[0]:
        kinds_l = [k[0] for k in ll[1]]
        kinds_r = [k[0] for k in rl[1]]
        what = f"same-op-other-parameter-{'kinds' if kinds_l != kinds_r else 'values'}({_family(ll[0])})"
    elif lk == "stop" and rk == "stop":
        what = f"stops-with-{ll[0]}-instead-of-{rl[0]}"
    elif lk == "stop":
        what = f"stops({ll[0]})-where-input-continues"
    elif rk == "stop":
        what = f"continues-where-input-stops({rl[0]})"
    elif (
        lk == rk
        and _SUPER.get(_family(ll[0])) is not None
        and _SUPER.get(_family(ll[0])) == _SUPER.get(_family(rl[0]))
        and ll[0] != rl[0]
        and (set(ll[1]) <= set(rl[1]) or set(rl[1]) <= set(ll[1]))
    ):
        what = f"printed-as:{rl[0]}-comes-back-as-{ll[0]}"  # two ops of one special-syntax family: the names themselves are the symptom
    elif _family(ll[0]) != _family(rl[0]):
        what = f"{_family(ll[0])}-instead-of-{_family(rl[0])}"
    else:
        what = "other-op"
    return f"{where}:{what}"


def check(rs: dict) -> tuple[list[tuple[str, str, str, Any]], dict]:
    """[(contract, symptom, detail, observed text)], stats."""
    from spec.machine import MalformedRoutines, OpFreeCycle, describe_path, equiv, machine

    stats = {"fallback": 0, "sem_checked": 0, "sem_skipped": 0, "raised": 0}
    es = K.EsResult(rs)
    out: list[tuple[str, str, str, Any]] = []
    if es.raised is not None:
        stats["raised"] = 1
        out.append((CONTRACT, f"convert-raises:{es.raised.sig}", es.raised.describe(), None))
        return out, stats
    text = es.text
    if es.is_fallback:
        stats["fallback"] = 1
    n_in, e_in = machine(es.ref_ops, target_index="table")
    shape = K.shape_token(rs)
    # ---- (2)-(4): through the compiler
    comp = es.recompile()
    if isinstance(comp, K.Raised):
        out.append((CONTRACT, f"recompile-rejects:{comp.sig}:{shape}", comp.describe(), text))
    else:
        for sym, detail in K.compare_routine_headers(es.ref_infos, es.ref_coros, comp.routine_infos, comp.named_coroutines):
            out.append((CONTRACT, f"recompiled-header:{sym}:{shape}", detail, text))
        if comp.routine_ops is not None and len(comp.routine_ops) == len(es.ref_ops):
            try:
                n_out, e_out = machine(comp.routine_ops, target_index="last")
                n_out = K.dmc_normalise(n_out)
            except MalformedRoutines as e:
                out.append((CONTRACT, f"recompiled-behaviour:malformed-output:{shape}", str(e), text))
                n_out = None
            if n_out is not None:
                for r in range(len(es.ref_ops)):
                    try:
                        p = equiv(n_out, e_out[r], n_in, e_in[r])
                    except OpFreeCycle:
                        out.append((CONTRACT, behaviour_symptom("recompiled-behaviour", None, shape), f"routine {r}: the recompiled routine can loop through Jump ops only", text))
                        break
                    if p is not None:
                        out.append((CONTRACT, behaviour_symptom("recompiled-behaviour", p, shape), f"routine {r}: " + describe_path(p) + "  (LEFT = recompiled text, RIGHT = input)", text))
                        break
    # ---- (5): through the reference semantics of the language
    if HAVE_SEM and not es.is_fallback:
        out += _sem_check(es, text, n_in, e_in, shape, stats)
    elif es.is_fallback:
        stats["sem_skipped"] = 1
    return out, stats


def _sem_check(es: K.EsResult, text: str, n_in, e_in, shape: str, stats: dict) -> list:
    from explorerscript.error import ParseError
    from explorerscript.ssb_converting.ssb_data_types import SsbRoutineType
    from spec.machine import OpFreeCycle, describe_path, equiv

    out = []
    try:
        prog = _esast.parse(text)
    except ParseError as e:
        return [(CONTRACT_SEM, f"text-semantics:not-explorerscript-syntax:{shape}", K.normalise_message(str(e)), text)]
    except _esast.UnsupportedSyntax as e:  # checker limitation, not a finding
        stats["sem_skipped"] = 1
        return []
    try:
        nodes, entries, headers = _sem.sem(prog, perf_var=K.PPL)
    except _sem.StaticError as e:
        return [(CONTRACT_SEM, f"text-semantics:statically-invalid[{K.normalise_message(str(e))}]:{shape}", str(e), text)]
    stats["sem_checked"] = 1
    nodes = K.dmc_normalise(nodes)
    by_id = {h["id"]: (h, entries[i]) for i, h in enumerate(headers)}
    names = K.coro_names_of_input(es.ref_infos, es.ref_coros)
    if sorted(by_id) != list(range(len(es.ref_ops))) or len(headers) != len(es.ref_ops):
        return [(CONTRACT_SEM, f"text-semantics:header:routine-ids:{shape}", f"routine ids in text {sorted(h['id'] for h in headers)}, input has {len(es.ref_ops)} routines", text)]
    for r in range(len(es.ref_ops)):
        h, entry = by_id[r]
        info = es.ref_infos[r]
        want_target = None
        if info.type not in (SsbRoutineType.GENERIC, SsbRoutineType.COROUTINE):
            want_target = info.linked_to_name if info.linked_to_name else info.linked_to
        if h["kind"] != info.type or h["target"] != want_target or h["coroutine"] != names[r]:
            out.append((CONTRACT_SEM, f"text-semantics:header:kind-target-or-name:{shape}", f"routine {r}: text says {h}, input {K.info_key(info)} {names[r]}", text))
            break
        if h["alias"] != (len(es.ref_ops[r]) == 0):
            out.append((CONTRACT_SEM, f"text-semantics:header:alias:{shape}", f"routine {r}: alias in text {h['alias']}, input has {len(es.ref_ops[r])} ops", text))
            break
        if h["alias"]:
            continue
        try:
            p = equiv(nodes, entry, n_in, e_in[r])
        except OpFreeCycle:
            out.append((CONTRACT_SEM, behaviour_symptom("text-semantics", None, shape), f"routine {r}: the text can loop without performing anything", text))
            break
        if p is not None:
            out.append((CONTRACT_SEM, behaviour_symptom("text-semantics", p, shape), f"routine {r}: " + describe_path(p) + "  (LEFT = text by language spec, RIGHT = input)", text))
            break
    return out


def _worker(args):
    shard, nshards, tier, seed, payload = args
    K.quiet()
    coll = K.Collector()
    counter: dict = {}
    hashes = set()
    stats = {"fallback": 0, "sem_checked": 0, "sem_skipped": 0, "raised": 0, "first_op_jump": 0, "first_op_jump_ok": 0}
    n = 0
    nontrivial = 0
    samples = []
    for tag, rs in K.wf_space(shard, nshards, tier, seed, counter):
        n += 1
        h = K.short_hash(rs)
        if h not in hashes:
            hashes.add(h)
            if _has_jump(rs):
                nontrivial += 1
        results, st = check(rs)
        for k, v in st.items():
            stats[k] += v
        if rs["routines"][0]["ops"] and any(r["ops"] and r["ops"][0][1] == "Jump" for r in rs["routines"]):
            stats["first_op_jump"] += 1
            if not results:
                stats["first_op_jump_ok"] += 1
        if not results and len(samples) < 2 and tag.startswith("prog"):
            samples.append(rs)
        for sig, what, clause, observed, extra in signatures_for(rs, tag, results):
            coll.add(sig, what, rs, clause, observed, extra)
    return {"n": n, "hashes": hashes, "nontrivial": nontrivial, "viol": coll.by_sig, "counter": counter, "stats": stats, "samples": samples}


def signatures_for(rs: dict, tag: str, results: list) -> list[tuple[str, str, str, Any, dict]]:
    """[(signature, what, contract, observed, extra input fields)] of one evaluated input.
    Inputs of the seed-independent families: `C02:<symptom>`.  Inputs of the seed-dependent families: the lossy spellings keep
    their (predicate) signature + `:seeded-input`; any other failure is shrunk and classified (classify_seeded):
    `C02:<prefix>:known-mechanism:<mechanism>:seeded-input` or `C02:<prefix>:unclassified:<kind>:seeded-input` (with the shrunk
    witness in the record) - the latter is by construction never a listed finding."""
    out = []
    if not results:
        return out
    if not K.is_seeded(tag):
        return [(f"C02:{symptom}", f"decompile/recompile: {symptom} -- {detail}", clause, {"detail": detail, "text": observed}, {"tag": tag}) for clause, symptom, detail, observed in results]
    other = [r for r in results if not is_lossy_symptom(r[1])]
    mech = small = None
    if other:
        mech, small, _kind = classify_seeded(rs, [r[1] for r in other])
    for clause, symptom, detail, observed in results:
        prefix = symptom.split(":", 1)[0]
        if is_lossy_symptom(symptom):
            sig = f"C02:{symptom}{K.SEEDED_SUFFIX}"
            extra = {"tag": tag}
        elif mech is not None:
            sig = f"C02:{prefix}:known-mechanism:{mech}{K.SEEDED_SUFFIX}"
            extra = {"tag": tag, "shrunk": small}
        else:
            sig = f"C02:unclassified:{kind_of(symptom)}{K.SEEDED_SUFFIX}"
            extra = {"tag": tag, "shrunk": small}
        out.append((sig, f"decompile/recompile (seed-dependent input, shrunk witness in the record): {symptom} -- {detail}", clause, {"detail": detail, "text": observed, "shrunk_input": small}, extra))
    # one violation per signature and input
    seen, uniq = set(), []
    for item in out:
        if item[0] not in seen:
            seen.add(item[0])
            uniq.append(item)
    return uniq


def _has_jump(rs: dict) -> bool:
    from explorerscript.ssb_converting.ssb_special_ops import OPS_WITH_JUMP_TO_MEM_OFFSET

    return any(o[1] in OPS_WITH_JUMP_TO_MEM_OFFSET for r in rs["routines"] for o in r["ops"])


def run(ctx: Ctx) -> PropResult:
    res = PropResult(prop="C02", level="exploration")
    results = K.run_sharded(_worker, ctx)
    coll = K.Collector()
    hashes: set = set()
    n = 0
    stats: dict = {}
    counter: dict = {}
    samples: list = []
    for r in results:
        n += r["n"]
        hashes |= r["hashes"]
        coll.merge(r["viol"])
        samples += r["samples"]
        for k, v in r["stats"].items():
            stats[k] = stats.get(k, 0) + v
        for k, v in r["counter"].items():
            counter[k] = counter.get(k, 0) + v
    nontrivial = sum(r["nontrivial"] for r in results)
    res.violations = coll.violations("routine-set")
    res.standins.append(
        StandIn(
            contract=CONTRACT,
            tier="T3",
            bound=K.wf_space_bound(ctx.tier),
            evaluations=n,
            distinct_nontrivial=min(nontrivial, len(hashes)),
            exhaustive=True,
            samples=samples[:2],
            notes="exhaustive only for the enumerated sub-space; generated programs and random lists are sampled",
        )
    )
    if HAVE_SEM:
        res.standins.append(
            StandIn(
                contract=CONTRACT_SEM,
                tier="T3",
                bound=K.wf_space_bound(ctx.tier) + " (only inputs for which convert() returned ExplorerScript, not the SsbScript fallback)",
                evaluations=stats.get("sem_checked", 0),
                distinct_nontrivial=min(stats.get("sem_checked", 0), nontrivial),
                exhaustive=True,
                samples=samples[:1],
            )
        )
    res.rule = (
        "inputs: gen.ssb (a) compiler output of generated programs renumbered as a reader delivers it, (b) enumerated op-class lists, (c) "
        "re-layouts of (a), (d) seeded random lists, hand-made shapes; all filtered by C02's well-formedness predicate; distinct = distinct "
        "sha1 of the JSON routine set; non-trivial = contains >= 1 jump-carrying op"
    )
    res.assumptions = [
        "well-formedness (3) is read as: no execution path from a routine's first op runs off the end of a routine; unreachable ops are free; "
        "a routine without ops (alias of the previous routine) is allowed except as the first routine",
        "machine model of spec/machine.py (Jump silent; Branch*/Case*/Call two-way tests; Return/End/Hold/JumpCommon/Destroy stop)",
        "parameters of ops with special syntax are within the documented ranges (operators 0..10, flags 0/1, position mark offsets 0/2)",
        "string values are restricted to values that survive print->parse (C04 owns escaping)",
        "files contain either only coroutines or none; coroutine ids are routine indices; generic routines/coroutines have no target",
    ]
    res.extra = {
        "stats": stats,
        "generated": counter.get("generated", 0),
        "filtered_not_well_formed": counter.get("not_well_formed", 0),
        "reference_semantics_check_active": HAVE_SEM,
    }
    res.trusted_base = ["gen/ssb.py (is_well_formed, generators)", "props/_ssb_common.py", "spec/machine.py", "spec/sem.py", "spec/esast.py"]
    res.functions_under_contract = [
        {"function": "ExplorerScriptSsbDecompiler.convert", "tier": "T3"},
        {"function": "ExplorerScriptSsbCompiler.compile (on decompiler output)", "tier": "T3"},
    ]
    if n == 0:
        res.self_check_failures.append("C02 contract was never evaluated")
    if stats.get("first_op_jump", 0) == 0:
        res.self_check_failures.append("C02: no input with a routine whose first op is a Jump was evaluated")
    if HAVE_SEM and stats.get("sem_checked", 0) == 0:
        res.self_check_failures.append("C02: the reference-semantics contract was never evaluated")
    return res


def replay(record: dict, ctx: Ctx) -> bool:
    K.quiet()
    rs = record["input"]["routine_set"]
    want = record["signature"]
    results, _ = check(rs)
    tag = record["input"].get("tag", "")
    return any(sig == want for sig, _w, _c, _o, _e in signatures_for(rs, tag, results))


# ------------------------------------------------------------------------------------------------ seed-dependent inputs
# A failing input of a seed-dependent family (random op list, random program, its re-layouts) cannot be listed by member id.
# It only gets the signature of a known residual mechanism if, after shrinking, a decidable predicate on the shrunk input says
# that it is an instance of that mechanism; everything else gets a generic `unclassified` signature (never a known finding).


def is_lossy_symptom(symptom: str) -> bool:
    return any(symptom.endswith(x) for x in KNOWN_LOSSY_SPELLINGS)


def kind_of(symptom: str) -> str:
    """Coarse kind of a symptom, stable under shrinking (no shape token, no position)."""
    parts = symptom.split(":")
    if parts[0] == "convert-raises":
        return symptom
    if parts[0] in ("recompile-rejects", "recompiled-header"):
        return ":".join(parts[:-1])
    if parts[0] == "text-semantics" and parts[1].startswith(("statically-invalid", "not-explorerscript-syntax", "header")):
        return ":".join(parts[:-1])
    return parts[0] + ":behaviour"


def _anchor(symptom: str, detail: str) -> str:
    i = detail.find("then LEFT does ")
    if i < 0:
        return kind_of(symptom)
    j = detail.find("  (LEFT = ", i)
    return symptom.split(":", 1)[0] + "|" + detail[i : j if j > 0 else None]


def _flow(rs: dict):
    """Global flow graph of a JSON routine set: ops, succ (machine model), routine entries, (routine, index) of every node."""
    from explorerscript.ssb_converting.ssb_special_ops import OPS_WITH_JUMP_TO_MEM_OFFSET
    from gen.ssb import STOP_OPS

    ops, where, pos = [], [], {}
    for ri, r in enumerate(rs["routines"]):
        for oi, o in enumerate(r["ops"]):
            pos[o[0]] = len(ops)
            ops.append(o)
            where.append((ri, oi))
    succ = []
    for k, (off, name, ps) in enumerate(ops):
        ri, oi = where[k]
        last = oi + 1 >= len(rs["routines"][ri]["ops"])
        s = []
        if name in OPS_WITH_JUMP_TO_MEM_OFFSET:
            t = pos.get(ps[OPS_WITH_JUMP_TO_MEM_OFFSET[name]])
            if t is not None:
                s.append(t)
            if name != "Jump" and not last:
                s.append(k + 1)
        elif name not in STOP_OPS and not last:
            s.append(k + 1)
        succ.append(s)
    entries = [pos[r["ops"][0][0]] for r in rs["routines"] if r["ops"]]
    return ops, succ, entries, where


def _skip_jumps(ops, succ, k):
    seen = set()
    while ops[k][1] == "Jump" and succ[k] and k not in seen:
        seen.add(k)
        k = succ[k][0]
    return k


def _reach(succ, start, blocked=()):
    seen, stack = set(), [start]
    while stack:
        n = stack.pop()
        if n in seen or n in blocked:
            continue
        seen.add(n)
        stack.extend(succ[n])
    return seen


def _dominators(succ, entry):
    nodes = _reach(succ, entry)
    dom = {n: set(nodes) for n in nodes}
    dom[entry] = {entry}
    preds = {n: [] for n in nodes}
    for n in nodes:
        for s in succ[n]:
            if s in preds:
                preds[s].append(n)
    changed = True
    while changed:
        changed = False
        for n in nodes:
            if n == entry:
                continue
            new = set.intersection(*(dom[p] for p in preds[n])) | {n} if preds[n] else {n}
            if new != dom[n]:
                dom[n] = new
                changed = True
    return dom


def is_branch_with_equal_successors_in_loop(rs: dict) -> bool:
    """(3) a Branch* op whose taken and not-taken successor are the same op once Jumps are skipped (at least one side runs through
    a Jump op)."""
    from explorerscript.ssb_converting.ssb_special_ops import OPS_BRANCH

    ops, succ, _entries, _w = _flow(rs)
    for k, (off, name, ps) in enumerate(ops):
        if name in OPS_BRANCH and len(succ[k]) == 2:
            a, b = _skip_jumps(ops, succ, succ[k][0]), _skip_jumps(ops, succ, succ[k][1])
            if a == b and (ops[succ[k][0]][1] == "Jump" or ops[succ[k][1]][1] == "Jump"):
                return True
    return False


def is_jump_back_to_non_dominating_loop_head(rs: dict) -> bool:
    """(2) below a Branch* op an unconditional Jump (or the branch itself) goes BACK to an op that lies on a cycle with it but does
    not dominate it (the loop has a second way in), i.e. the join of the two branch sides is only reached over a back edge."""
    from explorerscript.ssb_converting.ssb_special_ops import OPS_BRANCH

    ops, succ, entries, where = _flow(rs)
    if not any(o[1] in OPS_BRANCH for o in ops):
        return False
    for e in entries:
        dom = _dominators(succ, e)
        for k in dom:
            name = ops[k][1]
            if name != "Jump" and name not in OPS_BRANCH:
                continue
            t = succ[k][0] if succ[k] else None
            if t is None or where[t][0] != where[k][0] or where[t][1] > where[k][1]:
                continue  # not a backward jump inside the routine
            if t in dom and k in _reach(succ, t) and t not in dom[k]:
                return True
    return False


def is_if_join_in_sibling_case_body(rs: dict) -> bool:
    """(1) a switch (switch-like op followed by its case ops) and a Branch* op in the body of one case (or of the default) one of
    whose successors (not reachable otherwise from the branch's own case entry) is an op in the MIDDLE of a block that is written
    somewhere else: the body of another case, or code that is reachable from the routine entry without running through the switch."""
    from explorerscript.ssb_converting.ssb_special_ops import OPS_BRANCH, OPS_SWITCH_CASE_MAP
    from gen.ssb import CASE_OPS

    ops, succ, _entries, where = _flow(rs)
    for k, (off, name, ps) in enumerate(ops):
        if name not in OPS_SWITCH_CASE_MAP:
            continue
        cases = []
        j = k + 1
        while j < len(ops) and where[j][0] == where[k][0] and ops[j][1] in CASE_OPS:
            cases.append(j)
            j += 1
        if not cases or j >= len(ops) or where[j][0] != where[k][0]:
            continue
        entry_nodes = sorted({_skip_jumps(ops, succ, succ[c][0]) for c in cases if succ[c]} | {_skip_jumps(ops, succ, j)})
        if len(entry_nodes) < 2:
            continue
        # body of an entry: what it reaches without running through another entry
        body = {e: _reach(succ, e, blocked=[x for x in entry_nodes if x != e]) for e in entry_nodes}
        for e in entry_nodes:
            for b in body[e]:
                if ops[b][1] not in OPS_BRANCH or len(succ[b]) != 2:
                    continue
                for s in succ[b]:
                    n = _skip_jumps(ops, succ, s)
                    own_without_branch = _reach(succ, e, blocked=[x for x in entry_nodes if x != e] + [b])
                    if n in own_without_branch or n in entry_nodes:
                        continue
                    # n lies in the middle of the body of another case ...
                    if any(e2 != e and n in body[e2] for e2 in entry_nodes):
                        return True
                    # ... or in a block outside the switch that is written on its own (reachable without running through the switch)
                    routine_entry = next(x for x in range(len(ops)) if where[x] == (where[k][0], 0))
                    if n in _reach(succ, routine_entry, blocked=[k]):
                        return True
    return False


def is_code_behind_terminator_targeted_in_file_with_call(rs: dict) -> bool:
    """(4) the file contains a Call op (the decompiler then continues the flow past Return/End/Hold) and a jumping op targets an op
    that directly follows a Return/End/Hold: that code is written behind the terminator in the same block."""
    from explorerscript.ssb_converting.ssb_special_ops import OPS_WITH_JUMP_TO_MEM_OFFSET

    ops, succ, _entries, where = _flow(rs)
    if not any(o[1] == "Call" for o in ops):
        return False
    for k, (off, name, ps) in enumerate(ops):
        if name in OPS_WITH_JUMP_TO_MEM_OFFSET and succ[k]:
            t = succ[k][0]
            if where[t][1] > 0 and where[t - 1][0] == where[t][0] and ops[t - 1][1] in ("Return", "End", "Hold"):
                return True
    return False


# (name, predicate on the shrunk input, symptoms the shrunk input may show through the compiler when it is an instance)
MECHANISMS = (
    ("if-join-in-block-written-elsewhere", is_if_join_in_sibling_case_body, r"recompiled-behaviour:(later:stops\((Hold|Return|End)\)-where-input-continues:.*|differs-later:(call|first-op-jump))"),
    ("jump-back-to-non-dominating-loop-head", is_jump_back_to_non_dominating_loop_head, r"recompiled-behaviour:(later:stops\(Return\)-where-input-continues:.*|differs-later:(call|first-op-jump))"),
    ("code-behind-terminator-targeted-in-file-with-call", is_code_behind_terminator_targeted_in_file_with_call, r"recompiled-behaviour:differs-(later|at-routine-entry):call"),
    ("branch-with-equal-successors", is_branch_with_equal_successors_in_loop, r"recompiled-behaviour:(later:(?!stops).*|differs-later:(call|first-op-jump))"),
)


def shrink(rs: dict, still_fails) -> dict:
    """Greedy shrinking of a routine set: drop whole routines that nothing jumps into, then single ops (jumps to a dropped op go to
    the op after it), as long as the input stays well formed and `still_fails` holds.  Result has dense offsets."""
    import copy

    from gen import ssb

    sym = ssb.to_sym(rs)

    def try_layout(cand):
        try:
            out = ssb.layout(cand, "dense")
        except Exception:  # noqa: BLE001  (a jump lost its target)
            return None
        return out if ssb.rs_well_formed(out) and still_fails(out) else None

    changed = True
    while changed:
        changed = False
        # whole routines (never the first one: aliases need a predecessor)
        for ri in range(len(sym["routines"]) - 1, 0, -1):
            if any(t is not None and t[0] == ri for r2i, r2 in enumerate(sym["routines"]) if r2i != ri for _n, _p, t in r2["ops"]):
                continue
            cand = copy.deepcopy(sym)
            del cand["routines"][ri]
            for r2 in cand["routines"]:
                for op in r2["ops"]:
                    if op[2] is not None and op[2][0] > ri:
                        op[2][0] -= 1
            if try_layout(cand) is not None:
                sym, changed = cand, True
                break
        if changed:
            continue
        for ri in range(len(sym["routines"])):
            n = len(sym["routines"][ri]["ops"])
            for oi in range(n):
                if n <= 1:
                    break
                cand = copy.deepcopy(sym)
                cops = cand["routines"][ri]["ops"]
                del cops[oi]
                for r2 in cand["routines"]:
                    for op in r2["ops"]:
                        t = op[2]
                        if t is not None and t[0] == ri:
                            if t[1] > oi:
                                t[1] -= 1
                            elif t[1] == oi and t[1] >= len(cops):
                                t[1] = len(cops) - 1
                if try_layout(cand) is not None:
                    sym, changed = cand, True
                    break
            if changed:
                break
    return ssb.layout(sym, "dense")


def classify_seeded(rs: dict, symptoms: list[str]) -> tuple[str | None, dict, str]:
    """For a failing seed-dependent input: (mechanism or None, shrunk input, kind). The input is shrunk while a failure of the same
    kind persists (the lossy spellings do not count), then the predicates of the known residual mechanisms are evaluated on the
    shrunk input."""
    import re

    kinds = {kind_of(s) for s in symptoms}
    # Anchor of the failure: for a behavioural difference the two things done at the first difference (they carry the names and
    # parameters of the ops involved), otherwise the kind. Shrinking must keep THIS difference, so that it cannot drift from the
    # defect that made the input fail to some other (perhaps known) defect of a smaller input.
    first, _st = check(rs)
    anchors = {_anchor(s, d) for _c, s, d, _o in first if not is_lossy_symptom(s)}

    def still_fails(x: dict) -> bool:
        res, _ = check(x)
        return any(_anchor(s, d) in anchors for _c, s, d, _o in res if not is_lossy_symptom(s))

    small = shrink(rs, still_fails)
    res, _ = check(small)
    shown = [s for _c, s, _d, _o in res if s.startswith("recompiled-behaviour") and not is_lossy_symptom(s)]
    for name, pred, symptom_rx in MECHANISMS:
        if pred(small) and any(re.fullmatch(symptom_rx, s) for s in shown):
            return name, small, sorted(kinds)[0]
    return None, small, sorted(kinds)[0]
