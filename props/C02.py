"""C02 -- decompiled source denotes the input routines; recompiling preserves behaviour (bounded stand-in, tier T3).

Contract on ExplorerScriptSsbDecompiler(infos, ops, coros, ...).convert() for every well-formed routine set R
(gen.ssb.is_well_formed = the predicate in the property text):
  (1) convert() returns a text (an exception is a violation; the same classes are reported by C06);
  (2) ExplorerScriptSsbCompiler.compile(text) accepts the text;
  (3) routine ids / kinds / targets / coroutine names of the compiled result equal those of R;
  (4) per routine r:  equiv(machine(compile(text).routine_ops), entry r, machine(R, target_index="table"), entry r) is None
      (signature prefix `C02:recompiled-behaviour`);
  (5) per routine r:  equiv(sem(esast.parse(text)), entry r, machine(R), entry r) is None -- the text *read according to the
      language specification* (spec/sem.py), independent of the compiler, so that a compiler defect cannot hide a decompiler
      defect (signature prefix `C02:text-semantics`).  Skipped for SsbScript fallback output (not ExplorerScript) and counted.

Signatures (one per failure class):
  C02:convert-raises:<ExceptionType>@<file:function that raised>[<normalised message>]      (same classes as C06)
  C02:recompile-rejects:<exception signature>:<shape token of the input>
  C02:recompiled-header:<symptom>:<shape>
  C02:{recompiled-behaviour|text-semantics}:differs-{at-routine-entry|later}:{first-op-jump|call}
        inputs with a routine starting with a Jump / with Call ops: what the text does instead is arbitrary, only the place is named
  C02:{...}:printed-as:<op X>-comes-back-as-<op Y>       two ops of one special-syntax family confused (independent of the shape)
  C02:{...}:{at-routine-entry|later}:<what differs>:<shape>      everything else
  C02:{...}:op-free-cycle:<shape>                         the text can loop without performing anything
The shape token (props/_ssb_common.shape_token) is the first feature of a fixed priority list that the input has (call, first-op-jump,
cross-jump-to-..., case-without-switch, jump-targets-case-op, switch-without-case, ..., backward-jump, ..., forward-jump).

Interpretation choices: dungeon-mode integers and the DungeonModeConstants handed to the decompiler denote the same parameter
(`flag_SetDungeonMode`, `Case` under `SwitchDungeonMode`); `JumpCommon(n);` / `Destroy();` are plain operations that end the flow
(spec/sem.FLOW_ENDING_PLAIN_OPS), like the machine model treats the compiled ops.
"""
from __future__ import annotations

from typing import Any

from vlib.result import Ctx, PropResult, StandIn

from props import _ssb_common as K

CONTRACT = (
    "for well-formed R: the decompiler's text is accepted by ExplorerScriptSsbCompiler.compile; routine ids/kinds/targets/coroutine names "
    "equal those of R; every routine of compile(text) is behaviourally equivalent (spec.machine.equiv) to the same routine of R"
)
CONTRACT_SEM = (
    "for well-formed R: the decompiler's text, read by the reference semantics of the language specification (spec.sem over spec.esast), "
    "has the routine headers of R and every routine is behaviourally equivalent to the same routine of R"
)

try:  # the reference semantics is written by another agent; the second check activates when it is importable
    from spec import esast as _esast
    from spec import sem as _sem

    HAVE_SEM = True
except Exception:  # pragma: no cover
    _esast = _sem = None  # type: ignore
    HAVE_SEM = False


def _family(name: str) -> str:
    from explorerscript.ssb_converting.ssb_special_ops import OPS_BRANCH, OPS_CTX, OPS_SWITCH_CASE_MAP, OPS_SWITCH_TEXT_CASE_MAP

    if name in OPS_BRANCH:
        return "Branch*"
    if name.startswith("Case") and name not in ("CaseText",):
        return name if name == "CaseScenario" else "Case*"
    if name in OPS_CTX:
        return "ctx-op"
    if name in OPS_SWITCH_CASE_MAP:
        return "Switch*"
    if name in OPS_SWITCH_TEXT_CASE_MAP:
        return "message_Switch*"
    if name in ("CaseText", "DefaultText", "Call", "Jump", "Return", "End", "Hold", "JumpCommon", "Destroy"):
        return name
    if name.startswith("flag_"):
        return "flag_*"
    return "plain-op"


CHAOS_TOKENS = ("first-op-jump", "call")


def behaviour_symptom(prefix: str, path: list | None, shape: str) -> str:
    """Signature part for a behavioural difference (path None: the text can loop without performing anything).
    * inputs with a routine starting with a Jump, or with Call ops: whatever follows is arbitrary -> only where it differs + the shape;
    * two ops of the same special-syntax family confused, or the same op with other parameters: the op names are the symptom,
      independent of the shape;
    * otherwise where + what + shape."""
    if path is None:
        return f"{prefix}:differs-later:{shape}" if shape in CHAOS_TOKENS else f"{prefix}:op-free-cycle:{shape}"
    where, what = mismatch_class(path).split(":", 1)
    if what in KNOWN_LOSSY_SPELLINGS:
        return f"{prefix}:{what}"  # also in inputs with a leading Jump / a Call: the symptom is specific enough
    if shape in CHAOS_TOKENS:
        return f"{prefix}:differs-{where}:{shape}"
    if what.startswith("same-op-other-parameter"):
        return f"{prefix}:{what}"
    return f"{prefix}:{where}:{what}:{shape}"


KNOWN_LOSSY_SPELLINGS = (
    "printed-as:BranchValue-comes-back-as-Branch",  # `$v == 1`
    "printed-as:flag_CalcValue-comes-back-as-flag_Set",  # `$v = 1;`
    "printed-as:CaseValue-comes-back-as-CaseScenario",  # `case > 1:` under switch ( scn($v)[0] )
    "printed-as:CaseScenario-comes-back-as-CaseValue",
)
_SUPER = {"Branch*": "branch", "Case*": "case", "CaseScenario": "case", "flag_*": "flag", "Switch*": "switch", "message_Switch*": "msw", "ctx-op": "ctx"}


def mismatch_class(path: list) -> str:
    """Coarse, decidable class of a distinguishing path: where the first difference is and what kind of difference it is
    (LEFT = what the text does, RIGHT = what the input does)."""
    _m, left, right = path[-1]
    (lk, ll), (rk, rl) = left, right
    where = "at-routine-entry" if len(path) == 1 else "later"
    if lk == rk and ll and rl and ll[0] == rl[0]:
        kinds_l = [k[0] for k in ll[1]]
        kinds_r = [k[0] for k in rl[1]]
        what = f"same-op-other-parameter-{'kinds' if kinds_l != kinds_r else 'values'}({_family(ll[0])})"
    elif lk == "stop" and rk == "stop":
        what = f"stops-with-{ll[0]}-instead-of-{rl[0]}"
    elif lk == "stop":
        what = f"stops({ll[0]})-where-input-continues"
    elif rk == "stop":
        what = f"continues-where-input-stops({rl[0]})"
    elif (
        lk == rk
        and _SUPER.get(_family(ll[0])) is not None
        and _SUPER.get(_family(ll[0])) == _SUPER.get(_family(rl[0]))
        and ll[0] != rl[0]
        and (set(ll[1]) <= set(rl[1]) or set(rl[1]) <= set(ll[1]))
    ):
        what = f"printed-as:{rl[0]}-comes-back-as-{ll[0]}"  # two ops of one special-syntax family: the names themselves are the symptom
    elif _family(ll[0]) != _family(rl[0]):
        what = f"{_family(ll[0])}-instead-of-{_family(rl[0])}"
    else:
        what = "other-op"
    return f"{where}:{what}"


def check(rs: dict) -> tuple[list[tuple[str, str, str, Any]], dict]:
    """[(contract, symptom, detail, observed text)], stats."""
    from spec.machine import MalformedRoutines, OpFreeCycle, describe_path, equiv, machine

    stats = {"fallback": 0, "sem_checked": 0, "sem_skipped": 0, "raised": 0}
    es = K.EsResult(rs)
    out: list[tuple[str, str, str, Any]] = []
    if es.raised is not None:
        stats["raised"] = 1
        out.append((CONTRACT, f"convert-raises:{es.raised.sig}", es.raised.describe(), None))
        return out, stats
    text = es.text
    if es.is_fallback:
        stats["fallback"] = 1
    n_in, e_in = machine(es.ref_ops, target_index="table")
    shape = K.shape_token(rs)
    # ---- (2)-(4): through the compiler
    comp = es.recompile()
    if isinstance(comp, K.Raised):
        out.append((CONTRACT, f"recompile-rejects:{comp.sig}:{shape}", comp.describe(), text))
    else:
        for sym, detail in K.compare_routine_headers(es.ref_infos, es.ref_coros, comp.routine_infos, comp.named_coroutines):
            out.append((CONTRACT, f"recompiled-header:{sym}:{shape}", detail, text))
        if comp.routine_ops is not None and len(comp.routine_ops) == len(es.ref_ops):
            try:
                n_out, e_out = machine(comp.routine_ops, target_index="last")
                n_out = K.dmc_normalise(n_out)
            except MalformedRoutines as e:
                out.append((CONTRACT, f"recompiled-behaviour:malformed-output:{shape}", str(e), text))
                n_out = None
            if n_out is not None:
                for r in range(len(es.ref_ops)):
                    try:
                        p = equiv(n_out, e_out[r], n_in, e_in[r])
                    except OpFreeCycle:
                        out.append((CONTRACT, behaviour_symptom("recompiled-behaviour", None, shape), f"routine {r}: the recompiled routine can loop through Jump ops only", text))
                        break
                    if p is not None:
                        out.append((CONTRACT, behaviour_symptom("recompiled-behaviour", p, shape), f"routine {r}: " + describe_path(p) + "  (LEFT = recompiled text, RIGHT = input)", text))
                        break
    # ---- (5): through the reference semantics of the language
    if HAVE_SEM and not es.is_fallback:
        out += _sem_check(es, text, n_in, e_in, shape, stats)
    elif es.is_fallback:
        stats["sem_skipped"] = 1
    return out, stats


def _sem_check(es: K.EsResult, text: str, n_in, e_in, shape: str, stats: dict) -> list:
    from explorerscript.error import ParseError
    from explorerscript.ssb_converting.ssb_data_types import SsbRoutineType
    from spec.machine import OpFreeCycle, describe_path, equiv

    out = []
    try:
        prog = _esast.parse(text)
    except ParseError as e:
        return [(CONTRACT_SEM, f"text-semantics:not-explorerscript-syntax:{shape}", K.normalise_message(str(e)), text)]
    except _esast.UnsupportedSyntax as e:  # checker limitation, not a finding
        stats["sem_skipped"] = 1
        return []
    try:
        nodes, entries, headers = _sem.sem(prog, perf_var=K.PPL)
    except _sem.StaticError as e:
        return [(CONTRACT_SEM, f"text-semantics:statically-invalid[{K.normalise_message(str(e))}]:{shape}", str(e), text)]
    stats["sem_checked"] = 1
    nodes = K.dmc_normalise(nodes)
    by_id = {h["id"]: (h, entries[i]) for i, h in enumerate(headers)}
    names = K.coro_names_of_input(es.ref_infos, es.ref_coros)
    if sorted(by_id) != list(range(len(es.ref_ops))) or len(headers) != len(es.ref_ops):
        return [(CONTRACT_SEM, f"text-semantics:header:routine-ids:{shape}", f"routine ids in text {sorted(h['id'] for h in headers)}, input has {len(es.ref_ops)} routines", text)]
    for r in range(len(es.ref_ops)):
        h, entry = by_id[r]
        info = es.ref_infos[r]
        want_target = None
        if info.type not in (SsbRoutineType.GENERIC, SsbRoutineType.COROUTINE):
            want_target = info.linked_to_name if info.linked_to_name else info.linked_to
        if h["kind"] != info.type or h["target"] != want_target or h["coroutine"] != names[r]:
            out.append((CONTRACT_SEM, f"text-semantics:header:kind-target-or-name:{shape}", f"routine {r}: text says {h}, input {K.info_key(info)} {names[r]}", text))
            break
        if h["alias"] != (len(es.ref_ops[r]) == 0):
            out.append((CONTRACT_SEM, f"text-semantics:header:alias:{shape}", f"routine {r}: alias in text {h['alias']}, input has {len(es.ref_ops[r])} ops", text))
            break
        if h["alias"]:
            continue
        try:
            p = equiv(nodes, entry, n_in, e_in[r])
        except OpFreeCycle:
            out.append((CONTRACT_SEM, behaviour_symptom("text-semantics", None, shape), f"routine {r}: the text can loop without performing anything", text))
            break
        if p is not None:
            out.append((CONTRACT_SEM, behaviour_symptom("text-semantics", p, shape), f"routine {r}: " + describe_path(p) + "  (LEFT = text by language spec, RIGHT = input)", text))
            break
    return out


def _worker(args):
    shard, nshards, tier, seed, payload = args
    K.quiet()
    coll = K.Collector()
    counter: dict = {}
    hashes = set()
    stats = {"fallback": 0, "sem_checked": 0, "sem_skipped": 0, "raised": 0, "first_op_jump": 0, "first_op_jump_ok": 0}
    n = 0
    nontrivial = 0
    samples = []
    for tag, rs in K.wf_space(shard, nshards, tier, seed, counter):
        n += 1
        h = K.short_hash(rs)
        if h not in hashes:
            hashes.add(h)
            if _has_jump(rs):
                nontrivial += 1
        results, st = check(rs)
        for k, v in st.items():
            stats[k] += v
        if rs["routines"][0]["ops"] and any(r["ops"] and r["ops"][0][1] == "Jump" for r in rs["routines"]):
            stats["first_op_jump"] += 1
            if not results:
                stats["first_op_jump_ok"] += 1
        if not results and len(samples) < 2 and tag.startswith("prog"):
            samples.append(rs)
        for clause, symptom, detail, observed in results:
            coll.add(f"C02:{symptom}{K.seeded_suffix(tag)}", f"decompile/recompile: {symptom} -- {detail}", rs, clause, {"detail": detail, "text": observed}, {"tag": tag})
    return {"n": n, "hashes": hashes, "nontrivial": nontrivial, "viol": coll.by_sig, "counter": counter, "stats": stats, "samples": samples}


def _has_jump(rs: dict) -> bool:
    from explorerscript.ssb_converting.ssb_special_ops import OPS_WITH_JUMP_TO_MEM_OFFSET

    return any(o[1] in OPS_WITH_JUMP_TO_MEM_OFFSET for r in rs["routines"] for o in r["ops"])


def run(ctx: Ctx) -> PropResult:
    res = PropResult(prop="C02", level="exploration")
    results = K.run_sharded(_worker, ctx)
    coll = K.Collector()
    hashes: set = set()
    n = 0
    stats: dict = {}
    counter: dict = {}
    samples: list = []
    for r in results:
        n += r["n"]
        hashes |= r["hashes"]
        coll.merge(r["viol"])
        samples += r["samples"]
        for k, v in r["stats"].items():
            stats[k] = stats.get(k, 0) + v
        for k, v in r["counter"].items():
            counter[k] = counter.get(k, 0) + v
    nontrivial = sum(r["nontrivial"] for r in results)
    res.violations = coll.violations("routine-set")
    res.standins.append(
        StandIn(
            contract=CONTRACT,
            tier="T3",
            bound=K.wf_space_bound(ctx.tier),
            evaluations=n,
            distinct_nontrivial=min(nontrivial, len(hashes)),
            exhaustive=True,
            samples=samples[:2],
            notes="exhaustive only for the enumerated sub-space; generated programs and random lists are sampled",
        )
    )
    if HAVE_SEM:
        res.standins.append(
            StandIn(
                contract=CONTRACT_SEM,
                tier="T3",
                bound=K.wf_space_bound(ctx.tier) + " (only inputs for which convert() returned ExplorerScript, not the SsbScript fallback)",
                evaluations=stats.get("sem_checked", 0),
                distinct_nontrivial=min(stats.get("sem_checked", 0), nontrivial),
                exhaustive=True,
                samples=samples[:1],
            )
        )
    res.rule = (
        "inputs: gen.ssb (a) compiler output of generated programs renumbered as a reader delivers it, (b) enumerated op-class lists, (c) "
        "re-layouts of (a), (d) seeded random lists, hand-made shapes; all filtered by C02's well-formedness predicate; distinct = distinct "
        "sha1 of the JSON routine set; non-trivial = contains >= 1 jump-carrying op"
    )
    res.assumptions = [
        "well-formedness (3) is read as: no execution path from a routine's first op runs off the end of a routine; unreachable ops are free; "
        "a routine without ops (alias of the previous routine) is allowed except as the first routine",
        "machine model of spec/machine.py (Jump silent; Branch*/Case*/Call two-way tests; Return/End/Hold/JumpCommon/Destroy stop)",
        "parameters of ops with special syntax are within the documented ranges (operators 0..10, flags 0/1, position mark offsets 0/2)",
        "string values are restricted to values that survive print->parse (C04 owns escaping)",
        "files contain either only coroutines or none; coroutine ids are routine indices; generic routines/coroutines have no target",
    ]
    res.extra = {
        "stats": stats,
        "generated": counter.get("generated", 0),
        "filtered_not_well_formed": counter.get("not_well_formed", 0),
        "reference_semantics_check_active": HAVE_SEM,
    }
    res.trusted_base = ["gen/ssb.py (is_well_formed, generators)", "props/_ssb_common.py", "spec/machine.py", "spec/sem.py", "spec/esast.py"]
    res.functions_under_contract = [
        {"function": "ExplorerScriptSsbDecompiler.convert", "tier": "T3"},
        {"function": "ExplorerScriptSsbCompiler.compile (on decompiler output)", "tier": "T3"},
    ]
    if n == 0:
        res.self_check_failures.append("C02 contract was never evaluated")
    if stats.get("first_op_jump", 0) == 0:
        res.self_check_failures.append("C02: no input with a routine whose first op is a Jump was evaluated")
    if HAVE_SEM and stats.get("sem_checked", 0) == 0:
        res.self_check_failures.append("C02: the reference-semantics contract was never evaluated")
    return res


def replay(record: dict, ctx: Ctx) -> bool:
    K.quiet()
    rs = record["input"]["routine_set"]
    want = record["signature"]
    results, _ = check(rs)
    tag = record["input"].get("tag", "")
    return any(f"C02:{symptom}{K.seeded_suffix(tag)}" == want for _c, symptom, _d, _o in results)
