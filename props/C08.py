"""C08 - compile-time source map: every emitted op maps to where it was written (T3: bounded exploration).

Contract on ExplorerScriptSsbCompiler.compile(text, path) for every accepted program, read off `compiler.source_map`
(SourceMap.get_op_line_and_col / __direct / __macros, collect_mappings__macros, get_position_marks__direct / __macros)
and IncludedUsageMap(source_map, path).included_files.  Clauses = the sentences of the property:

  (i)   every emitted op offset has an entry;
  (ii)  an op written directly in the compiled file has a *direct* entry holding the zero-based line and the column where
        its statement - or its condition, switch or case header - begins;
  (iii) an op coming from a macro has a *macro* entry naming the defining file relative to the compiled file (None for the
        same file), the macro, the position in that file; the first op of an expansion carries `called_in` = position of
        the call (file, line, column), no other op does; the return address lies after every op of the expansion and not
        after the first op that follows it;
  (iv)  the files named by macro entries (IncludedUsageMap.included_files) are exactly the imported files that
        contributed ops;
  (v)   the recorded position marks (direct and macro) are those of the emitted SsbOpParamPositionMarker parameters.

How an op is attributed to the source.  The reference semantics (spec/sem.py, with_origin) records the AST node every
LTS node was generated from; a subclass of its builder additionally records the stack of macro expansions a node belongs
to.  machine(routine_ops) and sem are walked in lock step exactly as `equiv` does; an op that the walk pairs with the
LTS node of AST node n *is* the compiled form of n.  For it the contract accepts the start of n itself or of any header
/ statement that encloses n up to n's statement (a condition of an `elseif`: the condition, the `elseif`, the `if`) -
the property's sentence is a disjunction and the monitor does not pick one member.  Silent ops (Jump) and Returns that
the compiler inserts pair with nothing; for them the contract accepts: the statements `jump/continue/break/break_loop/
return` that sem has on the same silent stretch, or the start of a block statement / branch / else / case / loop of the
routine (or of a macro that is being expanded around that stretch), or the routine / macro header.  Unreachable ops are
only required to point at some statement / header of their routine (or of a macro expanded in the program).

Inputs: C01's program space (gen/programs.py: exhaustive skeleton families + seeded random programs) and C05's macro /
import cases (props/C05.py), every file re-laid out by `relayout`: several statements per line, random indentation
(blanks and tabs), random blank lines - the layout the fixtures never have.  Expected positions come from parsing the
re-laid text with spec/esast.py (token positions of the ANTLR lexer; nothing of the compile handlers).

Signatures: C08:<clause>:<symptom>:<decidable class of the op / statement / layout>.
"""
from __future__ import annotations

import json
import os
import random
import shutil
import sys
import tempfile
import time
from collections import Counter
from typing import Any, Optional

from vlib.result import Ctx, PropResult, StandIn, Violation

from props import C01, C05

PERF = C01.PERF
MAIN = C05.MAIN
CONTRACT = (
    "compile(): (i) every emitted op has a source-map entry; (ii) direct ops: line/column of the statement or of its "
    "condition/switch/case header; (iii) macro ops: defining file relative to the compiled file, macro name, position, "
    "called_in exactly on the first op of an expansion, max(expansion) < return_addr <= first op after it; (iv) "
    "IncludedUsageMap.included_files == imported files that contributed ops; (v) recorded position marks == emitted ones"
)
RANDOM_N = {"quick": 1500, "thorough": 30000}
FAMILY_CAP = {"quick": 10**9, "thorough": 25000}


def family_stride(tier: str, size: int) -> int:
    """every program of a family, or every k-th (fixed stride) of the families that are larger than the cap"""
    return max(1, size // FAMILY_CAP[tier])


# ====================================================================================== layout
def relayout(text: str, rng: random.Random) -> str:
    """Re-lay a text produced by gen.programs.to_text (one statement / header / brace per line, tokens never span lines):
    the lines are joined again with either blanks (several statements per line) or a line break followed by a random
    indentation (blanks, sometimes a tab); blank lines are sprinkled in.  Token order is unchanged."""
    chunks = [ln.strip() for ln in text.split("\n") if ln.strip()]
    out = []
    mode = rng.randrange(4)  # 0: mostly joined, 1: mixed, 2: mostly broken, 3: mixed with tabs
    p_join = (0.75, 0.5, 0.2, 0.5)[mode]
    if rng.random() < 0.3:
        out.append("\n" * rng.randint(1, 3))
    if rng.random() < 0.5:
        out.append(" " * rng.randint(1, 7))
    for k, ch in enumerate(chunks):
        if k > 0:
            if rng.random() < p_join:
                out.append(" " * rng.choice((1, 1, 1, 2, 5)))
            else:
                out.append("\n" * rng.choice((1, 1, 1, 2)))
                if mode == 3 and rng.random() < 0.4:
                    out.append("\t" * rng.randint(1, 2) + " " * rng.randint(0, 3))
                else:
                    out.append(" " * rng.randint(0, 11))
        out.append(ch)
    out.append(rng.choice(("\n", "", " \n\n")))
    return "".join(out)


# ====================================================================================== AST index
class Index:
    """positions of one parsed file: per AST node (by identity) the accepted positions and its container"""

    def __init__(self) -> None:
        self.info: dict = {}  # id(node) -> {"accept": frozenset, "container": key, "cls": str}
        self.all_pos: dict = {}  # container key -> set of every statement / header start
        self.block_pos: dict = {}  # container key -> set of block statement / branch / else / case starts + header
        self.marks: dict = {}  # container key -> list of (PosMark value tuple, "op" | "call", statement pos)
        self.keep: list = []  # keeps the programs alive (ids must stay unique)

    def add_program(self, prog: Any, file_key: Any) -> None:
        from spec import esast as A

        self.keep.append(prog)
        ridx = 0
        for it in prog.items:
            if isinstance(it, A.Macro):
                key = (file_key, "macro", it.name)
            else:
                key = (file_key, "routine", ridx)
                ridx += 1
            self.all_pos[key] = {it.pos}
            self.block_pos[key] = {it.pos}
            self.marks[key] = []
            if it.body is not None:
                for s in it.body:
                    self._stmt(s, key)

    def _reg(self, node: Any, key: Any, accept: set) -> None:
        self.info[id(node)] = {"accept": frozenset(accept), "container": key, "cls": type(node).__name__, "node": node}
        self.all_pos[key] |= accept

    def _marks_of(self, values: tuple, key: Any, how: str, pos: Any) -> None:
        from spec import esast as A

        for v in values:
            if isinstance(v, A.PosMark):
                self.marks[key].append(((v.name, v.x_offset, v.y_offset, v.x_relative, v.y_relative), how, pos))

    def _simple(self, s: Any, key: Any, acc: set) -> None:
        from spec import esast as A

        self._reg(s, key, acc | {s.pos})
        if isinstance(s, A.Op):
            self._marks_of(s.args, key, "op", s.pos)

    def _cond(self, c: Any, key: Any, acc: set) -> None:
        from spec import esast as A

        self._reg(c, key, acc | {c.pos})
        if isinstance(c, A.CondOperation):
            self._marks_of(c.op.args, key, "op", c.pos)

    def _stmt(self, s: Any, key: Any) -> None:
        from spec import esast as A

        acc = {s.pos}
        blk = self.block_pos[key]
        if isinstance(s, A.With):
            self._reg(s, key, acc)
            self._simple(s.stmt, key, acc)
        elif isinstance(s, A.If):
            self._reg(s, key, acc)
            blk.add(s.pos)
            for br in s.branches:
                blk.add(br.pos)
                self.all_pos[key].add(br.pos)
                for c in br.conds:
                    self._cond(c, key, acc | {br.pos})
                for x in br.body:
                    self._stmt(x, key)
            if s.else_body is not None:
                blk.add(s.else_pos)
                self.all_pos[key].add(s.else_pos)
                for x in s.else_body:
                    self._stmt(x, key)
        elif isinstance(s, A.Switch):
            self._reg(s, key, acc)
            blk.add(s.pos)
            self._reg(s.header, key, acc | {s.header.pos})
            if isinstance(s.header, A.SwOperation):
                self._marks_of(s.header.op.args, key, "op", s.pos)
            for c in s.cases:
                blk.add(c.pos)
                self.all_pos[key].add(c.pos)
                if c.header is not None:
                    self._reg(c.header, key, acc | {c.pos, c.header.pos})
                for x in c.body:
                    self._stmt(x, key)
        elif isinstance(s, A.MessageSwitch):
            self._reg(s, key, acc)
            blk.add(s.pos)
            for c in s.cases:
                self._reg(c, key, acc | {c.pos} | ({c.header.pos} if c.header is not None else set()))
        elif isinstance(s, A.Forever):
            self._reg(s, key, acc)
            blk.add(s.pos)
            for x in s.body:
                self._stmt(x, key)
        elif isinstance(s, A.While):
            self._reg(s, key, acc)
            blk.add(s.pos)
            self._cond(s.cond, key, acc)
            for x in s.body:
                self._stmt(x, key)
        elif isinstance(s, A.For):
            self._reg(s, key, acc)
            blk.add(s.pos)
            self._simple(s.init, key, acc)
            self._cond(s.cond, key, acc)
            self._simple(s.incr, key, acc)
            for x in s.body:
                self._stmt(x, key)
        elif isinstance(s, A.MacroCall):
            self._reg(s, key, acc)
            self._marks_of(s.args, key, "call", s.pos)
        else:
            self._simple(s, key, set())


# ====================================================================================== sem with expansion stacks
def sem_tracked(prog: Any, extra_macros: dict) -> tuple:
    """spec.sem.sem(..., with_origin=True) + for every LTS node the stack of macro expansions it was generated in.
    -> (nodes, entries, headers, origin, exp_of {nid: (expansion id, ...)}, exps [ {call, macro, stack} ])"""
    from spec import sem as S

    holder: list = []

    class Tracking(S._Builder):  # type: ignore[misc]
        def __init__(self, *a: Any, **k: Any) -> None:
            super().__init__(*a, **k)
            self.stack: list = []
            self.exp_of: dict = {}
            self.exps: list = []
            holder.append(self)

        def fresh(self) -> Any:
            nid = super().fresh()
            self.exp_of[nid] = tuple(self.stack)
            return nid

        def macro_call(self, s: Any, k: Any, env: Any) -> Any:
            eid = len(self.exps)
            self.exps.append({"call": s, "macro": s.name, "stack": tuple(self.stack)})
            self.stack.append(eid)
            try:
                return super().macro_call(s, k, env)
            finally:
                self.stack.pop()

    old = S._Builder
    S._Builder = Tracking
    try:
        nodes, entries, headers, origin = S.sem(prog, PERF, extra_macros=extra_macros, with_origin=True)
    finally:
        S._Builder = old
    b = holder[0]
    return nodes, entries, headers, origin, b.exp_of, b.exps


# ====================================================================================== lock-step walk
def lockstep(mn: dict, m_entry: Any, sn: dict, s_entry: Any) -> dict:
    """product walk of the compiled LTS and the reference LTS (as spec.machine.equiv), recording
    pairs {machine node: set(sem nodes)} and, per silent machine node, the sem silent nodes of the parallel stretch and
    the paired sem nodes at both ends.  Stops below a mismatching pair (`mismatch`); `opfree` on an op-free cycle."""
    res: dict = {"pairs": {}, "jctx": {}, "mismatch": False, "opfree": False}

    def skip(nodes: dict, nid: Any) -> tuple:
        chain = []
        seen = set()
        while nodes[nid].kind == "silent":
            if nid in seen:
                raise C01_OpFree()
            seen.add(nid)
            chain.append(nid)
            nid = nodes[nid].succ[0]
        return nid, chain

    def edge(m_raw: Any, s_raw: Any, s_from: Any) -> Optional[tuple]:
        try:
            m, mchain = skip(mn, m_raw)
            s, schain = skip(sn, s_raw)
        except C01_OpFree:  # an op-free cycle: nothing observable follows on this path (outside the quantifier)
            res["opfree"] = True
            return None
        for j in mchain:
            ctx = res["jctx"].setdefault(j, {"silent": set(), "adjacent": set()})
            ctx["silent"].update(schain)
            ctx["adjacent"].add(s)
            if s_from is not None:
                ctx["adjacent"].add(s_from)
        return m, s

    start = edge(m_entry, s_entry, None)
    if start is None:
        return res
    seen = {start}
    stack = [start]
    while stack:
        m, s = stack.pop()
        a, b = mn[m], sn[s]
        if a.kind != b.kind or a.label != b.label:
            res["mismatch"] = True
            continue
        res["pairs"].setdefault(m, set()).add(s)
        for sa, sb in zip(a.succ, b.succ):
            nxt = edge(sa, sb, s)
            if nxt is not None and nxt not in seen:
                seen.add(nxt)
                stack.append(nxt)
    return res


class C01_OpFree(Exception):
    pass


# ====================================================================================== evaluation of one case
def _rel(path: str, main_abs: str) -> Optional[str]:
    if os.path.realpath(path) == os.path.realpath(main_abs):
        return None
    return os.path.relpath(os.path.realpath(path), os.path.dirname(os.path.realpath(main_abs)))


def op_class(name: str) -> str:
    from explorerscript.ssb_converting.ssb_special_ops import OPS_WITH_JUMP_TO_MEM_OFFSET

    if name == "Jump":
        return "Jump"
    if name in ("Return", "End", "Hold"):
        return name
    if name in OPS_WITH_JUMP_TO_MEM_OFFSET:
        return "Case*" if name.startswith("Case") else "Branch*" if name.startswith("Branch") else name
    if name.startswith("Switch") or name.startswith("message_Switch"):
        return "Switch*"
    return "op"


def evaluate(case: dict, root: Optional[str], parsed: Any = None) -> dict:
    """-> {"problems": [(signature, detail)], "selfcheck": [], "stats": Counter, "accepted": bool}
    parsed: the esast.Program of the main file if the caller has it already (single-file cases)"""
    from explorerscript.error import ParseError, SsbCompilerError
    from explorerscript.included_usage_map import IncludedUsageMap
    from explorerscript.ssb_converting.ssb_data_types import SsbOpParamPositionMarker

    from spec import esast
    from spec import sem as S
    from spec.machine import MalformedRoutines, machine

    out: dict = {"problems": [], "selfcheck": [], "stats": Counter(), "accepted": False}
    problems = out["problems"]
    stats = out["stats"]
    single = len(case["files"]) == 1 and 'import "' not in case["files"][case["main"]]
    if single:
        main_abs = "/nonexistent/" + os.path.basename(case["main"])
        text = case["files"][case["main"]]
        prog = parsed if parsed is not None else esast.parse(text)
        oracle = {"main": prog, "main_path": main_abs, "files": {main_abs: prog}, "macros": {m.name: (m, main_abs) for m in prog.macros}}
        texts = {main_abs: text}
        lookup_abs: list = []
    else:
        assert root is not None
        main_abs, lookup_abs, _ = C05.write_case(case, root)
        try:
            oracle = C05.oracle_load(main_abs, lookup_abs)
        except C05.OracleReject:
            return out
        main_abs = oracle["main_path"]
        texts = {}
        for p in oracle["files"]:
            with open(p, encoding="utf-8") as fh:
                texts[p] = fh.read()
        text = texts[main_abs]
    try:
        from explorerscript.ssb_converting.ssb_compiler import ExplorerScriptSsbCompiler

        c = ExplorerScriptSsbCompiler(PERF, list(lookup_abs))
        c.compile(text, main_abs)
    except (SsbCompilerError, ParseError):
        stats["not-accepted"] += 1
        return out
    except Exception:  # noqa: BLE001 - C01 / C05 / C10 report exceptions of compile(); here the program is simply not accepted
        stats["not-accepted"] += 1
        return out
    out["accepted"] = True
    sm = c.source_map
    try:
        nodes, entries, headers, origin, exp_of, exps = sem_tracked(oracle["main"], {k: m for k, (m, _) in oracle["macros"].items()})
    except S.StaticError as e:
        out["selfcheck"].append(f"compiler accepted a program the reference semantics calls invalid: {e}")
        return out
    try:
        mn, me = machine(c.routine_ops)
    except MalformedRoutines:
        stats["malformed-output"] += 1
        return out
    idx = Index()
    for p, prog_p in oracle["files"].items():
        idx.add_program(prog_p, p)
    macro_key = {name: (path, "macro", name) for name, (m, path) in oracle["macros"].items()}
    direct_imports = set()
    if not single:
        direct_imports = set(oracle["imports_of"][main_abs])

    def file_class(path: str) -> str:
        if path == main_abs:
            return "same-file"
        return "imported-file" if path in direct_imports else "transitively-imported-file"

    # ---- routine index <-> source routine
    rid_to_src = {h["id"]: k for k, h in enumerate(headers)}
    emitted = []  # (offset, routine id, op)
    for rid, r in enumerate(c.routine_ops):
        for op in r:
            emitted.append((op.offset, rid, op))
    offsets_sorted = sorted(o for o, _, _ in emitted)
    if len(set(offsets_sorted)) != len(offsets_sorted):
        return out

    # ---- pairing
    pairs: dict = {}
    jctx: dict = {}
    bad_routines = set()
    for k, h in enumerate(headers):
        if h["alias"]:
            continue
        rid = h["id"]
        if rid >= len(me):
            continue
        r = lockstep(mn, me[rid], nodes, entries[k])
        if r["opfree"]:
            stats["routines-with-an-op-free-cycle(partly walked)"] += 1
        if r["mismatch"]:
            stats["routines-not-equivalent(C01)"] += 1
            bad_routines.add(rid)
            continue
        stats["routines-walked"] += 1
        for m, ss in r["pairs"].items():
            pairs.setdefault(m, set()).update(ss)
        for m, ctx in r["jctx"].items():
            cur = jctx.setdefault(m, {"silent": set(), "adjacent": set()})
            cur["silent"] |= ctx["silent"]
            cur["adjacent"] |= ctx["adjacent"]

    def expected_of(s: Any) -> Optional[tuple]:
        """("direct", None, None, accept, info) | ("macro", relpath, macro name, accept, info) | None (no source statement)"""
        n = origin.get(s)
        if n is None:
            return None
        inf = idx.info.get(id(n))
        if inf is None:
            return None
        fkey, kind, name = inf["container"]
        if kind == "routine":
            return ("direct", None, None, inf["accept"], inf)
        return ("macro", _rel(fkey, main_abs), name, inf["accept"], inf)

    def entry_of(off: int) -> tuple:
        d, m = sm.get_op_line_and_col__direct(off), sm.get_op_line_and_col__macros(off)
        return d, m

    def block_alternatives(rid: int, sem_nodes: set, everything: bool) -> list:
        alts = []
        src = rid_to_src.get(rid)
        if src is not None:
            key = (main_abs, "routine", src)
            alts.append(("direct", None, None, frozenset(idx.all_pos[key] if everything else idx.block_pos[key])))
        eids = set()
        if everything:
            eids = set(range(len(exps)))
        else:
            for s in sem_nodes:
                eids.update(exp_of.get(s, ()))
        for e in sorted(eids):
            key = macro_key.get(exps[e]["macro"])
            if key is not None:
                alts.append(("macro", _rel(key[0], main_abs), key[2], frozenset(idx.all_pos[key] if everything else idx.block_pos[key])))
        return alts

    def matches(alt: tuple, d: Any, m: Any) -> bool:
        if alt[0] == "direct":
            return d is not None and (d.line, d.column) in alt[3]
        return d is None and m is not None and m.relpath_included_file == alt[1] and m.macro_name == alt[2] and (m.line, m.column) in alt[3]

    # ---- (i) (ii) (iii: file / macro / position)
    for off, rid, op in emitted:
        stats["ops"] += 1
        name = op.op_code.name
        d, m = entry_of(off)
        if sm.get_op_line_and_col(off) is None:
            problems.append((f"C08:i:no-entry:{op_class(name)}", f"op {name}@{off} has no source map entry"))
            continue
        node = ("o", off)
        if rid in bad_routines:
            stats["ops-in-routines-not-equivalent(weak check only)"] += 1
            if not any(matches(a, d, m) for a in block_alternatives(rid, set(), True)):
                problems.append((f"C08:ii-iii:op-in-non-equivalent-routine:{op_class(name)}:not-a-statement-of-its-routine", f"{name}@{off}"))
            continue
        partners = sorted(pairs.get(node, ()), key=str)
        exp_list = [e for e in (expected_of(s) for s in partners) if e is not None]
        if exp_list:
            stats["ops-paired"] += 1
            if d is not None and m is not None:
                stats["entries-both-direct-and-macro"] += 1
            if any(matches(e, d, m) for e in exp_list):
                continue
            e = exp_list[0]
            inf = e[4]
            cls = inf["cls"]
            want = f"{e[0]} {e[1] or ''} {e[2] or ''} at one of {sorted(e[3])}"
            if e[0] == "direct":
                if d is None:
                    problems.append((f"C08:ii:macro-entry-for-direct-op:{cls}", f"{name}@{off}: macro entry {m.serialize()}, expected {want}"))
                else:
                    rel = "start-of-another-statement-or-header" if (d.line, d.column) in idx.all_pos[inf["container"]] else "not-a-statement-start"
                    problems.append((f"C08:ii:position:{cls}:{rel}", f"{name}@{off}: entry ({d.line}, {d.column}), expected {want}"))
            else:
                fcls = file_class(inf["container"][0])
                if m is None or d is not None:
                    problems.append((f"C08:iii:direct-entry-for-macro-op:{cls}", f"{name}@{off}: direct entry {d.serialize() if d else None}, expected {want}"))
                elif m.relpath_included_file != e[1]:
                    got = "None" if m.relpath_included_file is None else "another-imported-file"
                    problems.append((f"C08:iii:defining-file:macro-in-{fcls}:entry-names-{got}",
                                     f"{name}@{off}: entry names file {m.relpath_included_file!r}, macro {e[2]} is defined in {e[1]!r}"))  # fmt: skip
                elif m.macro_name != e[2]:
                    problems.append((f"C08:iii:macro-name:{cls}", f"{name}@{off}: entry names macro {m.macro_name!r}, expected {e[2]!r}"))
                else:
                    rel = "start-of-another-statement-or-header" if (m.line, m.column) in idx.all_pos[inf["container"]] else "not-a-statement-start"
                    problems.append((f"C08:iii:position:{cls}:{rel}", f"{name}@{off}: entry ({m.line}, {m.column}) in macro {e[2]}, expected {want}"))
            continue
        # silent / inserted / unreachable ops
        ctx = jctx.get(node)
        reached = ctx is not None or node in pairs
        alts: list = []
        if ctx is not None:
            for s in sorted(ctx["silent"], key=str):
                e = expected_of(s)
                if e is not None:
                    alts.append(e[:4])
            alts += block_alternatives(rid, ctx["silent"] | ctx["adjacent"], False)
        elif node in pairs:  # paired with a node that has no source statement (running off the end of the routine)
            alts += block_alternatives(rid, set(pairs[node]), False)
            # a `return` the compiler made out of a jump to the end of the routine may carry that statement's position
            src = rid_to_src.get(rid)
            if src is not None:
                alts.append(("direct", None, None, frozenset(idx.all_pos[(main_abs, "routine", src)])))
                alts += block_alternatives(rid, set(), True)[1:]
        else:
            stats["ops-unreachable"] += 1
            alts += block_alternatives(rid, set(), True)
        stats["ops-silent-or-inserted" if reached else "ops-unreachable-checked"] += 1
        if not any(matches(a, d, m) for a in alts):
            got = d.serialize() if d is not None else m.serialize()
            other_file = [a for a in alts if a[0] == "macro" and d is None and m is not None and m.macro_name == a[2] and (m.line, m.column) in a[3]]
            if other_file:  # right macro, right position, wrong file: the same symptom as for paired ops
                fcls = file_class(macro_key[other_file[0][2]][0])
                gotf = "None" if m.relpath_included_file is None else "another-imported-file"
                problems.append((f"C08:iii:defining-file:macro-in-{fcls}:entry-names-{gotf}",
                                 f"{name}@{off}: entry names file {m.relpath_included_file!r}, macro {m.macro_name} is defined in {other_file[0][1]!r}"))  # fmt: skip
                continue
            sig = (f"C08:ii-iii:inserted-or-silent-op:{op_class(name)}:not-a-block-or-jump-statement-of-its-routine" if reached
                   else f"C08:ii-iii:unreachable-op:{op_class(name)}:not-a-statement-of-its-routine")  # fmt: skip
            problems.append((sig,
                             f"{name}@{off}: entry {got}; accepted {[(a[0], a[1], a[2], sorted(a[3])) for a in alts]}"))  # fmt: skip

    # ---- (iii) expansions: called_in and return address
    exp_ops: dict = {}  # expansion id -> offsets of paired ops inside it (nested ones included)
    innermost: dict = {}  # offset -> set of innermost expansion ids
    for node, ss in pairs.items():
        if node[0] != "o":
            continue
        for s in ss:
            st = exp_of.get(s, ())
            for e in st:
                exp_ops.setdefault(e, set()).add(node[1])
            if st:
                innermost.setdefault(node[1], set()).add(st[-1])
    unpaired_macro = set()
    for off, rid, op in emitted:
        if ("o", off) not in pairs and sm.get_op_line_and_col__direct(off) is None and sm.get_op_line_and_col__macros(off) is not None:
            unpaired_macro.add(off)
    pos_in_sorted = {o: k for k, o in enumerate(offsets_sorted)}
    lo = {e: min(v) for e, v in exp_ops.items()}
    hi = {e: max(v) for e, v in exp_ops.items()}

    def call_site(e: int) -> tuple:
        call = exps[e]["call"]
        inf = idx.info[id(call)]
        return (_rel(inf["container"][0], main_abs), call.pos[0], call.pos[1])

    routine_of = {o: rid for o, rid, _ in emitted}
    by_lo: dict = {}
    for e, o in lo.items():
        by_lo.setdefault(o, set()).add(e)
    first_ops = set()
    for o, es in sorted(by_lo.items()):
        if routine_of[o] in bad_routines:
            continue
        # candidates for "the first op of the expansion": the first paired op and the run of unpaired macro ops before it
        cand = [o]
        k = pos_in_sorted[o] - 1
        while k >= 0 and offsets_sorted[k] in unpaired_macro and routine_of[offsets_sorted[k]] == routine_of[o]:
            cand.append(offsets_sorted[k])
            k -= 1
        first_ops.update(cand)
        want = {call_site(e) for e in es}
        got = []
        for q in cand:
            mq = sm.get_op_line_and_col__macros(q)
            if mq is not None and mq.called_in is not None:
                got.append(tuple(mq.called_in))
        stats["expansions-checked"] += len(es)
        if not any(g in want for g in got):
            e0 = sorted(es)[0]
            same_pos = [e for e in sorted(es) for g in got if g[1:] == call_site(e)[1:]]
            if same_pos:  # right position, wrong file: class = where the call is written
                # (two call sites may share line and column in different files: a recorded file name that is not None
                # can only be a mislabelled imported file)
                if any(g[0] is not None for g in got):
                    same_pos.sort(key=lambda e: (call_site(e)[0] is None, e))
                e0 = same_pos[0]
                cls2 = "wrong-file:call-written-in-" + file_class(idx.info[id(exps[e0]["call"])]["container"][0])
            else:
                cls2 = ("missing" if not got else "wrong-position") + (":nested-call" if exps[e0]["stack"] else ":routine-level-call")
            problems.append((f"C08:iii:called_in:{cls2}",
                             f"first op @{o} of expansion of {exps[e0]['macro']}: called_in {got}, expected one of {sorted(want, key=str)}"))  # fmt: skip
    for off, rid, op in emitted:
        if rid in bad_routines or off in first_ops or ("o", off) not in pairs or off not in innermost:
            continue
        mq = sm.get_op_line_and_col__macros(off)
        if mq is not None and mq.called_in is not None:
            problems.append(("C08:iii:called_in:on-an-op-that-is-not-the-first-of-an-expansion", f"{op.op_code.name}@{off}: called_in {mq.called_in}"))
    for off, es in sorted(innermost.items()):
        if routine_of[off] in bad_routines:
            continue
        mq = sm.get_op_line_and_col__macros(off)
        if mq is None:
            continue
        ok = False
        detail = ""
        for e in sorted(es):
            # first emitted op behind the expansion that is certainly not part of it
            nxt = None
            for q in offsets_sorted[pos_in_sorted[hi[e]] + 1 :]:
                if q in exp_ops[e] or q in unpaired_macro:
                    continue
                nxt = q
                break
            ra = mq.return_addr
            if ra is not None and ra > hi[e] and (nxt is None or ra <= nxt):
                ok = True
            detail = f"return_addr {ra}; expansion of {exps[e]['macro']} has paired ops {lo[e]}..{hi[e]}, first op behind it {nxt}"
        stats["return-addresses-checked"] += 1
        if not ok:
            e0 = sorted(es)[0]
            depth = "nested" if exps[e0]["stack"] else "routine-level"
            problems.append((f"C08:iii:return-address:{depth}-expansion", f"@{off}: {detail}"))

    # ---- (iv) included files
    if not any(r in bad_routines for r in range(len(c.routine_ops))):
        lower = set()
        for node, ss in pairs.items():
            for s in ss:
                e = expected_of(s)
                if e is not None and e[0] == "macro" and e[4]["container"][0] != main_abs:
                    lower.add(e[4]["container"][0])
        upper = set()
        for ex in exps:
            key = macro_key.get(ex["macro"])
            if key is not None and key[0] != main_abs:
                upper.add(key[0])
        got_files = {os.path.realpath(p) for p in IncludedUsageMap(sm, main_abs).included_files}
        stats["included-files-checked"] += 1
        for f in sorted(lower - got_files):
            problems.append((f"C08:iv:included-files:missing:{file_class(f)}", f"{_rel(f, main_abs)} contributed ops but is not in included_files {sorted(got_files)}"))
        for f in sorted(got_files - upper):
            fc = file_class(f) if f in oracle["files"] else "not-an-imported-file"
            problems.append((f"C08:iv:included-files:extra:{fc}", f"{f} is in included_files but no op comes from it (files with expanded macros: {sorted(upper)})"))

    # ---- (v) position marks
    def val(pm: Any) -> tuple:
        return (pm.name, pm.x_offset, pm.y_offset, pm.x_relative, pm.y_relative)

    emitted_marks = [val(p) for _, _, op in emitted for p in op.params if isinstance(p, SsbOpParamPositionMarker)]
    rec_direct = list(sm.get_position_marks__direct())
    rec_macro = list(sm.get_position_marks__macros())
    recorded_vals = {val(pm) for pm in rec_direct} | {val(t[2]) for t in rec_macro}
    if emitted_marks or rec_direct or rec_macro:
        stats["programs-with-position-marks"] += 1
    for v in sorted(set(emitted_marks) - recorded_vals):
        problems.append(("C08:v:position-mark:emitted-but-not-recorded", f"emitted position mark {v} is in no recorded list"))
    # written marks: in routines of the compiled file -> direct; in bodies of expanded macros -> macro (file, macro)
    lower_d: Counter = Counter()
    upper_d: Counter = Counter()
    for key, lst in idx.marks.items():
        if key[0] == main_abs and key[1] == "routine":
            for v, how, _ in lst:
                upper_d[v] += 1
                if how == "op":
                    lower_d[v] += 1
    got_d = Counter(val(pm) for pm in rec_direct)
    for v in sorted(set(lower_d) | set(got_d)):
        if not (lower_d[v] <= got_d[v] <= upper_d[v]):
            sym = "missing" if got_d[v] < lower_d[v] else "not-written-in-a-routine-of-the-compiled-file"
            problems.append((f"C08:v:position-mark:direct:{sym}", f"direct mark {v}: recorded {got_d[v]}x, written in routines {lower_d[v]}..{upper_d[v]}x"))
    expanded = {macro_key[ex["macro"]] for ex in exps if ex["macro"] in macro_key}
    lower_m, upper_m = set(), set()
    for key in expanded:
        for v, how, _ in idx.marks[key]:
            t = (_rel(key[0], main_abs), key[2], v)
            upper_m.add(t)
            if how == "op":
                lower_m.add(t)
    got_m = {(t[0], t[1], val(t[2])) for t in rec_macro}
    if not any(r in bad_routines for r in range(len(c.routine_ops))):
        for t in sorted(got_m - upper_m, key=str):
            if any(u[1:] == t[1:] for u in upper_m):  # the mark of an expanded macro, under another file
                kind = "None" if t[0] is None else "another-imported-file"
                want_files = sorted({str(u[0]) for u in upper_m if u[1:] == t[1:]})
                problems.append((f"C08:v:position-mark:macro:defining-file:recorded-{kind}", f"recorded macro mark {t}; macro {t[1]} is defined in {want_files}"))
            else:
                problems.append(("C08:v:position-mark:macro:not-written-in-an-expanded-macro", f"recorded macro mark {t}"))
        for t in sorted(lower_m - got_m, key=str):
            if not any(g[1:] == t[1:] for g in got_m):
                problems.append(("C08:v:position-mark:macro:missing", f"mark {t} written in an expanded macro; recorded macro marks {sorted(got_m, key=str)}"))
    # span of recorded marks: must enclose the literal it stands for (the property does not ask for more)
    def span_ok(pm: Any, text_of_file: Optional[str]) -> bool:
        if text_of_file is None:
            return True
        lines = text_of_file.split("\n")
        if not (0 <= pm.line_number < len(lines) and 0 <= pm.end_line_number < len(lines)):
            return False
        if (pm.line_number, pm.column_number) > (pm.end_line_number, pm.end_column_number):
            return False
        if pm.line_number == pm.end_line_number:
            piece = lines[pm.line_number][pm.column_number : pm.end_column_number + 1]
        else:
            piece = "\n".join([lines[pm.line_number][pm.column_number :]] + lines[pm.line_number + 1 : pm.end_line_number] + [lines[pm.end_line_number][: pm.end_column_number + 1]])
        return f"Position<'{pm.name}'" in piece and ";" not in piece

    for pm in rec_direct:
        stats["mark-spans-checked"] += 1
        if not span_ok(pm, texts.get(main_abs)):
            problems.append(("C08:v:position-mark:direct:span-does-not-enclose-the-literal", f"{pm}"))
    for relp, mname, pm in rec_macro:
        key = macro_key.get(mname)
        if key is None:
            continue
        stats["mark-spans-checked"] += 1
        if not span_ok(pm, texts.get(key[0])):
            problems.append(("C08:v:position-mark:macro:span-does-not-enclose-the-literal", f"{relp} {mname} {pm}"))
    if root is not None:
        out["problems"] = [(sig, detail.replace(root, "<scratch>")) for sig, detail in problems]
    return out


# ====================================================================================== work items
def work_items(ctx: Ctx) -> list:
    from gen import programs as P

    items: list = []
    for fi, fam in enumerate(P.space(ctx.tier)):
        items += [("x", fi, i, ctx.tier) for i in range(0, len(fam), family_stride(ctx.tier, len(fam)))]
    items += [("r", ctx.seed, i) for i in range(RANDOM_N[ctx.tier])]
    k4 = 0
    for s in C05.work_specs(ctx.tier):
        if s[0] == "dag":
            if s[1] >= 4:  # thorough: every 3rd of the 4-macro cases (C05 itself compiles all of them)
                k4 += 1
                if k4 % 3 != 1:
                    continue
            items.append(("m",) + s)
        elif s[1]["expect"] == "accept":
            items.append(("m",) + s)
    return items


_CACHE: dict = {}


def load_item(item: tuple, seed: int) -> Optional[dict]:
    """work item -> case with re-laid files (None: statically invalid skeleton).  The layout depends only on the seed and
    on the identity of the item (family name + index / random index / content of the C05 case), not on its position in
    the work list, so member ids stay the same when other parts of the space change."""
    from gen import programs as P

    if item[0] in ("x", "r"):
        prog = C01._load(item, _CACHE)
        if prog is None:
            return None
        ident = f"x/{_CACHE[('space', item[3])][item[1]].name}/{item[2]}" if item[0] == "x" else f"r/{item[1]}/{item[2]}"
        rng = random.Random(f"C08/{seed}/{ident}")
        text = P.to_text(prog)
        return {"family": "c01", "files": {MAIN: relayout(text, rng)}, "main": MAIN, "lookup": [], "meta": {"item": list(item)}, "plain": prog}
    case = C05.load_case(tuple(item[1:]))
    rng = random.Random(f"C08/{seed}/m/{C05.case_id(case)}")
    files = {}
    for rel in sorted(case["files"]):
        text = case["files"][rel]
        files[rel] = relayout(text, rng) if rel.endswith(".exps") else text
    return dict(case, files=files)


def _worker(args: tuple) -> dict:
    try:
        return _worker_impl(args)
    except Exception:  # noqa: BLE001
        import traceback

        raise RuntimeError("checker crash in worker: " + traceback.format_exc()) from None


def _worker_impl(args: tuple) -> dict:
    items, seed = args
    from spec import esast

    res: dict = {"evaluations": 0, "invalid": 0, "accepted": 0, "stats": Counter(), "hashes": [], "violations": {}, "selfcheck": [], "by_family": Counter()}
    root = os.path.realpath(tempfile.mkdtemp(prefix="verif-"))
    try:
        for k, item in enumerate(items):
            case = load_item(item, seed)
            if case is None:
                res["invalid"] += 1
                continue
            parsed = None
            if case["family"] == "c01":
                # the layout change must not change the program
                plain = case.pop("plain")
                parsed = esast.parse(case["files"][MAIN])
                if parsed != plain:
                    res["selfcheck"].append("relayout changed the AST: " + repr(case["files"][MAIN])[:300])
                    continue
                sub = None
            else:
                sub = os.path.join(root, f"c{k}")
                os.makedirs(sub)
            try:
                o = evaluate(case, sub, parsed)
            finally:
                if sub is not None:
                    shutil.rmtree(sub, ignore_errors=True)
            cid = C05.case_id(case)
            res["evaluations"] += 1
            res["accepted"] += 1 if o["accepted"] else 0
            res["stats"].update(o["stats"])
            res["by_family"][case["family"]] += 1
            multi_stmt_line = any(ln.count(";") > 1 for t in case["files"].values() for ln in t.split("\n"))
            res["hashes"].append((cid, multi_stmt_line))
            res["selfcheck"] += o["selfcheck"]
            size = 100000 * len(case["files"]) + sum(len(t) for t in case["files"].values())
            seen_here = set()
            for sig, detail in o["problems"]:
                if sig in seen_here:
                    continue
                seen_here.add(sig)
                small = {k2: case[k2] for k2 in ("family", "files", "main", "lookup", "meta") if k2 in case}
                if "mkdirs" in case:
                    small["mkdirs"] = case["mkdirs"]
                rec = {"case": small, "detail": detail, "size": size}
                v = res["violations"].get(sig)
                if v is None:
                    res["violations"][sig] = dict(rec, count=1, members=[cid])
                else:
                    v["count"] += 1
                    if len(v["members"]) < C01.MEMBER_CAP:
                        v["members"].append(cid)
                    if (size, cid) < (v["size"], C05.case_id(v["case"])):
                        v.update(rec)
    finally:
        shutil.rmtree(root, ignore_errors=True)
    return res


def merge(outs: list) -> dict:
    viol: dict = {}
    for o in outs:
        for sig, v in o["violations"].items():
            if sig not in viol:
                viol[sig] = dict(v, members=list(v["members"]))
                continue
            cur = viol[sig]
            total, members = cur["count"] + v["count"], cur["members"] + list(v["members"])
            if (v["size"], C05.case_id(v["case"])) < (cur["size"], C05.case_id(cur["case"])):
                cur = dict(v)
            cur["count"], cur["members"] = total, members
            viol[sig] = cur
    for v in viol.values():
        v["members"] = sorted(set(v["members"]))[: C01.MEMBER_CAP]
    return viol


def run(ctx: Ctx) -> PropResult:
    t0 = time.time()
    res = PropResult(prop="C08", level="exploration")
    items = work_items(ctx)
    res.rule = (
        "programs = C01's space (gen/programs.py families [" + C01.describe_space(ctx.tier) + "], every program"
        + (f" - of families above {FAMILY_CAP[ctx.tier]} programs every k-th, k = size // {FAMILY_CAP[ctx.tier]}" if ctx.tier == "thorough" else "")
        + f"; + {RANDOM_N[ctx.tier]} "
        "seeded random programs) and C05's macro/import cases (props/C05.py: all DAG call graphs x definition orders x "
        "file layouts + import layouts; of the 4-macro cases of the thorough tier every 3rd), every file re-laid out by a seeded random layout (several statements per line, "
        "random indentation with blanks/tabs, blank lines); compiled by the real compiler; every emitted op is attributed "
        "to its AST node by walking machine(routine_ops) and the reference semantics in lock step, and its source map entry "
        "compared with the token positions of an independent parse. distinct = distinct (files, main, lookup) triples "
        "(sha1); non-trivial = some line of some file holds more than one statement."
    )
    res.assumptions = [
        "ANTLR lexer/parser produce the parse tree the grammar defines; token line/column are those of the ANTLR lexer",
        "spec/sem.py, spec/machine.py, spec/esast.py as in C01; props/C05.py resolve_import as in C05",
        "choice (DESIGN 7): an op paired with AST node n may point at n, or at any header / statement enclosing n up to n's statement",
        "choice: inserted / silent ops (Jump, Return from a jump to the routine end) may point at any block statement, "
        "branch, else, case or loop start of their routine (or of a macro expanded around them), at the routine/macro "
        "header, or at a jump/continue/break/break_loop/return statement lying on the same silent stretch of the reference LTS",
        "choice: unreachable ops only need to point at some statement/header of their routine or of an expanded macro",
        "choice: when several expansions start at the same op (a macro body that starts with a macro call), called_in may be the call site of any of them",
        "choice: 'first op after the expansion' is the smallest emitted op number above the expansion; unpaired ops with a macro entry directly behind an expansion are taken as possibly belonging to it (bound only loosened)",
        "choice (v): every emitted position-mark value must be recorded; direct marks = literals written in routines of the compiled file "
        "(a literal in the argument list of a macro call may or may not be recorded); macro marks = literals of the bodies of expanded macros, "
        "compared as sets (one record per expansion is not demanded); the recorded span must enclose the literal and stay inside its statement "
        "(the compiler records the span of the whole argument list; the property does not mention spans)",
        "programs the compiler rejects, routines with an op-free cycle and routines that are not equivalent to the reference (C01's business) are counted, not judged",
    ]
    res.trusted_base = ["spec/machine.py", "spec/sem.py (+ its _Builder hooks fresh/macro_call)", "spec/esast.py", "gen/programs.py (printer)", "props/C05.py (oracle_load)", "antlr4 runtime"]
    n = max(ctx.jobs, (len(items) + 149) // 150)
    work = [(items[k::n], ctx.seed) for k in range(n)]
    outs = C01.run_pool(_worker, work, ctx.jobs)
    tot = {k: sum(o[k] for o in outs) for k in ("evaluations", "invalid", "accepted")}
    stats: Counter = Counter()
    fam: Counter = Counter()
    hashes: dict = {}
    for o in outs:
        stats.update(o["stats"])
        fam.update(o["by_family"])
        for h, nt in o["hashes"]:
            hashes[h] = nt
        res.self_check_failures += o["selfcheck"]
    res.self_check_failures = sorted(set(res.self_check_failures))[:20]
    for key in ("ops-paired", "ops-silent-or-inserted", "expansions-checked", "return-addresses-checked", "included-files-checked", "mark-spans-checked"):
        if not stats.get(key):
            res.self_check_failures.append(f"monitor never exercised: {key}")
    viol = merge(outs)
    samples = []
    for probe in (items[len(items) // 5], items[-40]):
        cs = load_item(probe, ctx.seed)
        if cs is not None:
            samples.append(cs["files"])
            cs.pop("plain", None)
    res.standins.append(
        StandIn(
            contract=CONTRACT,
            tier="T3",
            bound=f"{ctx.tier}: C01 space [{C01.describe_space(ctx.tier)}] + {RANDOM_N[ctx.tier]} random programs + C05 cases [{C05.describe(ctx.tier)}], one seeded random layout each (seed {ctx.seed})",
            evaluations=tot["evaluations"],
            distinct_nontrivial=sum(1 for nt in hashes.values() if nt),
            exhaustive=False,
            samples=samples,
            notes=f"cases per family {dict(fam)}; accepted {tot['accepted']}; statically invalid skeletons {tot['invalid']}; monitor counters {dict(stats)}",
        )
    )
    for sig in sorted(viol):
        v = viol[sig]
        res.violations.append(
            Violation(
                signature=sig,
                what=f"{v['count']} cases; smallest: {v['detail'][:600]}",
                input={"case": v["case"], "signature": sig},
                contract=CONTRACT,
                observed={"detail": v["detail"]},
                extra={"count": v["count"], "members": v["members"]},
            )
        )
    res.extra["wall_s_run"] = round(time.time() - t0, 1)
    res.extra["counters"] = dict(tot, families=dict(fam), monitors=dict(stats))
    return res


def replay(record: dict, ctx: Ctx) -> bool:
    inp = record["input"]
    root = os.path.realpath(tempfile.mkdtemp(prefix="verif-"))
    try:
        o = evaluate(inp["case"], root)
    finally:
        shutil.rmtree(root, ignore_errors=True)
    return any(sig == inp["signature"] for sig, _ in o["problems"])


if __name__ == "__main__":
    tier = sys.argv[1] if len(sys.argv) > 1 else "quick"
    r = run(Ctx(tier=tier, jobs=int(os.environ.get("VERIF_JOBS", "16")), prop="C08"))
    print(json.dumps({"standins": [dict(s.__dict__, samples="...") for s in r.standins], "extra": r.extra, "selfcheck": r.self_check_failures}, indent=1, default=str)[:6000])
    for v in r.violations:
        print("VIOLATION", v.signature, "|", v.what[:700])
        print(json.dumps(v.input["case"]["files"], indent=1)[:1200])
