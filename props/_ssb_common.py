"""Shared harness of the T3 checks C02, C06, C07, C09 (decompiler contracts over SSB routine sets).

Everything here is checker code: exceptions raised by it are checker crashes.  Calls into /repo are wrapped by `guarded`,
which turns repository exceptions into values.
"""
from __future__ import annotations

import contextlib
import logging
import multiprocessing
import os
import random
import re
import signal
import sys
import traceback
import warnings
from typing import Any, Callable, Iterator

from vlib.result import Ctx, Violation

REPO_MARK = os.sep + "explorerscript" + os.sep

PPL = "$PPL"


def quiet() -> None:
    """Silence the repository's logging, igraph's RuntimeWarnings and ANTLR's console error listener (output only)."""
    logging.disable(logging.CRITICAL)
    warnings.simplefilter("ignore")
    try:
        from antlr4.error.ErrorListener import ConsoleErrorListener

        ConsoleErrorListener.syntaxError = lambda self, *a, **k: None  # type: ignore[method-assign]
    except Exception:  # pragma: no cover
        pass
    import explorerscript.ssb_converting.decompiler.graph_building.graph_minimizer  # noqa: F401  (sets the recursion limit to 10000)


# graph_minimizer sets the recursion limit to 10000 when imported. The writers recurse 3 frames per nesting level of the emitted
# text, i.e. < 200 frames for the inputs generated here (<= 60 ops). While convert() runs, runaway recursion of the writers is cut off
# at DECOMPILE_RECURSION_LIMIT frames so that it surfaces as a quick, deterministic RecursionError instead of a minute of quadratic
# string building (at 10000 frames the call needs > 10 minutes before it fails with the same RecursionError).
DECOMPILE_RECURSION_LIMIT = 700
CALL_LIMIT_S = 6.0


def dungeon_mode_constants():
    from explorerscript.ssb_converting.ssb_data_types import DungeonModeConstants

    return DungeonModeConstants("DMC_CLOSE", "DMC_OPEN", "DMC_REQUEST", "DMC_OPENREQ")


# ------------------------------------------------------------------------------------------------ guarded calls


class CheckTimeout(BaseException):
    pass


def _on_alarm(signum, frame):  # pragma: no cover
    # name the repository function that convert()/compile() called directly and that never came back (stable even if the loop spans
    # several callees), plus the innermost repository function of the interrupted stack's outer loop
    top = None
    f = frame
    while f is not None:
        if REPO_MARK in f.f_code.co_filename:
            top = f
        f = f.f_back
    inner = None
    if top is not None:
        # `top` is the outermost repository frame (convert / compile); its callee is the pass that hangs
        f = frame
        while f is not None and f.f_back is not top:
            f = f.f_back
        inner = f
    where = "?"
    if top is not None:
        where = f"{os.path.basename(top.f_code.co_filename)}:{top.f_code.co_name}"
        if inner is not None:
            where += f">{os.path.basename(inner.f_code.co_filename)}:{inner.f_code.co_name}"
    raise CheckTimeout(where)


@contextlib.contextmanager
def time_limit(seconds: float):
    """Wall-clock guard for one repository call (only in a process' main thread). The limit is ~10^4 x the normal cost of a
    call, so that it only fires on non-termination, not under load."""
    old = signal.signal(signal.SIGALRM, _on_alarm)
    signal.setitimer(signal.ITIMER_REAL, seconds)
    try:
        yield
    finally:
        signal.setitimer(signal.ITIMER_REAL, 0)
        signal.signal(signal.SIGALRM, old)


_NUM = re.compile(r"-?\d+")
_QUOTED = re.compile(r"'[^']*'|\"[^\"]*\"")
_KEEP = {
    "if", "elseif", "else", "switch", "case", "default", "forever", "with", "jump", "call", "return", "end", "hold", "break", "break_loop",
    "continue", "while", "for", "message_SwitchTalk", "message_SwitchMonologue", "{", "}", ";", "@", "(", ")", ":", "<EOF>", "def", "coro", "alias",
    "previous", "Position", "for_actor", "for_object", "for_performer", "not", "<", ">",
}


def _quoted_repl(m: "re.Match[str]") -> str:
    inner = m.group(0)[1:-1]
    return f"'{inner}'" if inner in _KEEP else "'..'"

_ANGLE = re.compile(r"<[^<>]*>")
_LABEL = re.compile(r"label_\d+|switch\d+_\d+")


def normalise_message(msg: str) -> str:
    msg = msg.splitlines()[0] if msg else ""
    msg = _LABEL.sub("LABEL", msg)
    while True:
        new = _ANGLE.sub("#", msg)
        if new == msg:
            break
        msg = new
    msg = _QUOTED.sub(_quoted_repl, msg).replace("message_SwitchTalk", "message_Switch*").replace("message_SwitchMonologue", "message_Switch*")
    msg = _NUM.sub("N", msg)
    msg = re.sub(r"\{.*", "{..", msg)
    msg = re.sub(r"\s+", " ", msg).strip()
    return msg[:90]


class Raised:
    """A repository call ended with an exception."""

    def __init__(self, exc: BaseException):
        self.type = type(exc).__name__
        self.message = str(exc)
        tb = traceback.extract_tb(exc.__traceback__)
        site = None
        for fr in tb:
            if REPO_MARK in fr.filename and "/antlr" not in fr.filename:
                site = fr
        if site is None:
            for fr in tb:
                if "/verif/" not in fr.filename:
                    site = fr
        self.site = f"{os.path.basename(site.filename)}:{site.name}" if site else "?"
        self.line = site.lineno if site else None
        if isinstance(exc, RecursionError):
            # where exactly the limit hits is accidental: name the recursion cycle instead (functions repeating in the deep part)
            deep = [fr for fr in tb[-120:-20] if REPO_MARK in fr.filename]
            cyc = sorted({f"{os.path.basename(fr.filename)}:{fr.name}" for fr in deep})
            self.site = "cycle(" + ",".join(cyc) + ")"
            self.message = "maximum recursion depth exceeded"
        self.in_repo = any(REPO_MARK in fr.filename or "site-packages" in fr.filename for fr in tb)

    @property
    def sig(self) -> str:
        m = normalise_message(self.message)
        return f"{self.type}@{self.site}" + (f"[{m}]" if m else "")

    def describe(self) -> str:
        return f"{self.type}: {self.message.splitlines()[0] if self.message else ''} (raised in {self.site}, line {self.line})"


def guarded(fn: Callable, *args, limit: float = CALL_LIMIT_S, recursion_limit: int | None = None, **kw) -> Any:
    """Run a repository call. Returns its value, or a `Raised`. An exception whose traceback never enters repository or
    library code is a checker bug and propagates."""
    old_rl = sys.getrecursionlimit()
    try:
        if recursion_limit is not None:
            sys.setrecursionlimit(recursion_limit)
        with time_limit(limit):
            return fn(*args, **kw)
    except CheckTimeout as t:
        r = Raised(TimeoutError("no result within the time limit"))
        r.type, r.site = "NonTermination", (t.args[0] if t.args else "?")
        r.message = f"no result within {limit}s (a call of this size normally takes milliseconds)"
        r.in_repo = True
        return r
    except Exception as e:  # noqa: BLE001
        r = Raised(e)
        if not r.in_repo:
            raise
        return r
    finally:
        sys.setrecursionlimit(old_rl)


# ------------------------------------------------------------------------------------------------ structural views


def param_keys(op) -> tuple:
    from spec.machine import param_key

    return tuple(param_key(p) for p in op.params)


def snapshot(routine_ops) -> list:
    return [[(op.offset, op.op_code.name, param_keys(op)) for op in r] for r in routine_ops]


def info_key(info) -> tuple:
    """Kind and target of a routine. Generic routines and coroutines have no target in either language."""
    if info is None:
        return ("MISSING",)
    from explorerscript.ssb_converting.ssb_data_types import SsbRoutineType

    if info.type in (SsbRoutineType.GENERIC, SsbRoutineType.COROUTINE):
        return (info.type.name,)
    return (info.type.name, info.linked_to, info.linked_to_name)


def coro_names_of_input(infos, coros) -> list:
    from explorerscript.ssb_converting.ssb_data_types import SsbRoutineType

    names = {c.id: c.name for c in coros}
    return [names.get(i) if info.type == SsbRoutineType.COROUTINE else None for i, info in enumerate(infos)]


def coro_names_of_output(named_coroutines, n: int) -> list:
    out = []
    for i in range(n):
        v = named_coroutines[i] if named_coroutines is not None and i < len(named_coroutines) else None
        out.append(v if isinstance(v, str) else None)
    return out


def compare_routine_headers(infos, coros, c_infos, c_named) -> list[tuple[str, str]]:
    """[(symptom, detail)] for: number of routines, kinds/targets, coroutine names."""
    out = []
    if c_infos is None or len(c_infos) != len(infos):
        return [("routine-count", f"{len(infos)} routines in, {None if c_infos is None else len(c_infos)} out")]
    for i, (a, b) in enumerate(zip(infos, c_infos)):
        if info_key(a) != info_key(b):
            out.append(("routine-kind-or-target", f"routine {i}: {info_key(a)} in, {info_key(b)} out"))
            break
    na, nb = coro_names_of_input(infos, coros), coro_names_of_output(c_named, len(infos))
    if na != nb:
        out.append(("coroutine-name", f"{na} in, {nb} out"))
    return out


def compare_op_for_op(in_ops, out_ops) -> list[tuple[str, str]]:
    """Exact reproduction (C06 fallback, C07): same op names in order, equal parameters, every jump target denotes the op
    at the same (routine, index). Input targets sit at the table's index, output targets are the last parameter."""
    from explorerscript.ssb_converting.ssb_special_ops import OPS_WITH_JUMP_TO_MEM_OFFSET
    from spec.machine import param_key

    if out_ops is None or len(out_ops) != len(in_ops):
        return [("routine-count", f"{len(in_ops)} op lists in, {None if out_ops is None else len(out_ops)} out")]
    in_pos = {op.offset: (ri, oi) for ri, r in enumerate(in_ops) for oi, op in enumerate(r)}
    out_pos = {op.offset: (ri, oi) for ri, r in enumerate(out_ops) for oi, op in enumerate(r)}
    for ri, (a, b) in enumerate(zip(in_ops, out_ops)):
        if len(a) != len(b):
            return [("op-count", f"routine {ri}: {len(a)} ops in, {len(b)} out: {[o.op_code.name for o in a]} vs {[o.op_code.name for o in b]}")]
        for oi, (x, y) in enumerate(zip(a, b)):
            if x.op_code.name != y.op_code.name:
                return [("op-name", f"routine {ri} op {oi}: {x.op_code.name} in, {y.op_code.name} out")]
            px, py = list(x.params), list(y.params)
            if x.op_code.name in OPS_WITH_JUMP_TO_MEM_OFFSET:
                tx = px.pop(OPS_WITH_JUMP_TO_MEM_OFFSET[x.op_code.name])
                if not py or not isinstance(py[-1], int) or isinstance(py[-1], bool):
                    return [("jump-target-missing", f"routine {ri} op {oi} ({x.op_code.name}): output params {py}")]
                ty = py.pop()
                if out_pos.get(ty) != in_pos.get(tx):
                    return [("jump-target", f"routine {ri} op {oi} ({x.op_code.name}): targets op {in_pos.get(tx)} in, op {out_pos.get(ty)} out")]
            kx, ky = [param_key(p) for p in px], [param_key(p) for p in py]
            if kx != ky:
                return [("params", f"routine {ri} op {oi} ({x.op_code.name}): {kx} in, {ky} out")]
    return []


def frame_changes(before: list, routine_ops) -> str | None:
    """The input op lists must be left as they were (names, offsets, parameters)."""
    after = snapshot(routine_ops)
    if after == before:
        return None
    for ri, (a, b) in enumerate(zip(before, after)):
        if a != b:
            for oi, (x, y) in enumerate(zip(a, b)):
                if x != y:
                    return f"routine {ri} op {oi}: {x} before, {y} after"
            return f"routine {ri}: {len(a)} ops before, {len(b)} after"
    return f"{len(before)} routines before, {len(after)} after"


# ------------------------------------------------------------------------------------------------ violation collection


def _size(rs: dict) -> tuple:
    """Order of witnesses: prefer inputs without Call ops and without a routine that starts with a Jump (those two features have
    defect classes of their own and would make the witness of any other class harder to read), then fewer ops, fewer routines."""
    import json

    unusual = sum(1 for r in rs["routines"] for i, o in enumerate(r["ops"]) if o[1] == "Call" or (i == 0 and o[1] == "Jump"))
    blob = json.dumps(rs, sort_keys=True)
    return (1 if unusual else 0, sum(len(r["ops"]) for r in rs["routines"]), len(rs["routines"]), len(blob), blob)


MEMBER_CAP = 400


def member_id(rs: dict) -> str:
    """Identity of one failing input inside a violation class (known_findings.json may list the members it covers)."""
    import hashlib
    import json

    return hashlib.sha1(json.dumps(rs, sort_keys=True).encode()).hexdigest()[:12]


class Collector:
    """Keeps, per signature, the number of witnesses, the ids of (at most MEMBER_CAP, the lexicographically smallest) witnesses and the
    smallest witness (deterministic order)."""

    def __init__(self) -> None:
        self.by_sig: dict[str, dict] = {}

    def add(self, signature: str, what: str, rs: dict, contract: str, observed: Any, extra: dict | None = None) -> None:
        e = self.by_sig.get(signature)
        size = _size(rs)
        mid = member_id(rs)
        if e is None:
            self.by_sig[signature] = {"n": 1, "size": size, "what": what, "rs": rs, "contract": contract, "observed": observed, "extra": extra or {}, "members": [mid]}
        else:
            e["n"] += 1
            e["members"].append(mid)
            if len(e["members"]) > 4 * MEMBER_CAP:
                e["members"] = sorted(set(e["members"]))[:MEMBER_CAP]
            if size < e["size"]:
                e.update(size=size, what=what, rs=rs, contract=contract, observed=observed, extra=extra or {})

    def merge(self, other: "dict[str, dict]") -> None:
        for sig, o in other.items():
            e = self.by_sig.get(sig)
            if e is None:
                self.by_sig[sig] = dict(o)
                self.by_sig[sig]["members"] = list(o.get("members", []))
            else:
                n = e["n"] + o["n"]
                members = e["members"] + list(o.get("members", []))
                if tuple(o["size"]) < tuple(e["size"]):
                    e.update(o)
                e["n"] = n
                e["members"] = members

    def violations(self, kind: str) -> list[Violation]:
        out = []
        for sig in sorted(self.by_sig):
            e = self.by_sig[sig]
            members = sorted(set(e.get("members", [])))[:MEMBER_CAP]
            out.append(
                Violation(
                    signature=sig,
                    what=f"{e['what']} [{e['n']} witness(es); smallest shown]",
                    input={"kind": kind, "routine_set": e["rs"], **e["extra"]},
                    contract=e["contract"],
                    observed=e["observed"],
                    extra={"witnesses": e["n"], "count": e["n"], "members": members},
                )
            )
        return out


# ------------------------------------------------------------------------------------------------ process pool


def run_sharded(worker: Callable, ctx: Ctx, nshards: int | None = None, payload: dict | None = None) -> list:
    """Run `worker((shard, nshards, tier, seed, payload))` for every shard in a spawn pool; results in shard order."""
    jobs = max(1, int(ctx.jobs))
    nshards = nshards or jobs * 4
    args = [(k, nshards, ctx.tier, ctx.seed, payload or {}) for k in range(nshards)]
    if jobs == 1:
        return [worker(a) for a in args]
    import concurrent.futures

    mp = multiprocessing.get_context("spawn")
    # ProcessPoolExecutor raises BrokenProcessPool if a worker dies (a Pool would hang); shards are short so that a slow shard
    # does not dominate the wall time
    with concurrent.futures.ProcessPoolExecutor(max_workers=jobs, mp_context=mp) as pool:
        return list(pool.map(worker, args, chunksize=1))


# ------------------------------------------------------------------------------------------------ input spaces


def item_rng(seed: int, space: str, i: int) -> random.Random:
    return random.Random(f"{seed}:{space}:{i}")


SCHEMES = ("words", "dense", "gap3", "words")


def enum_space(total_ops_list, alphabet, shard: int, nshards: int, *, kinds_cycle: bool = True, multiline: bool = False, max_routines: int = 2, tag: str = "enum") -> Iterator[tuple[str, dict]]:
    """(b) sharded. Item number c (global, deterministic) decides salt (rotates op kinds), routine-header variety and the
    offset scheme."""
    from gen import ssb

    c = 0
    for n in total_ops_list:
        for cl in ssb.enum_class_lists(n, alphabet, max_routines=max_routines):
            c += 1
            if c % nshards != shard:
                continue
            kinds: Any = "generic"
            if kinds_cycle:
                kinds = ("generic", "coro", (c // 7) % 7)[c % 3] if c % 7 == 0 else "generic"
            sym = ssb.sym_from_classes(cl, salt=c % 97, kinds=kinds, multiline=multiline)
            yield f"{tag}{n}", ssb.layout(sym, SCHEMES[c % 4], start=(c % 3) * 5)


def aimed_space(shard: int, nshards: int, multiline: bool = False) -> Iterator[tuple[str, dict]]:
    from gen import ssb

    c = 0
    for name, cl in ssb.aimed_shapes():
        for salt in (0, 3, 5, 9, 14):
            for kinds in ("generic", "coro", 1, 4):
                c += 1
                if c % nshards != shard:
                    continue
                sym = ssb.sym_from_classes(cl, salt=salt, kinds=kinds, multiline=multiline)
                yield f"aimed:{name}", ssb.layout(sym, SCHEMES[c % 4], start=(c % 2) * 7)


def program_space(seed: int, n_random: int, shard: int, nshards: int, *, multiline: bool = False, relayout: bool = True, small: bool = True, depth: int = 2, small_relayout_stride: int = 1) -> Iterator[tuple[str, dict]]:
    """(a) + (c): compiled programs (fixed corpus, exhaustive small statement trees, seeded random ones) and re-layouts."""
    from gen import ssb

    def emit(tag: str, sym: dict, i: int) -> Iterator[tuple[str, dict]]:
        yield f"prog:{tag}", ssb.layout(sym, SCHEMES[i % 4])
        if relayout and (tag != "small" or i % small_relayout_stride == 0):
            # the fixed corpus and the exhaustive small programs (and their re-layouts) do not depend on the seed
            rng = item_rng(seed if tag == "random" else 0, "relayout", i)
            for kind, s2 in ssb.relayouts(sym, rng):
                yield f"relayout:{kind}:{tag}", ssb.layout(s2, SCHEMES[(i + 1) % 4])

    i = 0
    for k, p in enumerate(ssb.FIXED_PROGRAMS):
        i += 1
        if i % nshards != shard:
            continue
        sym = ssb.compile_program(p)
        if sym is not None:
            yield from emit("fixed", sym, i)
    if small:
        for p in ssb.small_programs():
            i += 1
            if i % nshards != shard:
                continue
            sym = ssb.compile_program(p)
            if sym is not None:
                yield from emit("small", sym, i)
    for k in range(n_random):
        i += 1
        if i % nshards != shard:
            continue
        rng = item_rng(seed, "prog", k)
        text = ssb.ProgGen(rng, multiline).program(depth=depth if k % 3 else 1)
        sym = ssb.compile_program(text)
        if sym is not None:
            yield from emit("random", sym, i)


def random_space(seed: int, n: int, shard: int, nshards: int, *, repair: bool, multiline: bool = False, max_ops: int = 30) -> Iterator[tuple[str, dict]]:
    """(d) seeded random class lists <= max_ops ops, 1..3 routines."""
    from gen import ssb

    for k in range(n):
        if k % nshards != shard:
            continue
        rng = item_rng(seed, "random", k)
        cl = ssb.random_class_lists(rng, max_ops=max_ops if k % 4 else 10, well_formed_repair=repair, call_free=(k % 3 != 0))
        kinds: Any = ("generic", "coro", k % 5)[k % 3]
        sym = ssb.sym_from_classes(cl, salt=k % 89, kinds=kinds, multiline=multiline)
        yield "random", ssb.layout(sym, SCHEMES[k % 4])


SEEDED_SUFFIX = ":seeded-input"


def is_seeded(tag: str) -> bool:
    """True for inputs of the families that depend on VERIF_SEED (random op lists, random programs and their re-layouts); the
    enumerated families, the hand-made shapes, the fixed and the exhaustive small programs and their re-layouts do not."""
    return tag == "random" or tag.endswith(":random")


def seeded_suffix(tag: str) -> str:
    """Violations found only through a seed-dependent input get their own signature (suffix), so that a known finding can list the
    members of the exhaustive families without depending on the seed."""
    return SEEDED_SUFFIX if is_seeded(tag) else ""


def well_formed_only(items: Iterator[tuple[str, dict]], counter: dict) -> Iterator[tuple[str, dict]]:
    from gen import ssb

    for tag, rs in items:
        counter["generated"] = counter.get("generated", 0) + 1
        if ssb.rs_well_formed(rs):
            yield tag, rs
        else:
            counter["not_well_formed"] = counter.get("not_well_formed", 0) + 1


def fresh(rs: dict):
    from gen import ssb

    return ssb.build(rs)


def short_hash(rs: dict) -> int:
    import hashlib
    import json

    return int.from_bytes(hashlib.sha1(json.dumps(rs, sort_keys=True).encode()).digest()[:8], "big")


# ------------------------------------------------------------------------------------------------ ExplorerScript pipeline

FALLBACK_MARKER = "//?: is-ssb-script: true"


class EsResult:
    """Outcome of ExplorerScriptSsbDecompiler(...).convert() on a fresh copy of a JSON routine set."""

    def __init__(self, rs: dict):
        from explorerscript.ssb_converting.ssb_decompiler import ExplorerScriptSsbDecompiler

        self.rs = rs
        self.infos, self.ops, self.coros = fresh(rs)
        before = snapshot(self.ops)
        self.ref_infos, self.ref_ops, self.ref_coros = fresh(rs)
        infos, ops, coros = self.infos, self.ops, self.coros
        r = guarded(lambda: ExplorerScriptSsbDecompiler(infos, ops, coros, PPL, dungeon_mode_constants()).convert(), recursion_limit=DECOMPILE_RECURSION_LIMIT)
        self.raised: Raised | None = r if isinstance(r, Raised) else None
        self.text: str | None = None
        self.source_map = None
        if self.raised is None:
            self.text, self.source_map = r
        self.frame = frame_changes(before, self.ops)

    @property
    def is_fallback(self) -> bool:
        return self.text is not None and self.text.split("\n", 1)[0] == FALLBACK_MARKER

    def recompile(self):
        """ExplorerScriptSsbCompiler after compile(text), or Raised."""
        from explorerscript.ssb_converting.ssb_compiler import ExplorerScriptSsbCompiler

        comp = ExplorerScriptSsbCompiler(PPL)
        text = self.text
        r = guarded(lambda: comp.compile(text, "/nonexistent/verif-decompiled.exps"))
        return r if isinstance(r, Raised) else comp


def shape_token(rs: dict) -> str:
    """One decidable token naming the most unusual structural feature of the input (fixed priority order), for signatures."""
    found = shape_features(rs)
    for tok in SHAPE_PRIORITY:
        if tok in found:
            return tok
    return "straight-line"


def shape_features(rs: dict) -> set:
    """All decidable structural features of the input that the signatures may name."""
    from explorerscript.ssb_converting.ssb_special_ops import OPS_CTX, OPS_SWITCH_CASE_MAP, OPS_SWITCH_TEXT_CASE_MAP, OPS_WITH_JUMP_TO_MEM_OFFSET
    from gen import ssb

    pos = {o[0]: (ri, oi) for ri, r in enumerate(rs["routines"]) for oi, o in enumerate(r["ops"])}
    found = set()
    try:
        local = ssb.locally_reachable_mask(rs)
    except Exception:  # pragma: no cover
        local = None
    for ri, r in enumerate(rs["routines"]):
        ops = r["ops"]
        if not ops and ri > 0:
            found.add("alias")
        for oi, (off, name, ps) in enumerate(ops):
            prev = ops[oi - 1][1] if oi > 0 else None
            nxt = ops[oi + 1][1] if oi + 1 < len(ops) else None
            if name == "Call":
                found.add("call")
            if name == "Jump" and oi == 0:
                found.add("first-op-jump")
            if name in OPS_WITH_JUMP_TO_MEM_OFFSET:
                t = pos.get(ps[OPS_WITH_JUMP_TO_MEM_OFFSET[name]])
                if t is not None:
                    if t[0] != ri:
                        if local is not None and not local[t[0]][t[1]]:
                            found.add("cross-jump-to-op-unreachable-in-its-routine")
                        if t[0] < ri and t[1] == len(rs["routines"][t[0]]["ops"]) - 1:
                            found.add("cross-jump-to-last-op-of-earlier-routine")
                        elif t[1] == 0:
                            found.add("cross-jump-to-first-op")
                        else:
                            found.add("cross-jump-into-routine")
                    elif t[1] <= oi:
                        found.add("backward-jump")
                    else:
                        found.add("forward-jump")
                    if rs["routines"][t[0]]["ops"][t[1]][1] in ssb.CASE_OPS:
                        found.add("jump-targets-case-op")  # a label separates the case op from its switch / previous case
            if name in ssb.CASE_OPS and not (prev in OPS_SWITCH_CASE_MAP or prev in ssb.CASE_OPS):
                found.add("case-without-switch")
            if name in OPS_SWITCH_CASE_MAP and nxt not in ssb.CASE_OPS:
                found.add("switch-without-case")
            if name in ssb.TEXT_CASE_OPS and not (prev in OPS_SWITCH_TEXT_CASE_MAP or prev in ssb.TEXT_CASE_OPS):
                found.add("text-case-without-message-switch")
            if name in OPS_SWITCH_TEXT_CASE_MAP and nxt not in ssb.TEXT_CASE_OPS:
                found.add("message-switch-without-case")
            if name in OPS_CTX and (nxt is None or nxt in OPS_WITH_JUMP_TO_MEM_OFFSET or nxt in OPS_CTX or nxt in OPS_SWITCH_CASE_MAP or nxt in OPS_SWITCH_TEXT_CASE_MAP or nxt in ssb.TEXT_CASE_OPS):
                found.add("ctx-before-control-op")
            if name == "Hold" and nxt is not None:
                found.add("hold-not-last")
            if name in OPS_CTX:
                found.add("ctx")
            if name in OPS_SWITCH_CASE_MAP:
                found.add("switch")
            if name in OPS_SWITCH_TEXT_CASE_MAP:
                found.add("message-switch")
    try:
        if any(not all(m) for m in ssb.reachable_mask(rs)):
            found.add("unreachable-ops")
    except Exception:  # pragma: no cover
        pass
    return found


SHAPE_PRIORITY = (
    "call", "first-op-jump", "cross-jump-to-op-unreachable-in-its-routine", "cross-jump-to-first-op", "cross-jump-to-last-op-of-earlier-routine", "cross-jump-into-routine", "case-without-switch", "jump-targets-case-op",
    "switch-without-case", "text-case-without-message-switch", "message-switch-without-case", "ctx-before-control-op", "hold-not-last",
    "unreachable-ops", "alias", "backward-jump", "message-switch", "switch", "ctx", "forward-jump",
)


def dmc_normalise(nodes: dict) -> dict:
    """LTS with the caller's dungeon-mode constants replaced by the integers they stand for.  The decompiler is *specified* to print
    `flag_SetDungeonMode(x, i)` and `Case(i)` under `SwitchDungeonMode` with the constants of the DungeonModeConstants object it is
    given, so constant get_explorerscript_constant_for(i) and integer i (0..3) denote the same parameter."""
    from gen.ssb import DMC_VALUES
    from spec.machine import Node

    out = {}
    for nid, n in nodes.items():
        lab = n.label
        if lab and lab[0] in ("flag_SetDungeonMode", "Case"):
            idx = 1 if lab[0] == "flag_SetDungeonMode" else 0
            ps = list(lab[1])
            if idx < len(ps) and ps[idx][0] == "const" and ps[idx][1] in DMC_VALUES:
                ps[idx] = ("int", DMC_VALUES[ps[idx][1]])
                n = Node(n.kind, (lab[0], tuple(ps)), n.succ)
        out[nid] = n
    return out


def wf_space(shard: int, nshards: int, tier: str, seed: int, counter: dict, *, multiline: bool = False, scale: float = 1.0) -> Iterator[tuple[str, dict]]:
    """The input space of C02 (shared by C06 and C09): well-formed routine sets from (a)-(d) and the hand-made shapes."""
    from gen import ssb

    thorough = tier == "thorough"

    def gen() -> Iterator[tuple[str, dict]]:
        yield from aimed_space(shard, nshards, multiline=multiline)
        yield from enum_space((1, 2, 3), ssb.ALPHABET_FULL, shard, nshards, multiline=multiline, tag="enumF")
        if thorough:
            yield from enum_space((4,), ssb.ALPHABET_TASK, shard, nshards, multiline=multiline, tag="enumT")
            yield from enum_space((5,), ALPHABET_Q5, shard, nshards, multiline=multiline, max_routines=1, tag="enumQ")
        else:
            yield from enum_space((4,), ALPHABET_Q4, shard, nshards, multiline=multiline, tag="enumQ")
        yield from program_space(seed, int((3000 if thorough else 300) * scale), shard, nshards, multiline=multiline)
        yield from random_space(seed, int((30000 if thorough else 3000) * scale), shard, nshards, repair=True, multiline=multiline)

    yield from well_formed_only(gen(), counter)


ALPHABET_Q4 = ("plain", "branch", "jump", "switch", "case", "Return")
ALPHABET_Q5 = ("plain", "branch", "jump", "Return")


def wf_space_bound(tier: str, scale: float = 1.0) -> str:
    thorough = tier == "thorough"
    return (
        "well-formed (C02 predicate) routine sets out of: every op-class list with <= 3 ops over {plain, flag_*, ctx, Branch*, Jump, Call, Switch*, "
        "Case*, message_Switch*, CaseText, DefaultText, Return, End, Hold}"
        + (", 4 ops over the same without flag_*, 5 ops in one routine over {plain, Branch*, Jump, Return}" if thorough else ", 4 ops over {plain, Branch*, Jump, Switch*, Case*, Return}")
        + " x every in-range jump target (also cross-routine) x 1-2 routines; "
        f"{len(aimed_count())} hand-made shapes x 15 variants; compiler output of 11 fixed + ~1300 exhaustive small + {int((3000 if thorough else 300) * scale)} seeded random "
        "programs, each with 6 kinds of re-layout (leading jump, entry block last, blocks reversed/shuffled, routine split, unreachable ops); "
        f"{int((30000 if thorough else 3000) * scale)} seeded random lists <= 30 ops"
    )


def aimed_count():
    from gen import ssb

    return ssb.aimed_shapes()
