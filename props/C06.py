"""C06 -- the decompiler always answers; its SsbScript fallback is marked and exact (bounded stand-in, tier T3).

Contract on ExplorerScriptSsbDecompiler(infos, ops, coros, ...).convert() for well-formed input (gen.ssb.is_well_formed):
  (a) raises nothing (the escaping exception classes are recorded per input shape);
  (b) if the first line of the returned text is `//?: is-ssb-script: true` (fallback), ExplorerScriptSsbCompiler.compile(text)
      succeeds and reproduces the input op for op: routines, kinds/targets, coroutine names, op names, parameters (param_key),
      jump targets denoting the corresponding ops;
  (c) a text without the marker is ExplorerScript that the compiler accepts (otherwise the decompiler "could not produce structured
      ExplorerScript" and did not say so).  The behaviour of the accepted text belongs to C02.
  (d) frame: the caller's op lists are unchanged.

Input space: C02's space plus hand-made shapes aimed at what the structuring passes do not handle (gen.ssb.aimed_shapes):
irreducible loops, jumps into blocks, routines that are one cross-routine jump, shared case bodies, switches without cases,
case ops without a switch, nested loops with several exits.
"""
from __future__ import annotations

from typing import Any

from vlib.result import Ctx, PropResult, StandIn

from props import _ssb_common as K

CONTRACT_A = "ExplorerScriptSsbDecompiler.convert() returns (text, source map) for every well-formed routine set; raises: nothing"
CONTRACT_B = (
    "if convert()'s text starts with the line `//?: is-ssb-script: true`, ExplorerScriptSsbCompiler.compile(text) reproduces the input "
    "op for op (routines, kinds, targets, coroutine names, op names, parameters, jump targets)"
)
CONTRACT_C = "a text without the fallback marker parses as ExplorerScript and is accepted by the compiler"
CONTRACT_D = "convert() leaves the caller's op lists unchanged"


def check(rs: dict) -> tuple[list[tuple[str, str, str, Any]], str]:
    """[(clause, symptom, detail, observed)], outcome in {'raised','fallback','structured'}."""
    es = K.EsResult(rs)
    out: list[tuple[str, str, str, Any]] = []
    if es.frame:
        out.append((CONTRACT_D, "frame:input-ops-modified", es.frame, None))
    if es.raised is not None:
        out.append((CONTRACT_A, f"convert-raises:{es.raised.sig}", es.raised.describe(), None))
        return out, "raised"
    if es.is_fallback:
        comp = es.recompile()
        if isinstance(comp, K.Raised):
            out.append((CONTRACT_B, f"fallback-compile-raises:{comp.sig}", comp.describe(), es.text))
            return out, "fallback"
        for sym, detail in K.compare_routine_headers(es.ref_infos, es.ref_coros, comp.routine_infos, comp.named_coroutines):
            out.append((CONTRACT_B, f"fallback-inexact:{sym}", detail, es.text))
        for sym, detail in K.compare_op_for_op(es.ref_ops, comp.routine_ops):
            out.append((CONTRACT_B, f"fallback-inexact:{sym}", detail, es.text))
        return out, "fallback"
    # unmarked: must at least be ExplorerScript syntax
    from explorerscript.explorerscript_reader import ExplorerScriptReader

    text = es.text
    r = K.guarded(lambda: ExplorerScriptReader(text).read())
    if isinstance(r, K.Raised):
        out.append((CONTRACT_C, f"unmarked-text-not-explorerscript:{r.sig}", r.describe(), es.text))
        return out, "structured"
    # ... and must be accepted by the compiler: a text the compiler rejects (a jump or call to a label that was never written, ...)
    # is not "structured ExplorerScript" either, and it carries no marker.  (WHAT the accepted text does is C02's business.)
    comp = es.recompile()
    if isinstance(comp, K.Raised):
        out.append((CONTRACT_C, f"unmarked-text-rejected-by-the-compiler:{comp.sig}", comp.describe(), es.text))
    return out, "structured"


def signature(rs: dict, symptom: str) -> str:
    """Escaping exceptions are identified by type, raise site and normalised message (the input shapes per class are listed in the
    evidence); the other symptoms additionally carry the shape token of the input."""
    if symptom.startswith("convert-raises:"):
        return f"C06:{symptom}"
    return f"C06:{symptom}:{K.shape_token(rs)}"


def _worker(args):
    shard, nshards, tier, seed, payload = args
    K.quiet()
    coll = K.Collector()
    counter: dict = {}
    hashes = set()
    outcomes = {"raised": 0, "fallback": 0, "structured": 0}
    exc_by_shape: dict[str, int] = {}
    n = 0
    nontrivial = 0
    samples = []
    for tag, rs in K.wf_space(shard, nshards, tier, seed, counter):
        n += 1
        h = K.short_hash(rs)
        if h not in hashes:
            hashes.add(h)
            if _has_jump(rs):
                nontrivial += 1
        results, outcome = check(rs)
        outcomes[outcome] += 1
        if outcome == "fallback" and len(samples) < 2:
            samples.append(rs)
        for clause, symptom, detail, observed in results:
            sig = signature(rs, symptom) + K.seeded_suffix(tag)
            if symptom.startswith("convert-raises:"):
                key = f"{symptom.split(':', 1)[1]} | {K.shape_token(rs)}"
                exc_by_shape[key] = exc_by_shape.get(key, 0) + 1
            coll.add(sig, f"decompiler answer: {symptom} -- {detail}", rs, clause, {"detail": detail, "text": observed}, {"tag": tag})
    return {"n": n, "hashes": hashes, "nontrivial": nontrivial, "viol": coll.by_sig, "counter": counter, "outcomes": outcomes, "exc_by_shape": exc_by_shape, "samples": samples}


def _has_jump(rs: dict) -> bool:
    from explorerscript.ssb_converting.ssb_special_ops import OPS_WITH_JUMP_TO_MEM_OFFSET

    return any(o[1] in OPS_WITH_JUMP_TO_MEM_OFFSET for r in rs["routines"] for o in r["ops"])


def run(ctx: Ctx) -> PropResult:
    res = PropResult(prop="C06", level="exploration")
    results = K.run_sharded(_worker, ctx)
    coll = K.Collector()
    hashes: set = set()
    n = 0
    outcomes = {"raised": 0, "fallback": 0, "structured": 0}
    counter: dict = {}
    exc_by_shape: dict[str, int] = {}
    samples: list = []
    for r in results:
        n += r["n"]
        hashes |= r["hashes"]
        coll.merge(r["viol"])
        samples += r["samples"]
        for k, v in r["outcomes"].items():
            outcomes[k] += v
        for k, v in r["counter"].items():
            counter[k] = counter.get(k, 0) + v
        for k, v in r["exc_by_shape"].items():
            exc_by_shape[k] = exc_by_shape.get(k, 0) + v
    nontrivial = sum(r["nontrivial"] for r in results)
    res.violations = coll.violations("routine-set")
    for contract in (CONTRACT_A, CONTRACT_B):
        res.standins.append(
            StandIn(
                contract=contract,
                tier="T3",
                bound=K.wf_space_bound(ctx.tier),
                evaluations=n if contract is CONTRACT_A else outcomes["fallback"],
                distinct_nontrivial=min(nontrivial, len(hashes)) if contract is CONTRACT_A else outcomes["fallback"],
                exhaustive=True,
                samples=samples[:2],
                notes="exhaustive only for the enumerated sub-space; generated programs and random lists are sampled",
            )
        )
    res.rule = (
        "inputs: gen.ssb (a)-(d) filtered by C02's well-formedness predicate, plus hand-made shapes; distinct = distinct sha1 of the JSON "
        "routine set; non-trivial = contains >= 1 jump-carrying op"
    )
    res.assumptions = [
        "well-formedness (3) is read as: no execution path from a routine's first op runs off the end of a routine; unreachable ops are free",
        "parameters of ops with special syntax are within the documented ranges (operators 0..10, flags 0/1)",
        "files contain either only coroutines or none; coroutine ids are routine indices",
    ]
    res.extra = {
        "outcomes": outcomes,
        "generated": counter.get("generated", 0),
        "filtered_not_well_formed": counter.get("not_well_formed", 0),
        "escaping_exception_classes_by_shape": dict(sorted(exc_by_shape.items())),
    }
    res.trusted_base = ["gen/ssb.py (is_well_formed, generators)", "props/_ssb_common.py", "spec/machine.py:param_key"]
    res.functions_under_contract = [{"function": "ExplorerScriptSsbDecompiler.convert", "tier": "T3"}]
    if n == 0:
        res.self_check_failures.append("C06 contract (a) was never evaluated")
    if outcomes["fallback"] == 0:
        res.self_check_failures.append("C06 contract (b) was never evaluated: no input took the SsbScript fallback")
    return res


def replay(record: dict, ctx: Ctx) -> bool:
    K.quiet()
    rs = record["input"]["routine_set"]
    want = record["signature"]
    results, _ = check(rs)
    tag = record["input"].get("tag", "")
    return any(signature(rs, symptom) + K.seeded_suffix(tag) == want for _c, symptom, _d, _o in results)
