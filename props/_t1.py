"""Glue: add the deductive layer (T1) of a property to the PropResult produced by its bounded stand-ins (T3)."""
from __future__ import annotations

from pyvc.run import run_t1, replay_t1
from vlib.result import Ctx, PropResult

ALL_MODULES = ["source_map", "compiler_utils", "meta_attributes", "decompiler_writer", "resolver", "remover", "compiler_small", "macro", "cli", "ssbscript_listener", "strip_last_label", "label_finalizer"]
# properties whose check = bounded stand-ins (props/Cxx.py) + the deductive layer over the contracts tagged with them
T1_PROPS = {"C01", "C02", "C03", "C04", "C05", "C06", "C07", "C08", "C09", "C10", "C15"}


def maybe_add_t1(res: PropResult, prop: str, ctx: Ctx) -> PropResult:
    if prop in T1_PROPS and not res.extra.get("t1_included"):
        res = add_t1(res, prop, ctx)
        res.extra["t1_included"] = True
    return res


def add_t1(res: PropResult, prop: str, ctx: Ctx, modules: list[str] | None = None, timeout_ms: int = 8000, n_cross: int = 300) -> PropResult:
    t1 = run_t1(modules or ALL_MODULES, None, prop, ctx, timeout_ms=timeout_ms, n_cross=n_cross)
    level = res.level
    res.merge(t1)
    res.level = level
    res.trusted_base += [x for x in [
        "pyvc (VC generator in /verif/pyvc) and its encoding of Python semantics (DESIGN.md §2.2); z3 5.1",
        "well-typed-heap preconditions stated in the sidecar contracts",
    ] if x not in res.trusted_base]
    return res


def replay_if_t1(record: dict, modules: list[str] | None = None):
    if record.get("tier") == "T1" or (isinstance(record.get("input"), dict) and "contract" in record["input"] and "native-monitor" in record.get("signature", "")):
        return replay_t1(modules or ALL_MODULES, record)
    return None
