"""C09 -- the decompile-time source map points at the statement printed for each op (bounded stand-in, tier T3).

Contract on convert() of BOTH decompilers (ExplorerScriptSsbDecompiler, SsbScriptSsbDecompiler), for the returned (text, map):
  (K) every key of the map is the offset of an input op;
  (P) for every entry offset -> (line, col): the emitted text has, at zero-based line `line`, column `col`, the start of the statement
      printed for that op (its operation call, keyword, if/elseif/switch/case header or assignment);
  (E) every op printed as its own statement has an entry;
  (C) compiling the emitted text yields a source map that places the corresponding op on the same line.

How "the statement printed for that op" is recognised
  * SsbScript text (SsbScript decompiler, and the fallback of the ExplorerScript decompiler): the text is parsed with the repository's
    SsbScript grammar; the k-th `operation` of the r-th routine is the statement of op (r, k) (C07 establishes that this spelling is
    op for op).  After recompilation the corresponding op is the op with the same (routine, index).
  * ExplorerScript text: parsed by spec/esast.py (statement and header positions), given its reference semantics by spec/sem.py with
    `with_origin`, which yields for every operation / test / stop of the text the AST element it is written as.  An element *prints*
    input op o iff its label (opcode name + parameters, jump target removed) equals o's label.  The start of the statement of an
    element is the position of the element itself or of the statement keyword it is the header of (`if`/`elseif`, `switch`, `case`,
    `while`, `for`).  For `Jump` ops (no label) a statement printed for them can only be a control-transfer statement (`jump @x`,
    `continue`, `break_loop`, `break`).  After recompilation the corresponding op is a compiled op with the same label; it has to be on
    the entry's line.  (E) is demanded for elements whose label occurs exactly once in the input and once in the text.
"""
from __future__ import annotations

from typing import Any

from vlib.result import Ctx, PropResult, StandIn

from props import _ssb_common as K

CONTRACT_K = "every key of the decompile-time source map is the offset of an input op"
CONTRACT_P = "every entry offset -> (line, col) names the start of the statement printed for that op in the emitted text"
CONTRACT_E = "every op printed as its own statement has a source-map entry"
CONTRACT_C = "compiling the emitted text yields a source map that places the corresponding op on the same line"


# ------------------------------------------------------------------------------------------------ labels


def op_label(op) -> tuple:
    from explorerscript.ssb_converting.ssb_special_ops import OPS_WITH_JUMP_TO_MEM_OFFSET
    from spec.machine import param_key

    ps = list(op.params)
    name = op.op_code.name
    if name in OPS_WITH_JUMP_TO_MEM_OFFSET and len(ps) > OPS_WITH_JUMP_TO_MEM_OFFSET[name]:
        ps.pop(OPS_WITH_JUMP_TO_MEM_OFFSET[name])
    return _dmc((name, tuple(param_key(p) for p in ps)))


def compiled_op_label(op) -> tuple:
    from explorerscript.ssb_converting.ssb_special_ops import OPS_WITH_JUMP_TO_MEM_OFFSET
    from spec.machine import param_key

    ps = list(op.params)
    name = op.op_code.name
    if name in OPS_WITH_JUMP_TO_MEM_OFFSET and ps:
        ps.pop()
    return _dmc((name, tuple(param_key(p) for p in ps)))


def _dmc(label: tuple) -> tuple:
    from gen.ssb import DMC_VALUES

    name, ps = label
    if name in ("flag_SetDungeonMode", "Case"):
        idx = 1 if name == "flag_SetDungeonMode" else 0
        if idx < len(ps) and ps[idx][0] == "const" and ps[idx][1] in DMC_VALUES:
            ps = list(ps)
            ps[idx] = ("int", DMC_VALUES[ps[idx][1]])
            return (name, tuple(ps))
    return label


def delta_class(entry: tuple, positions: list) -> str:
    """How far the entry is from the nearest true position of the statement."""
    best = None
    for p in positions:
        d = (abs(entry[0] - p[0]), abs(entry[1] - p[1]), entry[0] - p[0], entry[1] - p[1])
        if best is None or d < best:
            best = d
    assert best is not None
    dl, dc = best[2], best[3]
    if dl == 0:
        return "same-line-wrong-column"
    sign = "+" if dl > 0 else "-"
    return f"line{sign}{abs(dl) if abs(dl) <= 3 else 'N'}" + ("" if dc == 0 else "-and-wrong-column")


# ------------------------------------------------------------------------------------------------ ExplorerScript text


class TextModel:
    """Statements of an ExplorerScript text: which label each operation/test/stop element has and where its statement starts."""

    def __init__(self, text: str):
        from spec import esast, sem

        prog = esast.parse(text)
        nodes, entries, headers, origin = sem.sem(prog, perf_var=K.PPL, with_origin=True)
        parent: dict[int, Any] = {}
        self.stmt_at: dict[tuple, list[str]] = {}  # position -> kinds of statements / headers starting there

        def note(node: Any, kind: str) -> None:
            if getattr(node, "pos", None) is not None:
                self.stmt_at.setdefault(tuple(node.pos), []).append(kind)

        def walk_body(body) -> None:
            for s in body or ():
                walk_stmt(s)

        def walk_stmt(s: Any) -> None:
            t = type(s).__name__
            if t == "Ctrl":
                note(s, s.kind)
            elif t == "Jump":
                note(s, "jump")
            elif t == "Call":
                note(s, "call")
            elif t == "Label":
                note(s, "label")
            elif t == "With":
                note(s, "with")
                parent[id(s.stmt)] = s
                walk_stmt(s.stmt)
            elif t == "If":
                for bi, br in enumerate(s.branches):
                    note(br, "if" if bi == 0 else "elseif")
                    for c in br.conds:
                        parent[id(c)] = br
                        if type(c).__name__ == "CondOperation":
                            parent[id(c.op)] = br
                    walk_body(br.body)
                walk_body(s.else_body)
            elif t == "Switch":
                note(s, "switch")
                parent[id(s.header)] = s
                if type(s.header).__name__ == "SwOperation":
                    parent[id(s.header.op)] = s
                for c in s.cases:
                    note(c, "case" if c.header is not None else "default")
                    if c.header is not None:
                        parent[id(c.header)] = c
                    walk_body(c.body)
            elif t == "MessageSwitch":
                note(s, "message-switch")
                for c in s.cases:
                    note(c, "case" if c.header is not None else "default")
            elif t in ("Forever",):
                note(s, "forever")
                walk_body(s.body)
            elif t == "While":
                note(s, "while")
                parent[id(s.cond)] = s
                walk_body(s.body)
            elif t == "For":
                note(s, "for")
                parent[id(s.cond)] = s
                walk_stmt(s.init)
                walk_stmt(s.incr)
                walk_body(s.body)
            elif t == "Op":
                note(s, "operation")
            else:
                note(s, "assignment" if t.startswith("Assign") else t)

        for r in prog.routines:
            walk_body(r.body)

        def positions_of(o: Any) -> set:
            out = set()
            seen = 0
            cur = o
            while cur is not None and seen < 4:
                p = getattr(cur, "pos", None)
                if p is None and type(cur).__name__ == "SwOperation":
                    p = cur.op.pos
                if p is not None:
                    out.add(tuple(p))
                cur = parent.get(id(cur))
                # an operation inside a with block: the with statement is printed for the context op, not for the inner op
                if type(cur).__name__ == "With":
                    break
                seen += 1
            return out

        self.elements: list[dict] = []  # {"label", "kind", "positions", "what"}
        self.transfer_positions: set = set()
        nodes = K.dmc_normalise(nodes)
        for nid, o in origin.items():
            n = nodes[nid]
            what = type(o).__name__
            if n.kind == "silent":
                if what == "Jump" or (what == "Ctrl" and o.kind in ("continue", "break", "break_loop")):
                    self.transfer_positions.add(tuple(o.pos))
                continue
            if what == "With" or (what == "Op" and n.label[0] in ("lives", "object", "performer") and o.ctx is not None and n.label[0] != o.name):
                pos = {tuple(o.pos)}  # the context op of a with block / of an inline context: the statement itself
            else:
                pos = positions_of(o)
            par = parent.get(id(o))
            shared = type(par).__name__ == "IfBranch" and len(par.conds) > 1 and par.conds[0] is not o
            self.elements.append({"label": n.label, "kind": n.kind, "positions": pos, "what": what, "shared": shared})
        self.by_label: dict[tuple, list[dict]] = {}
        for e in self.elements:
            self.by_label.setdefault(e["label"], []).append(e)


def check_es(rs: dict) -> tuple[list[tuple[str, str, str, Any]], dict]:
    """ExplorerScript decompiler. Returns ([(contract, symptom, detail, text)], stats)."""
    from explorerscript.error import ParseError
    from spec import esast, sem

    stats = {"es_checked": 0, "es_skipped": 0, "es_entries": 0, "fallback_checked": 0, "compile_entries": 0}
    es = K.EsResult(rs)
    if es.raised is not None:
        stats["es_skipped"] = 1
        return [], stats
    if es.is_fallback:
        out, st = check_ssbscript_text(rs, es.text, es.source_map, es.ref_ops, "fallback", via_es_compiler=True)
        stats["fallback_checked"] = 1
        stats["es_entries"] += st["entries"]
        return out, stats
    text = es.text
    try:
        tm = TextModel(text)
    except (ParseError, sem.StaticError, esast.UnsupportedSyntax):
        stats["es_skipped"] = 1  # not ExplorerScript / not statically valid: C02 and C06 report it; no statement positions available
        return [], stats
    stats["es_checked"] = 1
    shape = K.shape_token(rs)
    out: list[tuple[str, str, str, Any]] = []
    lines = text.split("\n")
    by_off = {op.offset: op for r in es.ref_ops for op in r}
    input_label_count: dict[tuple, int] = {}
    for op in by_off.values():
        if op.op_code.name != "Jump":
            lab = op_label(op)
            input_label_count[lab] = input_label_count.get(lab, 0) + 1
    entries = {off: (m.line, m.column) for off, m in es.source_map}
    stats["es_entries"] = len(entries)
    good: dict[int, tuple] = {}
    for off in sorted(entries):
        pos = entries[off]
        if off not in by_off:
            out.append((CONTRACT_K, "es:key-is-not-an-input-offset", f"key {off}", text))
            continue
        op = by_off[off]
        name = op.op_code.name
        at = tm.stmt_at.get(pos)
        if name == "Jump":
            if pos in tm.transfer_positions:
                continue
            here = at if at else _where(lines, pos)
            out.append((CONTRACT_P, "es:jump-entry-but-no-jump-statement-printed", f"Jump@{off} -> {pos}: there is {here} ({_line(lines, pos)!r}), not a jump/continue/break statement", text))
            continue
        lab = op_label(op)
        cands = tm.by_label.get(lab, [])
        if any(pos in e["positions"] for e in cands):
            good[off] = lab
            continue
        fam = _family(name)
        synthetic = [k for k in (at or []) if k in ("continue", "break_loop")]
        same_family_here = [e for e in tm.elements if pos in e["positions"] and _cfamily(e["label"][0]) == _cfamily(name) and fam not in ("plain-op",)]
        if not cands and same_family_here:
            # the op is printed in a form that denotes another op of the same family (e.g. flag_CalcValue(=) as `$x = 1`): a C02 finding,
            # the statement is nevertheless the one printed for this op
            good[off] = same_family_here[0]["label"]
            stats["lossy_print_accepted"] = stats.get("lossy_print_accepted", 0) + 1
            continue
        own = sorted(p for e in cands for p in e["positions"])
        if cands and synthetic:
            out.append((CONTRACT_P, f"es:entry-overwritten-by-synthetic-{synthetic[0]}-statement", f"{name}@{off} -> {pos}: there starts {at}; the op's own statement starts at {own}", text))
        elif cands and any("elseif" in tm.stmt_at.get(p, []) and p[0] == pos[0] - 1 for p in own):
            out.append((CONTRACT_P, "es:elseif-entry-points-to-the-line-after-the-header", f"{name}@{off} -> {pos} but `elseif` is at {[p for p in own if 'elseif' in tm.stmt_at.get(p, [])]}; at {pos}: {at or _line(lines, pos)!r}", text))
        elif cands:
            what = ",".join(sorted({e["what"] for e in cands}))
            there = _kinds(at) if at else _where(lines, pos)
            out.append((CONTRACT_P, f"es:entry-misses-its-statement:points-at({there})", f"{name}@{off} -> {pos} ({delta_class(pos, own)}) but its statement ({what}) starts at {own}; at {pos}: {at or _line(lines, pos)!r}", text))
        else:
            if at:
                out.append((CONTRACT_P, f"es:entry-of-op-that-is-not-printed-points-at({_kinds(at)}):{fam}", f"{name}@{off} -> {pos}: no statement of the text denotes this op; there starts {at}", text))
            else:
                out.append((CONTRACT_P, f"es:entry-of-op-that-is-not-printed-points-at-no-statement({_where(lines, pos)}):{fam}", f"{name}@{off} -> {pos}: {_line(lines, pos)!r}", text))
    # (E)
    for lab, els in tm.by_label.items():
        if len(els) != 1 or input_label_count.get(lab, 0) != 1 or els[0]["shared"] or lab == ("Return", ()):
            continue  # a condition after `||` is not a statement of its own; a `return;` may be the decompiler's own closing statement
        off = next(o for o, op in by_off.items() if op.op_code.name != "Jump" and op_label(op) == lab)
        if off not in entries:
            e = els[0]
            out.append((CONTRACT_E, f"es:printed-op-without-entry:{_family(lab[0])}:{e['what']}", f"{lab[0]}@{off} is printed at {sorted(e['positions'])} but has no source-map entry", text))
    # (E) for Jump ops: a Jump that leaves its routine can only be printed as `jump @label_N;` (no structured statement spans
    # routines), so if its routine reaches it, it is printed as its own statement and must have an entry
    try:
        from spec.machine import MalformedRoutines, machine

        rout_of = {op.offset: ri for ri, r in enumerate(es.ref_ops) for op in r}
        mnodes, ments = machine(es.ref_ops, target_index="table")
        for ri, r in enumerate(es.ref_ops):
            reach: set = set()
            stack = [ments[ri]]
            while stack:
                nid = stack.pop()
                if nid in reach or not (isinstance(nid, tuple) and nid and nid[0] == "o") or rout_of.get(nid[1]) != ri:
                    continue
                reach.add(nid)
                stack.extend(mnodes[nid].succ)
            for op in r:
                if op.op_code.name == "Jump" and op.params and isinstance(op.params[0], int) and rout_of.get(op.params[0], ri) != ri:
                    if ("o", op.offset) in reach and op.offset not in entries and tm.transfer_positions:
                        out.append((CONTRACT_E, "es:printed-op-without-entry:Jump:leaves-its-routine", f"Jump@{op.offset} goes to op {op.params[0]} of routine {rout_of[op.params[0]]}; it can only be printed as a `jump` statement, but has no source-map entry", text))
    except MalformedRoutines:
        pass
    # (C)
    if good:
        comp = es.recompile()
        if not isinstance(comp, K.Raised) and comp.source_map is not None and comp.routine_ops is not None:
            by_label_lines: dict[tuple, set] = {}
            for r in comp.routine_ops:
                for cop in r:
                    m = comp.source_map.get_op_line_and_col(cop.offset)
                    if m is not None:
                        cl = compiled_op_label(cop)
                        by_label_lines.setdefault(cl, set()).add(m.line)
                        by_label_lines.setdefault((_cfamily(cl[0]), cl[1]), set()).add(m.line)
            for off, lab in good.items():
                stats["compile_entries"] += 1
                ls = by_label_lines.get(lab) or by_label_lines.get((_cfamily(lab[0]), lab[1]))
                if ls is None:
                    out.append((CONTRACT_C, f"es:recompiled-op-missing-from-compile-map:{_family(lab[0])}", f"{lab[0]}@{off}: no compiled op with this label has a compile-time map entry", text))
                elif entries[off][0] not in ls:
                    out.append((CONTRACT_C, f"es:recompiled-op-on-another-line:{'message-switch-case' if lab[0] in ('CaseText', 'DefaultText') else _family(lab[0])}", f"{lab[0]}@{off}: decompile map says line {entries[off][0]}, compile map says {sorted(ls)}", text))
    return [(c, s + (f":{shape}" if s.startswith("es:key") else ""), d, t) for c, s, d, t in out], stats


def _family(name: str) -> str:
    from props.C02 import _family as fam

    return fam(name)


def _cfamily(name: str) -> str:
    f = _family(name)
    return "Case*" if f == "CaseScenario" else f


def _kinds(at: list) -> str:
    return "+".join(sorted(set(at)))


def _line(lines: list, pos: tuple) -> str:
    return lines[pos[0]] if 0 <= pos[0] < len(lines) else "<beyond the last line>"


def _where(lines: list, pos: tuple) -> str:
    """What is at a position that is not the start of a statement."""
    if not (0 <= pos[0] < len(lines)):
        return "beyond-the-text"
    ln = lines[pos[0]]
    rest = ln[pos[1]:] if pos[1] <= len(ln) else ""
    if rest.strip() == "":
        return "blank"
    if rest.lstrip().startswith("}"):
        return "closing-brace" if rest == rest.lstrip() else "before-closing-brace"
    if rest.startswith("@"):
        return "label"
    if rest != rest.lstrip():
        return "whitespace-before-deeper-statement"
    if rest.startswith(("case ", "default:")):
        return "case-header"
    return "inside-a-statement"


def _enclosing(tm: TextModel, cands: list) -> str:
    kinds = set()
    for e in cands:
        for p in e["positions"]:
            for k in tm.stmt_at.get(p, []):
                kinds.add(k)
    return "+".join(sorted(kinds)) or "?"


# ------------------------------------------------------------------------------------------------ SsbScript text


def ssbscript_operations(text: str) -> list[list[tuple]] | None:
    """[(line0, column, opcode name)] of every `operation` per routine, in source order (repository's SsbScript grammar)."""
    from antlr4 import CommonTokenStream, InputStream, ParseTreeWalker
    from explorerscript.antlr.SsbScriptLexer import SsbScriptLexer
    from explorerscript.antlr.SsbScriptListener import SsbScriptListener
    from explorerscript.antlr.SsbScriptParser import SsbScriptParser

    parser = SsbScriptParser(CommonTokenStream(SsbScriptLexer(InputStream(text))))
    parser.removeErrorListeners()
    tree = parser.start()
    if parser.getNumberOfSyntaxErrors() > 0:
        return None
    routines: list[list[tuple]] = []

    class L(SsbScriptListener):
        def enterFuncdef(self, ctx):
            routines.append([])

        def enterOperation(self, ctx):
            routines[-1].append((ctx.start.line - 1, ctx.start.column, str(ctx.IDENTIFIER())))

    ParseTreeWalker().walk(L(), tree)
    return routines


def check_ssbscript_text(rs: dict, text: str, source_map, ref_ops, which: str, via_es_compiler: bool) -> tuple[list, dict]:
    out: list[tuple[str, str, str, Any]] = []
    st = {"entries": 0}
    ops_in_text = ssbscript_operations(text)
    if ops_in_text is None or [len(r) for r in ops_in_text] != [len(r) for r in ref_ops]:
        return out, st  # not the op-for-op spelling: C07 / C06 report that
    entries = {off: (m.line, m.column) for off, m in source_map}
    st["entries"] = len(entries)
    by_off = {op.offset: (ri, oi) for ri, r in enumerate(ref_ops) for oi, op in enumerate(r)}
    lines = text.split("\n")
    for off in sorted(entries):
        if off not in by_off:
            out.append((CONTRACT_K, f"{which}:key-is-not-an-input-offset", f"key {off}", text))
            continue
        ri, oi = by_off[off]
        want = ops_in_text[ri][oi][:2]
        if entries[off] != want:
            out.append((CONTRACT_P, f"{which}:entry-misses-its-statement:{delta_class(entries[off], [want])}", f"op ({ri},{oi})@{off} -> {entries[off]} but its statement starts at {want}: {_line(lines, entries[off])!r}", text))
    for off, (ri, oi) in by_off.items():
        if off not in entries:
            out.append((CONTRACT_E, f"{which}:printed-op-without-entry", f"op ({ri},{oi})@{off} printed at {ops_in_text[ri][oi][:2]} has no entry", text))
            break
    # (C)
    if via_es_compiler:
        from explorerscript.ssb_converting.ssb_compiler import ExplorerScriptSsbCompiler

        comp: Any = ExplorerScriptSsbCompiler(K.PPL)
        r = K.guarded(lambda: comp.compile(text, "/nonexistent/verif-fallback.exps"))
    else:
        from explorerscript.ssb_script.ssb_converting.ssb_compiler import SsbScriptSsbCompiler

        comp = SsbScriptSsbCompiler()
        r = K.guarded(lambda: comp.compile(text))
    if not isinstance(r, K.Raised) and comp.routine_ops is not None and [len(x) for x in comp.routine_ops] == [len(x) for x in ref_ops]:
        for off, (ri, oi) in by_off.items():
            if off not in entries:
                continue
            m = comp.source_map.get_op_line_and_col(comp.routine_ops[ri][oi].offset)
            if m is None:
                out.append((CONTRACT_C, f"{which}:recompiled-op-missing-from-compile-map", f"op ({ri},{oi})", text))
                break
            if m.line != entries[off][0] and entries[off] == ops_in_text[ri][oi][:2]:
                out.append((CONTRACT_C, f"{which}:recompiled-op-on-another-line", f"op ({ri},{oi})@{off}: decompile map line {entries[off][0]}, compile map line {m.line}", text))
                break
    return out, st


def check_ssbscript(rs: dict) -> tuple[list, dict]:
    from explorerscript.ssb_script.ssb_converting.ssb_decompiler import SsbScriptSsbDecompiler

    infos, ops, coros = K.fresh(rs)
    _ri, ref_ops, _rc = K.fresh(rs)
    r = K.guarded(lambda: SsbScriptSsbDecompiler(infos, ops, coros).convert())
    if isinstance(r, K.Raised):
        return [], {"entries": 0, "skipped": 1}
    text, sm = r
    out, st = check_ssbscript_text(rs, text, sm, ref_ops, "ssbscript", via_es_compiler=False)
    st["skipped"] = 0
    return out, st


# ------------------------------------------------------------------------------------------------ driver


def check(rs: dict) -> tuple[list, dict]:
    out1, st1 = check_es(rs)
    out2, st2 = check_ssbscript(rs)
    st1["ssb_checked"] = 1 - st2["skipped"]
    st1["ssb_entries"] = st2["entries"]
    return out1 + out2, st1


def _inputs(shard: int, nshards: int, tier: str, seed: int, counter: dict):
    """C02's space instantiated with multi-line const strings / language strings (they make a hand-advanced line counter drift if it
    is wrong) and, at half the size, with single-line strings."""
    from gen import ssb

    thorough = tier == "thorough"

    def gen():
        for ml in (True, False):
            yield from K.aimed_space(shard, nshards, multiline=ml)
        yield from K.enum_space((1, 2, 3), ssb.ALPHABET_FULL, shard, nshards, multiline=True, tag="enumF")
        if thorough:
            yield from K.enum_space((4,), ssb.ALPHABET_TASK, shard, nshards, multiline=True, tag="enumT")
        yield from K.program_space(seed, 3000 if thorough else 200, shard, nshards, multiline=True, depth=3, small_relayout_stride=1 if thorough else 2)
        yield from K.program_space(seed + 7, 1000 if thorough else 75, shard, nshards, multiline=False, small=False)
        yield from K.random_space(seed, 20000 if thorough else 1200, shard, nshards, repair=True, multiline=True)

    yield from K.well_formed_only(gen(), counter)


def _worker(args):
    shard, nshards, tier, seed, payload = args
    K.quiet()
    coll = K.Collector()
    counter: dict = {}
    hashes = set()
    stats: dict = {}
    n = 0
    nontrivial = 0
    samples = []
    for tag, rs in _inputs(shard, nshards, tier, seed, counter):
        n += 1
        h = K.short_hash(rs)
        if h not in hashes:
            hashes.add(h)
            from gen import ssb

            if ssb.features(rs)["multiline"]:
                nontrivial += 1
        results, st = check(rs)
        for k, v in st.items():
            stats[k] = stats.get(k, 0) + v
        if not results and len(samples) < 1 and tag.startswith("prog"):
            samples.append(rs)
        for clause, symptom, detail, observed in results:
            coll.add(f"C09:{symptom}{K.seeded_suffix(tag)}", f"decompile-time source map: {symptom} -- {detail}", rs, clause, {"detail": detail, "text": observed}, {"tag": tag})
    return {"n": n, "hashes": hashes, "nontrivial": nontrivial, "viol": coll.by_sig, "counter": counter, "stats": stats, "samples": samples}


def run(ctx: Ctx) -> PropResult:
    res = PropResult(prop="C09", level="exploration")
    results = K.run_sharded(_worker, ctx)
    coll = K.Collector()
    hashes: set = set()
    n = 0
    stats: dict = {}
    counter: dict = {}
    samples: list = []
    for r in results:
        n += r["n"]
        hashes |= r["hashes"]
        coll.merge(r["viol"])
        samples += r["samples"]
        for k, v in r["stats"].items():
            stats[k] = stats.get(k, 0) + v
        for k, v in r["counter"].items():
            counter[k] = counter.get(k, 0) + v
    nontrivial = sum(r["nontrivial"] for r in results)
    res.violations = coll.violations("routine-set")
    thorough = ctx.thorough
    bound = (
        "well-formed routine sets with multi-line const strings and language strings as parameters of plain ops, CaseText/DefaultText and "
        "CaseMenu at every position: every op-class list with <= 3 ops" + (" (thorough: 4 ops)" if thorough else "") + " over the full alphabet x every in-range "
        f"target x 1-2 routines; hand-made shapes x 15 variants (both with and without multi-line strings); compiler output of 11 fixed + ~1300 small + "
        f"{3000 if thorough else 200} random programs of nesting depth <= 3 with multi-line strings (+ {1000 if thorough else 75} without) and their re-layouts "
        f"({'all' if thorough else 'every second'} small program re-laid out); {20000 if thorough else 1200} random lists <= 30 ops"
    )
    for contract, evals in (
        (CONTRACT_P + " [ExplorerScript decompiler; also (K), (E)]", stats.get("es_checked", 0)),
        (CONTRACT_P + " [SsbScript fallback of the ExplorerScript decompiler]", stats.get("fallback_checked", 0)),
        (CONTRACT_P + " [SsbScript decompiler; also (K), (E), (C)]", stats.get("ssb_checked", 0)),
        (CONTRACT_C + " [ExplorerScript decompiler]", stats.get("compile_entries", 0)),
    ):
        res.standins.append(StandIn(contract=contract, tier="T3", bound=bound, evaluations=evals, distinct_nontrivial=min(evals, nontrivial), exhaustive=True, samples=samples[:1]))
    res.rule = (
        "inputs: C02's space (gen.ssb (a)-(d) + hand-made shapes, filtered by the well-formedness predicate) with multi-line strings; an evaluation = "
        "one convert() whose whole source map is checked; distinct = distinct sha1 of the JSON routine set; non-trivial = contains a multi-line "
        "string parameter"
    )
    res.assumptions = [
        "ExplorerScript outputs that are not statically valid ExplorerScript (C02/C06 findings) have no statement positions and are skipped (counted)",
        "which statement prints an op is decided by label equality (opcode + parameters); (E) is only demanded for labels that are unique in input and text",
        "source-map lines are zero-based, columns zero-based (docs/source_maps.rst does not say; the compile-time map uses antlr line-1)",
        "for Jump ops only the kind of statement at the entry is checked (jump/continue/break/break_loop), not which one",
    ]
    res.extra = {"stats": stats, "generated": counter.get("generated", 0), "filtered_not_well_formed": counter.get("not_well_formed", 0), "inputs": n}
    res.trusted_base = ["gen/ssb.py", "props/_ssb_common.py", "spec/esast.py (statement positions)", "spec/sem.py (labels of text elements)", "repository ANTLR grammars"]
    res.functions_under_contract = [
        {"function": "ExplorerScriptSsbDecompiler.convert (source map)", "tier": "T3"},
        {"function": "SsbScriptSsbDecompiler.convert (source map)", "tier": "T3"},
    ]
    for key, what in (("es_checked", "ExplorerScript output"), ("fallback_checked", "fallback output"), ("ssb_checked", "SsbScript decompiler output"), ("compile_entries", "compile-time comparison")):
        if stats.get(key, 0) == 0:
            res.self_check_failures.append(f"C09: the contract was never evaluated on {what}")
    return res


def replay(record: dict, ctx: Ctx) -> bool:
    K.quiet()
    rs = record["input"]["routine_set"]
    want = record["signature"]
    results, _ = check(rs)
    tag = record["input"].get("tag", "")
    return any(f"C09:{symptom}{K.seeded_suffix(tag)}" == want for _c, symptom, _d, _o in results)
