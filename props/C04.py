"""C04 - every parameter value survives being printed and parsed again; every literal spelling parses to the value the
specification gives.                                                              (tier T3: bounded stand-in, never proof)

Contracts (from the property text), all evaluated on the REAL functions of /repo:

 (a) VALUE LEVEL   for each value v and each printing function the decompilers use
        repr_string(v, indent 0..4, both quote preferences), str(SsbOpParamConstString) / str(SsbOpParamLanguageString)
        with .indent 0..4, str(SsbOpParamFixedPoint), str(int), str(SsbOpParamConstant), str(SsbOpParamPositionMarker)
     the printed text is lexed by the repository's ANTLR lexer as exactly the token(s) of ONE literal of the expected kind
     (string: one STRING_LITERAL or MULTILINE_STRING_LITERAL token spanning the whole text; ...) and the repository's reader
     function for that token (singleline_string_literal / multiline_string_literal / exps_int / SsbOpParamFixedPoint.from_str /
     parse_position_marker_arg) returns a value structurally equal (spec.machine.param_key) to v.
 (b) PIPELINE      an SSB routine holding one op with parameter p in a printing context (operation argument, switch-header
     operation argument, `case menu(..)`, message-switch CaseText / DefaultText, `$V = p`, `case p:`, `case > p:`, dungeon mode)
     nested 1-4 levels deep is decompiled by ExplorerScriptSsbDecompiler (and SsbScriptSsbDecompiler) and compiled again by
     ExplorerScriptSsbCompiler (SsbScriptSsbCompiler); the op comes back with a parameter equal to p (for a dungeon-mode
     number 0..3 the configured constant for that number is accepted).
 (c) CONVERSE      each literal spelling (one token for the repository lexer) placed as an operation argument compiles to the
     value spec/literals.py (written from docs/language_spec.rst) gives.

Signatures are `C04:<part>:<kind>:<print mode>:<decidable class of the value>:<symptom>`; the class is the first predicate
of a fixed priority list that holds for the value (see string_class / posmark_class), so it is a function of the input only.
"""
from __future__ import annotations

import copy
import functools
import hashlib
import json
import multiprocessing
import random
import re
from fractions import Fraction
from typing import Any, Iterable

from gen import values as V
from spec import literals as LIT
from vlib.result import Ctx, PropResult, StandIn, Violation

PPL = "$PERFORMANCE_PROGRESS_LIST"
DMODE = {0: "DMODE_CLOSED", 1: "DMODE_OPEN", 2: "DMODE_REQUEST", 3: "DMODE_OPEN_AND_REQUEST"}

CONTRACT_A = (
    "value level: the text printed for a parameter value is lexed by the repository lexer as exactly one literal of the "
    "expected kind and the repository's reader function returns an equal value (param_key)"
)
CONTRACT_B = (
    "pipeline: compile(decompile(routines with one op carrying parameter p in printing context c at nesting depth d)) "
    "contains that op with a parameter equal to p (dungeon-mode number 0..3 may come back as its configured constant)"
)
CONTRACT_C = "converse: compile() of a literal spelling yields the value spec/literals.py (language_spec.rst) gives"

TRIPLES = ("'''", '"""')
UNICODE_BOUNDARIES = {"\x0b": "VT", "\x0c": "FF", "\x1c": "FS", "\x1d": "GS", "\x1e": "RS", "\x85": "NEL", "\u2028": "LS", "\u2029": "PS"}


# =====================================================================================================================
# repository access (imported lazily so that worker processes import explorerscript themselves)
# =====================================================================================================================
@functools.lru_cache(maxsize=None)
def _repo():
    from antlr4 import InputStream, Token
    from explorerscript.antlr.ExplorerScriptLexer import ExplorerScriptLexer
    from explorerscript.common_syntax import parse_position_marker_arg
    from explorerscript.error import ParseError, SsbCompilerError
    from explorerscript.ssb_converting import ssb_data_types as dt
    from explorerscript.ssb_converting.compiler.utils import multiline_string_literal, singleline_string_literal
    from explorerscript.ssb_converting.ssb_compiler import ExplorerScriptSsbCompiler
    from explorerscript.ssb_converting.ssb_decompiler import ExplorerScriptSsbDecompiler
    from explorerscript.ssb_converting.ssb_special_ops import OPS_WITH_JUMP_TO_MEM_OFFSET
    from explorerscript.ssb_script.ssb_converting.ssb_compiler import SsbScriptSsbCompiler
    from explorerscript.ssb_script.ssb_converting.ssb_decompiler import SsbScriptSsbDecompiler
    from explorerscript.util import exps_int
    from spec.machine import param_key

    class R:
        pass

    r = R()
    r.InputStream, r.Token, r.Lexer = InputStream, Token, ExplorerScriptLexer
    r.parse_position_marker_arg = parse_position_marker_arg
    r.ParseError, r.SsbCompilerError = ParseError, SsbCompilerError
    r.dt = dt
    r.ml, r.sl = multiline_string_literal, singleline_string_literal
    r.Compiler, r.Decompiler = ExplorerScriptSsbCompiler, ExplorerScriptSsbDecompiler
    r.SsbsCompiler, r.SsbsDecompiler = SsbScriptSsbCompiler, SsbScriptSsbDecompiler
    r.JUMP_OPS = OPS_WITH_JUMP_TO_MEM_OFFSET
    r.exps_int = exps_int
    r.param_key = param_key
    r.T = {k: v for k, v in vars(ExplorerScriptLexer).items() if k.isupper() and isinstance(v, int)}
    r.TN = {v: k for k, v in r.T.items() if k not in ("DEFAULT_TOKEN_CHANNEL", "HIDDEN", "MIN_CHAR_VALUE", "MAX_CHAR_VALUE",
                                                       "DEFAULT_MODE", "MORE", "SKIP")}
    return r


_LEXER: list = []


def lex(text: str) -> list[tuple[str, str]]:
    """Default-channel tokens of the repository's ExplorerScript lexer as (TYPE_NAME, text)."""
    r = _repo()
    if not _LEXER:
        lx = r.Lexer(r.InputStream(""))
        lx.removeErrorListeners()
        _LEXER.append(lx)
    lx = _LEXER[0]
    lx.inputStream = r.InputStream(text)  # the setter resets the lexer
    out = []
    eof = r.Token.EOF
    while True:
        t = lx.nextToken()
        if t.type == eof:
            break
        if t.channel == 0:
            out.append((r.TN.get(t.type, str(t.type)), t.text))
    return out


class _ArgCtx:
    """Duck-typed Position_marker_argContext: parse_position_marker_arg only calls INTEGER() and DECIMAL()."""

    def __init__(self, kind: str, text: str):
        self.kind, self.text = kind, text

    def INTEGER(self):
        return self.text if self.kind == "INTEGER" else None

    def DECIMAL(self):
        return self.text if self.kind == "DECIMAL" else None


# =====================================================================================================================
# values <-> parameters
# =====================================================================================================================
def make_param(kind: str, value: Any) -> Any:
    dt = _repo().dt
    if kind == "str":
        return dt.SsbOpParamConstString(value)
    if kind == "lang":
        return dt.SsbOpParamLanguageString(dict(value))
    if kind == "int":
        return int(value)
    if kind == "const":
        return dt.SsbOpParamConstant(value)
    if kind == "fixed":
        if value[0] == "ctor":
            whole = dt.SsbOpParamFixedPoint.NegativeZero if value[1] == V.NEGATIVE_ZERO else int(value[1])
            return dt.SsbOpParamFixedPoint(whole, value[2])
        return dt.SsbOpParamFixedPoint.from_float(float(value[1]))
    if kind == "pos":
        return dt.SsbOpParamPositionMarker(value[0], value[1], value[2], value[3], value[4])
    raise ValueError(kind)


def vhash(kind: str, value: Any) -> str:
    return hashlib.sha1(json.dumps([kind, value], sort_keys=True).encode()).hexdigest()


def print_mode(v: str) -> str:
    """Which form repr_string chooses is decided by the value alone: 'sl', 'sl-fallback' (newline + both triple quotes) or 'ml'."""
    if "\n" not in v:
        return "sl"
    if "'''" in v and '"""' in v:
        return "sl-fallback"
    return "ml"


def _sl_predicates(v: str) -> dict[str, bool]:
    m = re.search(r"\\+$", v)
    return {
        "odd-trailing-backslashes": bool(m and len(m.group(0)) % 2 == 1),
        "contains-CR-or-FF": "\r" in v or "\x0c" in v,
        "backslash-before-quote": re.search(r"\\['\"]", v) is not None,
        "backslash-before-n": "\\n" in v,
    }


#: predicates that can explain a symptom, in priority order ('token': the printed text is not one token / does not parse;
#: 'value': it reads back as another value)
SL_ORDER = {
    "token": ["odd-trailing-backslashes", "contains-CR-or-FF", "backslash-before-quote", "backslash-before-n"],
    "value": ["backslash-before-n", "backslash-before-quote", "odd-trailing-backslashes", "contains-CR-or-FF"],
}


def string_class(v: str, indent0: bool, symptom: str = "value") -> str:
    """Decidable class of a string value: the first predicate (in the priority order for the kind of symptom) that holds."""
    mode = print_mode(v)
    if mode == "ml":
        if "\r" in v:
            return "contains-CR"
        for ch, name in UNICODE_BOUNDARIES.items():
            if ch in v:
                return "contains-VT-FF-FS-GS-RS-NEL-LS-PS"
        lines = v.split("\n")
        if indent0 and lines[-1].strip(" ") == "":
            return "last-line-blank-or-empty@indent0"
        if all(ln.startswith(" ") for ln in lines):
            return "all-lines-start-with-blank"
        if lines[-1].strip(" ") == "":
            return "last-line-blank-or-empty"
        return "other"
    preds = _sl_predicates(v)
    for name in SL_ORDER["token" if symptom == "token" else "value"]:
        if preds[name]:
            return name
    return "other"


def mode_label(v: str) -> str:
    """'sl-fallback' (newline + both triple quotes -> escaped single-line form) has the single-line reader's classes; it is
    kept apart only for values outside every known class."""
    mode = print_mode(v)
    if mode == "sl-fallback" and string_class(v, False) != "other":
        return "sl"
    return mode


def nontrivial_string(v: str) -> bool:
    return any(c in v for c in " \n\\'\"\r\t") or any(ord(c) > 0x7E or ord(c) < 0x20 for c in v)


def posmark_class(value: list) -> str:
    name, xo, yo = value[0], value[1], value[2]
    if "\n" in name or "\r" in name:
        return "name-with-newline"
    m = re.search(r"\\+$", name)
    if m and len(m.group(0)) % 2 == 1:
        return "name-odd-trailing-backslashes"
    if "'" in name:
        return "name-with-single-quote"
    if "\\n" in name or '\\"' in name:
        return "name-backslash-before-n-or-dquote"
    for o in (4, 3, 1):
        if o in (xo, yo):
            return f"offset-{o}"
    if not (xo in (0, 2) and yo in (0, 2)):
        return "offset-other"
    return "regular"


# =====================================================================================================================
# (a) value level
# =====================================================================================================================
def _fail(sig: str, what: str, inp: Any, contract: str, observed: Any) -> dict:
    return {"signature": sig, "what": what, "input": inp, "contract": contract, "observed": observed}


def _read_string_token(text: str) -> tuple[str, Any]:
    """('ok', value) | ('not-one-token', tokens) for a printed string literal."""
    r = _repo()
    toks = lex(text)
    if len(toks) != 1 or toks[0][1] != text or toks[0][0] not in ("STRING_LITERAL", "MULTILINE_STRING_LITERAL"):
        return "not-one-token", [list(t) for t in toks[:6]]
    if toks[0][0] == "STRING_LITERAL":
        return "ok", r.sl(text)
    return "ok", r.ml(text)


def check_value_string(v: str, indent: int, single: bool) -> list[dict]:
    """repr_string(v, indent, single) -> one string token -> reader == v."""
    r = _repo()
    text = r.dt.repr_string(v, indent, single)
    return _judge_string_text(v, text, {"part": "value", "kind": "str", "value": v, "indent": indent, "single": single}, indent == 0)


def _judge_string_text(v: str, text: str, inp: dict, indent0: bool) -> list[dict]:
    status, got = _read_string_token(text)
    mode = mode_label(v)
    cls = string_class(v, indent0, "token" if status != "ok" else "value")
    if status != "ok":
        return [
            _fail(
                f"C04:value:str:{mode}:{cls}:not-one-token",
                f"printed string {text!r} (value {v!r}) is not one string token: {got}",
                inp,
                CONTRACT_A,
                {"printed": text, "tokens": got},
            )
        ]
    if got != v:
        return [
            _fail(
                f"C04:value:str:{mode}:{cls}:value-changed",
                f"value {v!r} printed as {text!r} reads back as {got!r}",
                inp,
                CONTRACT_A,
                {"printed": text, "read": got},
            )
        ]
    return []


def string_prints(v: str, indents: Iterable[int]) -> dict[str, tuple[int, bool]]:
    """Distinct printed texts of v over indents x quote preferences -> first (indent, single) producing it."""
    r = _repo()
    out: dict[str, tuple[int, bool]] = {}
    if "\n" not in v:
        indents = (0,)  # single-line prints do not depend on the indent (checked by the pipeline part anyway)
    for ind in indents:
        for single in (False, True):
            out.setdefault(r.dt.repr_string(v, ind, single), (ind, single))
    return out


def check_value_string_all(v: str, indents=(0, 1, 2, 3, 4), class_printers: bool = True) -> tuple[int, list[dict]]:
    """All printers of a constant string / language string entry for one value. Returns (#evaluations, failures)."""
    r = _repo()
    fails: list[dict] = []
    n = 0
    for text, (ind, single) in string_prints(v, indents).items():
        n += 1
        fails += _judge_string_text(
            v, text, {"part": "value", "kind": "str", "value": v, "indent": ind, "single": single}, ind == 0
        )
    # the class printers must be the functions above with their fixed quote preference
    if not class_printers:
        return n, fails
    p = r.dt.SsbOpParamConstString(v)
    for ind in indents if "\n" in v else (0,):
        p.indent = ind
        n += 1
        if str(p) != r.dt.repr_string(v, ind, True):
            fails.append(
                _fail("C04:value:str:printer-mismatch:ConstString", f"str(SsbOpParamConstString({v!r})) at indent {ind} is not repr_string(.., single)",
                      {"part": "value", "kind": "str", "value": v, "indent": ind, "single": True}, CONTRACT_A, str(p))
            )
    return n, fails


def check_value_lang(d: dict, indent: int) -> list[dict]:
    r = _repo()
    p = r.dt.SsbOpParamLanguageString(dict(d))
    p.indent = indent
    text = str(p)
    inp = {"part": "value", "kind": "lang", "value": d, "indent": indent}
    toks = lex(text)
    # grammar: lang_string: '{' lang_string_argument (',' lang_string_argument)* ','? '}' ; argument: IDENTIFIER '=' string_value
    ok = len(toks) >= 2 and toks[0][0] == "OPEN_BRACE" and toks[-1][0] == "CLOSE_BRACE"
    got: dict[str, str] = {}
    i = 1
    if ok:
        while i < len(toks) - 1:
            seg = toks[i : i + 3]
            if len(seg) == 3 and seg[0][0] == "IDENTIFIER" and seg[1][0] == "ASSIGN" and seg[2][0] in ("STRING_LITERAL", "MULTILINE_STRING_LITERAL"):
                got[seg[0][1]] = r.sl(seg[2][1]) if seg[2][0] == "STRING_LITERAL" else r.ml(seg[2][1])
                i += 3
                if i < len(toks) - 1:
                    if toks[i][0] != "COMMA":
                        ok = False
                        break
                    i += 1
            else:
                ok = False
                break
    if not ok or got != d:
        # fold into the signature of the string printer when an entry already fails there (same root cause)
        sub: list[dict] = []
        for k in d:
            sub += check_value_string(d[k], indent + 1, False)
        if sub:
            return sub[:1]
    worst = None
    for k in d:
        c = string_class(d[k], False)
        if got.get(k) != d[k] or not ok:
            worst = (mode_label(d[k]), c)
            break
    if not ok:
        mode, cls = worst or ("-", "-")
        return [_fail(f"C04:value:lang:{mode}:{cls}:not-one-literal", f"printed language string {text!r} is not one lang_string literal",
                      inp, CONTRACT_A, {"printed": text, "tokens": [list(t) for t in toks[:12]]})]
    if got != d:
        mode, cls = worst or ("-", "-")
        return [_fail(f"C04:value:lang:{mode}:{cls}:value-changed", f"language string {d!r} printed as {text!r} reads back as {got!r}",
                      inp, CONTRACT_A, {"printed": text, "read": got})]
    return []


def check_value_int(i: int) -> list[dict]:
    r = _repo()
    text = str(i)
    inp = {"part": "value", "kind": "int", "value": i}
    toks = lex(text)
    if toks != [("INTEGER", text)]:
        return [_fail("C04:value:int:not-one-token", f"str({i}) = {text!r} is not one INTEGER token", inp, CONTRACT_A, toks)]
    try:
        got = r.exps_int(text)
    except Exception as e:  # repository code raised
        return [_fail(f"C04:value:int:reader-raises-{type(e).__name__}", f"exps_int({text!r}) raises {e!r}", inp, CONTRACT_A, repr(e))]
    if got != i or type(got) is not int:
        return [_fail("C04:value:int:value-changed", f"{i} prints as {text!r} and reads back as {got!r}", inp, CONTRACT_A, got)]
    return []


def check_value_const(name: str) -> list[dict]:
    r = _repo()
    text = str(r.dt.SsbOpParamConstant(name))
    inp = {"part": "value", "kind": "const", "value": name}
    toks = lex(text)
    if len(toks) != 1 or toks[0][1] != text or toks[0][0] not in ("IDENTIFIER", "VARIABLE") or text != name:
        return [_fail("C04:value:const:not-one-token", f"constant {name!r} prints as {text!r}: not one IDENTIFIER/VARIABLE token", inp, CONTRACT_A, toks)]
    return []


def check_value_fixed(value: list) -> list[dict]:
    r = _repo()
    p = make_param("fixed", value)
    text = str(p)
    inp = {"part": "value", "kind": "fixed", "value": value}
    toks = lex(text)
    src = value[0]
    if toks != [("DECIMAL", text)]:
        return [_fail(f"C04:value:fixed:{src}:not-one-token", f"fixed point {value!r} prints as {text!r}: not one DECIMAL token", inp, CONTRACT_A, toks)]
    try:
        got = r.dt.SsbOpParamFixedPoint.from_str(text)
    except Exception as e:
        return [_fail(f"C04:value:fixed:{src}:reader-raises-{type(e).__name__}", f"from_str({text!r}) raises {e!r}", inp, CONTRACT_A, repr(e))]
    if r.param_key(got) != r.param_key(p):
        return [_fail(f"C04:value:fixed:{src}:value-changed", f"fixed point {text!r} reads back as {got.value!r}", inp, CONTRACT_A, got.value)]
    return []


POS_SHAPE = ["POSITION", "OPEN_SHARP", "STRING_LITERAL", "COMMA", "NUM", "COMMA", "NUM", "CLOSE_SHARP"]


def check_value_pos(value: list) -> list[dict]:
    r = _repo()
    p = make_param("pos", value)
    text = str(p)
    cls = posmark_class(value)
    inp = {"part": "value", "kind": "pos", "value": value}
    toks = lex(text)
    shape = ["NUM" if t[0] in ("INTEGER", "DECIMAL") else t[0] for t in toks]
    if shape != POS_SHAPE:
        return [_fail(f"C04:value:pos:{cls}:not-one-literal", f"position mark {value!r} prints as {text!r}: token shape {shape}", inp, CONTRACT_A, [list(t) for t in toks[:12]])]
    try:
        name = r.sl(toks[2][1])
        x = r.parse_position_marker_arg(_ArgCtx(*toks[4]))
        y = r.parse_position_marker_arg(_ArgCtx(*toks[6]))
    except Exception as e:
        return [_fail(f"C04:value:pos:{cls}:reader-raises-{type(e).__name__}", f"reading {text!r} raises {e!r}", inp, CONTRACT_A, repr(e))]
    got = r.dt.SsbOpParamPositionMarker(name, x[1], y[1], x[0], y[0])
    if r.param_key(got) != r.param_key(p):
        return [_fail(f"C04:value:pos:{cls}:value-changed", f"position mark {value!r} prints as {text!r} and reads back as {got!r}", inp, CONTRACT_A, repr(got))]
    return []


def _raised_in_repo(e: BaseException) -> bool:
    """True if the innermost frame of the traceback is not /verif code (repository or a library it called)."""
    tb = e.__traceback__
    last = None
    while tb is not None:
        last = tb.tb_frame.f_code.co_filename
        tb = tb.tb_next
    import os

    from vlib.result import VERIF

    return last is not None and not os.path.abspath(last).startswith(os.path.abspath(VERIF) + os.sep)


def check_value(kind: str, value: Any, indent: int = 0, single: bool = False) -> list[dict]:
    """Contract (a) for one value; an exception raised by repository code is a violation, one raised by /verif code propagates."""
    try:
        return _check_value(kind, value, indent, single)
    except Exception as e:
        if not _raised_in_repo(e):
            raise
        return [_fail(f"C04:value:{kind}:printer-or-reader-raises-{type(e).__name__}", f"printing/reading {kind} {value!r} raises {_exc(e)}",
                      {"part": "value", "kind": kind, "value": value, "indent": indent, "single": single}, CONTRACT_A, _exc(e))]


def _check_value(kind: str, value: Any, indent: int = 0, single: bool = False) -> list[dict]:
    if kind == "str":
        return check_value_string(value, indent, single)
    if kind == "lang":
        return check_value_lang(value, indent)
    if kind == "int":
        return check_value_int(value)
    if kind == "const":
        return check_value_const(value)
    if kind == "fixed":
        return check_value_fixed(value)
    if kind == "pos":
        return check_value_pos(value)
    raise ValueError(kind)


# =====================================================================================================================
# (b) pipeline level
# =====================================================================================================================
WRAPPERS = {1: [], 2: ["if"], 3: ["if", "if"], 4: ["if", "sw"]}

# context -> (prefix, repeated part, suffix, op name that carries the parameter, parameter index, marker kind)
# {M} is the marker ('s': a string literal "MARK_k", 'c': a constant MARK_k), {K} a number unique to the item.
CONTEXTS = {
    "oparg": ("", "target({K}, {M}, 9);", "", "target", 1, "s"),
    "swhdr": ("", "switch (message_Menu({M}, {K})) {{ case 1: hit(); break; }}", "", "message_Menu", 0, "s"),
    "casemenu": ("switch (message_SwitchMenu(1, 2)) {{", "case menu({M}): hit(); break;", "}}", "CaseMenu", 0, "s"),
    "casetext": ("message_SwitchTalk ($P) {{", "case {K}: {M}", 'default: "z" }}', "CaseText", 1, "s"),
    "defaulttext": ("", 'message_SwitchMonologue ($P) {{ case {K}: "z" default: {M} }}', "", "DefaultText", 0, "s"),
    "flagset": ("", "$V{K} = {M};", "", "flag_Set", 1, "c"),
    "caseint": ("switch ($X) {{", "case {M}: hit(); break;", "}}", "Case", 0, "c"),
    "casevalue": ("switch ($X) {{", "case > {M}: hit(); break;", "}}", "CaseValue", 1, "c"),
    "dmode-set": ("", "dungeon_mode({K}) = {M};", "", "flag_SetDungeonMode", 1, "c"),
    "dmode-case": ("switch (dungeon_mode(3)) {{", "case {M}: hit(); break;", "}}", "Case", 0, "c"),
}
STRING_CONTEXTS = ("oparg", "swhdr", "casemenu", "casetext", "defaulttext")
INTLIKE_CONTEXTS = ("oparg", "flagset", "caseint", "casevalue")
DMODE_CONTEXTS = ("dmode-set", "dmode-case")
LANG_CONTEXTS = ("oparg", "casemenu", "casetext")
LANG_DEPTHS = (1, 3)


def _skeleton_text(ctxname: str, depth: int, n: int) -> str:
    """ONE routine holding n ops of the context (each with its own marker) at the given nesting depth."""
    prefix, rep, suffix, _op, _idx, mk = CONTEXTS[ctxname]
    parts = []
    for k in range(n):
        marker = f'"MARK_{k}"' if mk == "s" else f"MARK_{k}"
        parts.append(rep.format(M=marker, K=1000 + k))
    inner = " ".join([prefix.format()] + parts + [suffix.format()]).strip()
    for w in reversed(WRAPPERS[depth]):
        if w == "if":
            inner = f"if ($A == 1) {{ {inner} }}"
        else:
            inner = f"switch ($B) {{ case 77: {inner} break; }}"
    return f"def 0 {{ {inner} end; }}"


@functools.lru_cache(maxsize=None)
def _skeleton(ctxname: str, depth: int, n: int):
    """Compiled skeleton: (routine_infos, routine_ops, [(op index in routine 0, param index) per item])."""
    r = _repo()
    c = r.Compiler(PPL).compile(_skeleton_text(ctxname, depth, n), "/verif-nonexistent/skeleton.exps")
    _pre, _rep, _suf, opname, pidx, _mk = CONTEXTS[ctxname]
    locs: list = [None] * n
    for oi, op in enumerate(c.routine_ops[0]):
        if op.op_code.name == opname and len(op.params) > pidx:
            nm = getattr(op.params[pidx], "name", None)
            if isinstance(nm, str) and nm.startswith("MARK_"):
                k = int(nm[5:])
                assert locs[k] is None
                locs[k] = (oi, pidx)
    assert all(x is not None for x in locs), (ctxname, depth, n)
    return c.routine_infos, c.routine_ops, locs


def _acceptable(ctxname: str, kind: str, value: Any) -> list:
    """param_keys accepted for the parameter that comes back."""
    r = _repo()
    keys = [r.param_key(make_param(kind, value))]
    if ctxname in DMODE_CONTEXTS and kind == "int" and value in DMODE:
        keys.append(r.param_key(r.dt.SsbOpParamConstant(DMODE[value])))
    return keys


def _decompile(which: str, infos, ops) -> str:
    r = _repo()
    infos = copy.deepcopy(infos)
    ops = copy.deepcopy(ops)
    named = [r.dt.SsbCoroutine(-1, "n/a") for _ in infos]
    if which == "exps":
        d = r.Decompiler(infos, ops, named, PPL, r.dt.DungeonModeConstants(DMODE[0], DMODE[1], DMODE[2], DMODE[3]))
        return d.convert()[0]
    d = r.SsbsDecompiler(infos, ops, named)
    return d.convert()[0]


def _compile(which: str, text: str):
    r = _repo()
    with _quiet():
        if which == "exps":
            return r.Compiler(PPL).compile(text, "/verif-nonexistent/recompiled.exps").routine_ops
        c = r.SsbsCompiler()
        c.compile(text)
        return c.routine_ops


def _quiet():
    """ANTLR's ConsoleErrorListener prints every syntax error to stderr; keep the run's output readable."""
    import contextlib
    import io

    return contextlib.redirect_stderr(io.StringIO())


def _exc(e: BaseException) -> str:
    return f"{type(e).__name__}: {e}"[:300]


def run_pipeline(ctxname: str, depth: int, which: str, items: list[tuple[str, Any]]) -> list[tuple[str, Any]]:
    """Push the items (kind, value) through decompile+compile in ONE routine (one op per item).

    Returns per item ('ok', None) | ('value-changed', observed) | ('op-missing', observed); for more than one item the
    verdicts are only meaningful if ALL are 'ok' (ops are matched by position) - the caller re-runs the items one by one
    otherwise.  Raises _BatchError(stage, exception, text) if repository code raised.
    """
    r = _repo()
    n = len(items)
    infos, ops, locs = _skeleton(ctxname, depth, n)
    ops = copy.deepcopy(ops)
    for (kind, value), (oi, pi) in zip(items, locs):
        ops[0][oi].params[pi] = make_param(kind, value)
    try:
        text = _decompile(which, infos, ops)
    except Exception as e:
        raise _BatchError("decompile", e, None)
    try:
        back = _compile(which, text)
    except Exception as e:
        raise _BatchError("recompile", e, text)
    _pre, _rep, _suf, opname, pidx, _mk = CONTEXTS[ctxname]
    cut = 1 if opname in r.JUMP_OPS else 0

    def sig_params(op):
        ps = list(op.params)
        return ps[: len(ps) - cut] if cut else ps

    want = [(oi, sig_params(op)) for oi, op in enumerate(ops[0]) if op.op_code.name == opname]
    got = [sig_params(op) for op in (back[0] if back else []) if op.op_code.name == opname]
    item_at = {oi: k for k, (oi, _pi) in enumerate(locs)}
    out: list = [None] * n
    shape_ok = len(got) == len(want) and len(back) == 1
    for pos, (oi, wps) in enumerate(want):
        gps = got[pos] if pos < len(got) else None
        k = item_at.get(oi)
        if k is None:
            # an op of the skeleton itself (e.g. the wrapper's `case 77:`): must be unchanged
            if gps is None or [r.param_key(x) for x in gps] != [r.param_key(x) for x in wps]:
                shape_ok = False
            continue
        kind, value = items[k]
        if gps is None or len(gps) != len(wps):
            out[k] = ("op-missing", None)
            continue
        others_same = all(r.param_key(a) == r.param_key(b) for j, (a, b) in enumerate(zip(gps, wps)) if j != pidx)
        if not others_same:
            out[k] = ("op-missing", None)
        elif r.param_key(gps[pidx]) in _acceptable(ctxname, kind, value):
            out[k] = ("ok", None)
        else:
            out[k] = ("value-changed", {"came_back": [_show(gps[pidx])]})
    res = []
    for k in range(n):
        st, obs = out[k] if out[k] is not None else ("op-missing", None)
        if st == "ok" and not shape_ok:
            st = "op-missing"
        if st != "ok":
            obs = dict(obs or {})
            if n == 1:
                obs["text"] = text
                obs["ops"] = [[op.op_code.name, [_show(x) for x in op.params]] for rt in back for op in rt][:16]
        res.append((st, obs))
    return res


class _BatchError(Exception):
    def __init__(self, stage: str, exc: BaseException, text: str | None):
        super().__init__(stage)
        self.stage, self.exc, self.text = stage, exc, text


def _show(p: Any) -> Any:
    k = _repo().param_key(p)
    return json.loads(json.dumps(k, default=str))


def pipeline_indent(ctxname: str, depth: int) -> int:
    """Indentation level the decompiler has when it prints the parameter (what it copies into param.indent)."""
    base = {1: 1, 2: 2, 3: 3, 4: 4}[depth]
    return base + {"oparg": 0, "swhdr": 0, "casemenu": 1, "casetext": 2, "defaulttext": 2}.get(ctxname, 0)


_VLOK: dict[str, bool] = {}


def value_level_ok(kind: str, value: Any) -> bool:
    """Does the value pass contract (a) for every indent >= 1 / both quote preferences?  (used to batch and to classify)"""
    h = vhash(kind, value)
    if h not in _VLOK:
        if len(_VLOK) > 200000:
            _VLOK.clear()
        _VLOK[h] = _value_level_ok(kind, value)
    return _VLOK[h]


def _value_level_ok(kind: str, value: Any) -> bool:
    if kind == "str":
        return not check_value_string_all(value, (1, 2, 3, 4, 5, 6))[1]
    if kind == "lang":
        return all(not check_value_lang(value, i) for i in (1, 2, 3, 4, 5, 6))
    return not check_value(kind, value)


def value_class(kind: str, value: Any, ctxname: str = "", symptom: str = "value") -> tuple[str, str]:
    """(kind label, decidable class) used in pipeline signatures."""
    if kind == "str":
        return "string", f"{mode_label(value)}:{string_class(value, False, symptom)}"
    if kind == "lang":
        for k in value:
            c = string_class(value[k], False, symptom)
            if c != "other" or len(value) == 1:
                return "string", f"{mode_label(value[k])}:{c}"
        return "string", "-:other"
    if kind == "pos":
        return "pos", posmark_class(value)
    if kind == "int":
        if ctxname in DMODE_CONTEXTS:
            return "int", "number-0..3" if value in DMODE else "number-outside-0..3"
        return "int", "negative" if value < 0 else "non-negative"
    if kind == "fixed":
        return "fixed", value[0]
    return kind, "-"


def pipeline_signature(ctxname: str, which: str, kind: str, value: Any, symptom: str) -> str:
    label, cls = value_class(kind, value, ctxname, "value" if symptom == "value-changed" else "token")
    if ctxname in DMODE_CONTEXTS:
        return f"C04:pipeline:{ctxname}:{label}:{cls}:{symptom}"
    if value_level_ok(kind, value):
        # the printers/readers are fine in isolation: the failure belongs to this printing context
        return f"C04:pipeline-only:{which}:{ctxname}:{kind}:{cls}:{symptom}"
    return f"C04:pipeline:{label}:{cls}:{symptom}"


def check_pipeline_one(ctxname: str, depth: int, which: str, kind: str, value: Any) -> list[dict]:
    inp = {"part": "pipeline", "ctx": ctxname, "depth": depth, "decompiler": which, "kind": kind, "value": value}
    try:
        ((status, obs),) = run_pipeline(ctxname, depth, which, [(kind, value)])
    except _BatchError as be:
        symptom = f"{be.stage}-fails"
        return [_fail(pipeline_signature(ctxname, which, kind, value, symptom),
                      f"{kind} {value!r} in context {ctxname} depth {depth} ({which}): {be.stage} raises {_exc(be.exc)}"[:400],
                      inp, CONTRACT_B, {"exception": _exc(be.exc), "text": be.text})]
    if status == "ok":
        return []
    return [_fail(pipeline_signature(ctxname, which, kind, value, status),
                  f"{kind} {value!r} in context {ctxname} depth {depth} ({which}) comes back as {json.dumps(obs.get('came_back', obs.get('ops')))[:300]}",
                  inp, CONTRACT_B, obs)]


def check_pipeline_many(ctxname: str, depth: int, which: str, items: list[tuple[str, Any]], batch: int = 24) -> tuple[int, list[dict]]:
    """Evaluate contract (b) for all items; batches items expected to pass, falls back to one-by-one on any failure."""
    fails: list[dict] = []
    good = [it for it in items if value_level_ok(*it)]
    bad = [it for it in items if not value_level_ok(*it)]
    for i in range(0, len(good), batch):
        chunk = good[i : i + batch]
        try:
            res = run_pipeline(ctxname, depth, which, chunk)
            if all(s == "ok" for s, _ in res):
                continue
        except _BatchError:
            pass
        bad = chunk + bad
    for kind, value in bad:
        fails += check_pipeline_one(ctxname, depth, which, kind, value)
    return len(items), fails


# =====================================================================================================================
# (c) converse: literal spellings
# =====================================================================================================================
def spelling_kind(sp: str) -> str | None:
    """Which literal token the repository lexer makes of the whole spelling (None: not exactly one literal token)."""
    toks = lex(sp)
    if len(toks) == 1 and toks[0][1] == sp and toks[0][0] in ("INTEGER", "DECIMAL", "STRING_LITERAL", "MULTILINE_STRING_LITERAL"):
        return toks[0][0]
    return None


def ml_spelling_class(sp: str) -> str:
    body = sp[3:-3]
    if any(ch in body for ch in LIT.NOT_NEWLINES):
        return "body-with-VT-FS-GS-RS-NEL-LS-PS"
    if body.endswith(("\n", "\r", "\x0c")):
        return "closing-quotes-directly-after-line-break"
    if "\r" in body or "\x0c" in body:
        return "body-with-CR-or-FF"
    if "\t" in body:
        return "body-with-tab"
    return "other"


def expected_for_spelling(form: str, sp: str) -> Any:
    """('int', v) | ('fixed', Fraction) | ('str', {admissible}) | ('pos', (rel, off) | None)."""
    if form == "posarg":
        return ("pos", LIT.position_arg_value(sp))
    k = spelling_kind(sp)
    if k == "INTEGER":
        return ("int", LIT.integer_value(sp))
    if k == "DECIMAL":
        return ("fixed", LIT.decimal_value(sp)[0])
    if k == "STRING_LITERAL":
        return ("str", {LIT.single_line_value(sp)})
    if k == "MULTILINE_STRING_LITERAL":
        return ("str", LIT.multi_line_values(sp))
    raise AssertionError(sp)


def _converse_program(form: str, spellings: list[str]) -> str:
    lines = []
    for sp in spellings:
        if form == "arg":
            lines.append(f"    t({sp});")
        elif form == "lang":
            lines.append(f"    t({{english={sp}}});")
        elif form == "posarg":
            lines.append(f"    t(Position<'m', {sp}, 0>);")
    return "def 0 {\n" + "\n".join(lines) + "\n}\n"


def _judge_converse(form: str, sp: str, param: Any) -> list[dict]:
    r = _repo()
    kind, want = expected_for_spelling(form, sp)
    inp = {"part": "converse", "form": form, "spelling": sp}
    dt = r.dt
    if kind == "int":
        if type(param) is int and param == want:
            return []
        return [_fail(f"C04:converse:int:{_int_spelling_class(sp)}:wrong-value", f"integer spelling {sp!r} compiles to {_show(param)} but denotes {want}", inp, CONTRACT_C, _show(param))]
    if kind == "fixed":
        if isinstance(param, dt.SsbOpParamFixedPoint):
            try:
                got = Fraction(param.value)
            except ValueError:
                got = None
            neg_ok = (not sp.startswith("-")) or param.value.startswith("-") or want == 0
            if got == want and neg_ok:
                return []
        return [_fail(f"C04:converse:decimal:{_dec_spelling_class(sp)}:wrong-value", f"decimal spelling {sp!r} compiles to {_show(param)} but denotes {want}", inp, CONTRACT_C, _show(param))]
    if kind == "str":
        got = None
        if form == "arg" and isinstance(param, dt.SsbOpParamConstString):
            got = param.name
        if form == "lang" and isinstance(param, dt.SsbOpParamLanguageString) and list(param.strings) == ["english"]:
            got = param.strings["english"]
        if got is not None and got in want:
            return []
        if sp[:3] in TRIPLES and len(sp) >= 6:
            cls = "multi-line:" + ml_spelling_class(sp)
        else:
            cls = "single-line"
        return [_fail(f"C04:converse:string:{cls}:wrong-value",
                      f"string spelling {sp!r} compiles to {got!r}; the specification gives {sorted(want)!r}", inp, CONTRACT_C, {"got": got, "param": _show(param)})]
    if kind == "pos":
        if want is None:
            return [_fail(f"C04:converse:posarg:{_posarg_class(sp)}:accepted", f"position attribute {sp!r} is neither an integer nor ends on .5/.0 but compiles to {_show(param)}", inp, CONTRACT_C, _show(param))]
        if isinstance(param, dt.SsbOpParamPositionMarker) and (param.x_relative, param.x_offset) == want and (param.y_relative, param.y_offset) == (0, 0) and param.name == "m":
            return []
        return [_fail(f"C04:converse:posarg:{_posarg_class(sp)}:wrong-value", f"position attribute {sp!r} compiles to {_show(param)} but denotes {want}", inp, CONTRACT_C, _show(param))]
    raise AssertionError(kind)


def _int_spelling_class(sp: str) -> str:
    s = sp.lstrip("-")
    base = {"x": "hex", "o": "oct", "b": "bin"}.get(s[1:2].lower(), "dec") if len(s) > 1 else "dec"
    return base + ("-negative" if sp.startswith("-") else "")


def _dec_spelling_class(sp: str) -> str:
    s = sp.lstrip("-")
    whole, fract = s.split(".")
    parts = []
    if sp.startswith("-"):
        parts.append("negative")
    if whole == "":
        parts.append("no-whole-part")
    elif len(whole) > 1 and whole[0] == "0":
        parts.append("leading-zeros")
    if len(fract) > 1 and fract.endswith("0"):
        parts.append("trailing-zeros")
    return "+".join(parts) or "plain"


def _posarg_class(sp: str) -> str:
    if LIT.is_integer_spelling(sp):
        return "integer"
    s = sp.lstrip("-")
    whole, fract = s.split(".")
    if sp.startswith("-") and whole == "":
        return "minus-dot-digits"
    if re.fullmatch(r"0+50*", fract):
        return "fraction-0*5"
    return "decimal"


def check_converse_many(form: str, spellings: list[str]) -> tuple[int, list[dict]]:
    """Compile all spellings in one program; on an exception compile them one by one."""
    r = _repo()
    fails: list[dict] = []
    try:
        with _quiet():
            ops = r.Compiler(PPL).compile(_converse_program(form, spellings), "/verif-nonexistent/converse.exps").routine_ops[0]
        assert len(ops) == len(spellings)
        for sp, op in zip(spellings, ops):
            assert op.op_code.name == "t" and len(op.params) == 1, (sp, op)
            fails += _judge_converse(form, sp, op.params[0])
        return len(spellings), fails
    except AssertionError:
        raise
    except Exception:
        pass
    for sp in spellings:
        fails += check_converse_one(form, sp)
    return len(spellings), fails


def check_converse_one(form: str, sp: str) -> list[dict]:
    r = _repo()
    inp = {"part": "converse", "form": form, "spelling": sp}
    try:
        with _quiet():
            ops = r.Compiler(PPL).compile(_converse_program(form, [sp]), "/verif-nonexistent/converse.exps").routine_ops[0]
    except Exception as e:
        if form == "posarg" and LIT.position_arg_value(sp) is None and isinstance(e, (r.SsbCompilerError, r.ParseError, ValueError)):
            return []  # rejected (with one of compile()'s documented exception types) as the specification demands
        cls = {"posarg": "posarg:" + _posarg_class(sp)}.get(form, form + ":" + (spelling_kind(sp) or "?"))
        return [_fail(f"C04:converse:{cls}:compile-raises-{type(e).__name__}", f"literal spelling {sp!r} ({form}) is rejected: {_exc(e)}"[:300], inp, CONTRACT_C, _exc(e))]
    assert len(ops) == 1 and len(ops[0].params) == 1
    return _judge_converse(form, sp, ops[0].params[0])


# =====================================================================================================================
# work lists
# =====================================================================================================================
def sl_spellings(max_body: int) -> list[str]:
    import itertools

    out = []
    for q in ("'", '"'):
        for k in range(max_body + 1):
            for tup in itertools.product(("a", "\\", "n", "'", '"', " "), repeat=k):
                out.append(q + "".join(tup) + q)
    return out


def ml_spellings(max_a: int, max_b: int) -> list[str]:
    import itertools

    bodies = []
    for k in range(max_a + 1):
        bodies += ["".join(t) for t in itertools.product(("a", " ", "\n"), repeat=k)]
    for k in range(max_b + 1):
        bodies += ["".join(t) for t in itertools.product(("a", " ", "\n", "\\", "n", '"', "'", "\r", "\t"), repeat=k)]
    bodies += [
        "First Line\n      Second Line\n        Some indentation in the third line\n      Fourth Line\n                  ",
        "\n      First Line\n      Second Line\n        Some indentation in the third line\n      Fourth Line",
        "\n      First Line\n      Second Line\n        Some indentation in the third line\n           Fourth Line",
        "\n    This is a multiline string.\n    It can span multiple lines.\n    ",
        "\n          String for lang C\n          on multiple lines\n        ",
        "X\\nY\\\\Z\\\"A\\'B",
        "\n\tfoo\n\t",
        "\n  a\n\n  b\n",
        "\n  a\n \n  b\n  ",
    ]
    for ch in LIT.NOT_NEWLINES + LIT.MAYBE_NEWLINES:
        bodies += [f"a{ch}b", f"\n  a{ch}  b\n  ", f"\n  a\n  b{ch}\n  c\n"]
    seen = set()
    out = []
    for b in bodies:
        for q in TRIPLES:
            sp = q + b + q
            if sp not in seen:
                seen.add(sp)
                out.append(sp)
    return out


def posarg_spellings() -> list[str]:
    out = []
    for i in (0, 1, -1, 20, -123, 456):
        out += [sp for sp, _k in V.int_spellings(i)]
    for sign in ("", "-"):
        for w in ("", "0", "00", "1", "01", "20", "123"):
            for f in ("0", "5", "50", "500", "00", "05", "005", "050", "1", "25", "51", "15", "55", "9"):
                out.append(f"{sign}{w}.{f}")
    seen = set()
    return [s for s in out if not (s in seen or seen.add(s))]


def _chunks(seq: list, n: int) -> list[list]:
    return [seq[i : i + n] for i in range(0, len(seq), n)]


# ---- worker entry points (top level: picklable for the spawn start method)
def _w_value_strings(args) -> dict:
    start, stop, max_len = args
    n = 0
    fails: dict[str, list] = {}
    counts: dict[str, int] = {}
    distinct = nontrivial = 0
    for v in V.strings_range(start, stop, max_len):
        distinct += 1
        nontrivial += nontrivial_string(v)
        small = len(v) <= 5
        try:
            k, fs = check_value_string_all(v, (0, 1, 2, 3, 4) if small else ((0, 1, 2, 3) if len(v) == 6 else (0, 2)), class_printers=small)
        except Exception as e:
            if not _raised_in_repo(e):
                raise
            k, fs = 1, [_fail(f"C04:value:str:printer-or-reader-raises-{type(e).__name__}", f"printing/reading string {v!r} raises {_exc(e)}",
                              {"part": "value", "kind": "str", "value": v, "indent": 0, "single": False}, CONTRACT_A, _exc(e))]
        n += k
        for ind in ((0, 2) if "\n" in v else (0,)) if small else ():
            n += 1
            fs += check_value_lang({"english": v}, ind)
        _collect(fails, counts, fs)
    return {"n": n, "distinct": distinct, "nontrivial": nontrivial, "fails": fails, "counts": counts}


def _w_value_list(args) -> dict:
    kind, values = args
    n = 0
    fails: dict[str, list] = {}
    counts: dict[str, int] = {}
    for v in values:
        if kind == "str":
            k, fs = check_value_string_all(v)
            n += k
        elif kind == "lang":
            fs = []
            for ind in (0, 1, 2, 3, 4):
                n += 1
                fs += check_value_lang(v, ind)
        else:
            n += 1
            fs = check_value(kind, v)
        _collect(fails, counts, fs)
    return {"n": n, "fails": fails, "counts": counts}


def _w_pipeline(args) -> dict:
    ctxname, depth, which, items = args
    n, fs = check_pipeline_many(ctxname, depth, which, items)
    fails: dict[str, list] = {}
    counts: dict[str, int] = {}
    _collect(fails, counts, fs)
    return {"n": n, "fails": fails, "counts": counts}


def _w_converse(args) -> dict:
    form, spellings = args
    n, fs = check_converse_many(form, spellings)
    fails: dict[str, list] = {}
    counts: dict[str, int] = {}
    _collect(fails, counts, fs)
    return {"n": n, "fails": fails, "counts": counts}


def _size(inp: Any) -> tuple:
    """Order of witnesses: shortest value first; among equals prefer indent >= 1 (indent 0 has a defect class of its own)."""
    s = json.dumps(inp.get("value", inp.get("spelling")), sort_keys=True)
    ind = inp.get("indent", 1)
    return (len(s), inp.get("depth", 0), 1 if ind == 0 else 0, ind, s)


KEEP = 3


def _collect(fails: dict, counts: dict, fs: list[dict]) -> None:
    for f in fs:
        counts[f["signature"]] = counts.get(f["signature"], 0) + 1
        lst = fails.setdefault(f["signature"], [])
        lst.append(f)
        lst.sort(key=lambda x: _size(x["input"]))
        del lst[KEEP:]


def _merge(total: dict, part: dict) -> None:
    total["n"] = total.get("n", 0) + part["n"]
    total["cpu_s"] = total.get("cpu_s", 0.0) + part.get("cpu_s", 0.0)
    for k in ("distinct", "nontrivial"):
        if k in part:
            total[k] = total.get(k, 0) + part[k]
    for sig, lst in part["fails"].items():
        cur = total.setdefault("fails", {}).setdefault(sig, [])
        cur += lst
        cur.sort(key=lambda x: _size(x["input"]))
        del cur[KEEP:]
    for sig, c in part["counts"].items():
        total.setdefault("counts", {})[sig] = total.setdefault("counts", {}).get(sig, 0) + c


# =====================================================================================================================
# run / replay
# =====================================================================================================================
def _pipeline_items(ctx: Ctx, rng: random.Random) -> dict[str, list]:
    max_len = 4 if ctx.thorough else 3
    strs = list(V.strings(max_len)) + V.targeted_strings() + V.random_strings(rng, 400 if ctx.thorough else 120)
    seen = set()
    strs = [s for s in strs if not (s in seen or seen.add(s))]
    items: dict[str, list] = {}
    items["str"] = [("str", s) for s in strs]
    lang = [("lang", {"english": s}) for s in strs]
    sound = [s for s in V.targeted_strings() if value_level_ok("str", s)]
    lang += [("lang", d) for d in V.language_strings(sound, random.Random(ctx.seed + 1))[len(sound):]]
    items["lang"] = lang
    ints = V.integers()
    items["intlike"] = (
        [("int", i) for i in ints]
        + [("const", c) for c in V.constants()]
        + [("fixed", ["ctor", w, f]) for (w, f) in V.fixed_points()]
        + [("fixed", ["float", repr(x)]) for x in V.fixed_point_floats()[:: (257 if not ctx.thorough else 17)]]
    )
    items["pos"] = [("pos", list(m)) for m in V.position_marks(ctx.thorough)]
    items["dmode"] = [("int", i) for i in (0, 1, 2, 3, 4, 7, -1, 255)]
    return items


def run(ctx: Ctx) -> PropResult:
    res = PropResult(prop="C04", level="exploration")
    rng = random.Random(ctx.seed)
    max_len = 7 if ctx.thorough else 5
    total_strings = V.n_strings(max_len)

    tasks: list[tuple[str, Any]] = []
    # (a) exhaustive strings, sharded
    shard = 4000 if not ctx.thorough else 40000
    for s in range(0, total_strings, shard):
        tasks.append(("vs", (s, min(total_strings, s + shard), max_len)))
    # (a) other value spaces
    extra_strs = V.targeted_strings() + V.random_strings(rng, 20000 if ctx.thorough else 3000)
    for ch in _chunks(extra_strs, 500):
        tasks.append(("vl", ("str", ch)))
    pool_strs = V.targeted_strings() + V.random_strings(random.Random(ctx.seed + 2), 200)
    sound = [s for s in pool_strs if value_level_ok("str", s)]
    langs = [{"english": s} for s in pool_strs] + V.language_strings(sound, random.Random(ctx.seed + 3))[len(sound):]
    for ch in _chunks(langs, 200):
        tasks.append(("vl", ("lang", ch)))
    ints = V.integers() + list(range(-300, 301)) + [rng.randint(-(2**40), 2**40) for _ in range(500)]
    tasks.append(("vl", ("int", ints)))
    tasks.append(("vl", ("const", V.constants())))
    fixed = [["ctor", w, f] for (w, f) in V.fixed_points()] + [["float", repr(x)] for x in V.fixed_point_floats()]
    for ch in _chunks(fixed, 8000):
        tasks.append(("vl", ("fixed", ch)))
    tasks.append(("vl", ("pos", [list(m) for m in V.position_marks(ctx.thorough)])))

    # (b) pipeline
    items = _pipeline_items(ctx, random.Random(ctx.seed + 4))
    pipeline_plan = []
    for depth in (1, 2, 3, 4):
        for c in STRING_CONTEXTS:
            pipeline_plan.append((c, depth, "exps", items["str"]))
            if c in LANG_CONTEXTS and depth in LANG_DEPTHS:
                pipeline_plan.append((c, depth, "exps", items["lang"]))
        for c in INTLIKE_CONTEXTS:
            if depth <= 2:
                pipeline_plan.append((c, depth, "exps", items["intlike"]))
        if depth <= 2:
            pipeline_plan.append(("oparg", depth, "exps", items["pos"]))
            for c in DMODE_CONTEXTS:
                pipeline_plan.append((c, depth, "exps", items["dmode"]))
    for key in ("str", "lang", "intlike", "pos"):
        pipeline_plan.append(("oparg", 1, "ssbs", items[key]))
    for c, depth, which, its in pipeline_plan:
        for ch in _chunks(its, 96):
            tasks.append(("pl", (c, depth, which, ch)))

    # (c) converse
    conv: list[tuple[str, list[str]]] = []
    int_sp = []
    for i in V.integers() + list(range(0, 70)):
        int_sp += [sp for sp, _k in V.int_spellings(i)]
    seen: set = set()
    int_sp = [s for s in int_sp if not (s in seen or seen.add(s))]
    conv.append(("arg", int_sp))
    conv.append(("arg", V.decimal_spellings()))
    conv.append(("posarg", posarg_spellings()))
    sls = sl_spellings(5 if ctx.thorough else 4)
    mls = ml_spellings(8 if ctx.thorough else 6, 5 if ctx.thorough else 4)
    conv.append(("arg", sls))
    conv.append(("arg", mls))
    conv.append(("lang", sls[:: 7] + mls[:: 7]))
    n_conv_spellings = 0
    for form, sps in conv:
        for ch in _chunks(sps, 400):
            tasks.append(("cv", (form, ch)))

    # ---- run
    agg: dict[str, dict] = {"vs": {}, "vl": {}, "pl": {}, "cv": {}}
    mp = multiprocessing.get_context("spawn")
    with mp.Pool(max(1, ctx.jobs)) as pool:
        results = pool.map(_dispatch, tasks, chunksize=1)
    for (tag, _a), part in zip(tasks, results):
        _merge(agg[tag], part)

    # ---- results
    viols: list[Violation] = []
    sig_counts: dict[str, int] = {}
    for tag in ("vs", "vl", "pl", "cv"):
        for sig, lst in sorted(agg[tag].get("fails", {}).items()):
            for f in lst:
                viols.append(Violation(signature=f["signature"], what=f["what"], input=f["input"], contract=f["contract"], observed=f["observed"]))
        for sig, c in agg[tag].get("counts", {}).items():
            sig_counts[sig] = sig_counts.get(sig, 0) + c
    # one Violation list ordered so that the first witness of every signature is the smallest one
    best: dict[str, list[Violation]] = {}
    for v in viols:
        best.setdefault(v.signature, []).append(v)
    res.violations = []
    for sig in sorted(best):
        lst = sorted(best[sig], key=lambda v: _size(v.input))[:KEEP]
        res.violations += lst

    vs = agg["vs"]
    n_pl_items = sum(len(its) for _c, _d, _w, its in pipeline_plan)
    distinct_pl = len({vhash(k, v) for _c, _d, _w, its in pipeline_plan for (k, v) in its})
    res.standins.append(StandIn(
        contract=CONTRACT_A, tier="T3",
        bound=f"all {total_strings} strings of length <= {max_len} over {list(V.ALPHABET)!r} x indents 0..4 (length 6: 0..3, length 7: 0 and 2) x both quote preferences "
              f"(+ language-string printer at indents 0 and, for multi-line values, 2); {len(extra_strs)} targeted/seeded strings; {len(langs)} language strings x indents 0..4; "
              f"{len(ints)} integers; {len(fixed)} fixed-point values (all k/256 of 16 bit + constructor pairs); "
              f"{len(V.position_marks(ctx.thorough))} position marks; {len(V.constants())} constants",
        evaluations=vs.get("n", 0) + agg["vl"].get("n", 0),
        distinct_nontrivial=vs.get("nontrivial", 0),
        exhaustive=True,
        samples=["a\n b'", " a\n b", "a\\nb"],
        notes="distinct = distinct string values of the exhaustive scope; non-trivial = contains a blank, quote, backslash, line break or non-printable/non-ASCII character. "
              "Single-line prints do not depend on the indent and are evaluated once per quote preference.",
    ))
    res.standins.append(StandIn(
        contract=CONTRACT_B, tier="T3",
        bound=f"strings of length <= {4 if ctx.thorough else 3} over the same alphabet + targeted + seeded ({len(items['str'])} strings) as constant string x contexts {list(STRING_CONTEXTS)} x depths 1-4 "
              f"and as language string x contexts {list(LANG_CONTEXTS)} x depths {list(LANG_DEPTHS)}; {len(items['intlike'])} ints/constants/fixed-point x {list(INTLIKE_CONTEXTS)} x depths 1-2; "
              f"{len(items['pos'])} position marks; dungeon-mode numbers {[v for _k, v in items['dmode']]} x {list(DMODE_CONTEXTS)}; SsbScript decompiler+compiler on the operation-argument context",
        evaluations=agg["pl"].get("n", 0),
        distinct_nontrivial=distinct_pl,
        exhaustive=True,
        samples=[{"ctx": "casetext", "depth": 3, "kind": "str", "value": "a\n b"}],
        notes="distinct = distinct (kind, value) pairs; every one is pushed through every listed context/depth. Items are batched (one routine per item); "
              "a batch with any failure is re-run one item per script.",
    ))
    n_conv = agg["cv"].get("n", 0)
    res.standins.append(StandIn(
        contract=CONTRACT_C, tier="T3",
        bound=f"{len(int_sp)} integer spellings (4 bases, sign, prefix case, zero padding); {len(V.decimal_spellings())} decimal spellings; "
              f"{len(posarg_spellings())} position-attribute spellings; single-line bodies <= {5 if ctx.thorough else 4} over [a \\\\ n ' \" space] in both quote styles "
              f"({len(sls)} candidate spellings); multi-line bodies <= {8 if ctx.thorough else 6} over [a space LF] and <= {5 if ctx.thorough else 4} over [a space LF \\\\ n \" ' CR TAB] in both delimiters ({len(mls)} candidates)",
        evaluations=n_conv,
        distinct_nontrivial=n_conv,
        exhaustive=True,
        samples=['"""a\n\n"""', "0x00ff", "-000.0050"],
        notes="candidates that the repository lexer does not read as exactly one literal token are filtered out before counting (they are not literal spellings).",
    ))
    res.rule = (
        "values: exhaustive small-scope enumeration (gen/values.py) + targeted shapes + random.Random(seed) strings; every value is printed by the real printers, "
        "lexed by the real lexer and read by the real reader functions; pipeline: real decompilers + compilers on compiled skeleton routines with the parameter substituted; "
        "converse: real compile() against spec/literals.py"
    )
    res.assumptions = [
        "bounded: nothing is claimed beyond the enumerated scopes",
        "spec/literals.py is the trusted reading of docs/language_spec.rst; where the spec is silent (\\r / \\f as line ends, tabs as indentation, one-line blank bodies) every reading is accepted",
        "a binary reader delivers fixed-point values as SsbOpParamFixedPoint(whole, non-empty digits) or from_float(k/256); constants are IDENTIFIER/VARIABLE tokens that are not keywords",
        "the printed text is lexed with the ExplorerScript lexer (SsbScript shares SsbCommon.g4's literal tokens)",
    ]
    res.trusted_base = ["spec/literals.py", "spec/machine.py:param_key", "gen/values.py", "props/C04.py"]
    res.extra["signature_counts"] = dict(sorted(sig_counts.items()))
    res.extra["cpu_s_by_part"] = {tag: round(agg[tag].get("cpu_s", 0.0), 1) for tag in agg}
    for tag, name in (("vs", "value-level strings"), ("vl", "value-level other"), ("pl", "pipeline"), ("cv", "converse")):
        if not agg[tag].get("n"):
            res.self_check_failures.append(f"C04: contract part '{name}' was never evaluated")
    return res


def _dispatch(task):
    import time

    t0 = time.process_time()
    out = _dispatch_inner(task)
    out["cpu_s"] = time.process_time() - t0
    return out


def _dispatch_inner(task):
    tag, args = task
    if tag == "vs":
        return _w_value_strings(args)
    if tag == "vl":
        return _w_value_list(args)
    if tag == "pl":
        return _w_pipeline(args)
    if tag == "cv":
        form, sps = args
        if form != "posarg":
            sps = [s for s in sps if spelling_kind(s) is not None]
        return _w_converse((form, sps))
    raise ValueError(tag)


def replay(record: dict, ctx: Ctx) -> bool:
    inp = record["input"]
    sig = record["signature"]
    part = inp["part"]
    if part == "value":
        kind = inp["kind"]
        if kind == "str":
            fs = check_value_string(inp["value"], inp["indent"], inp["single"])
            fs += check_value_string_all(inp["value"], (inp["indent"],))[1]
        else:
            fs = check_value(kind, inp["value"], inp.get("indent", 0))
    elif part == "pipeline":
        fs = check_pipeline_one(inp["ctx"], inp["depth"], inp["decompiler"], inp["kind"], inp["value"])
    elif part == "converse":
        fs = check_converse_one(inp["form"], inp["spelling"])
    else:
        raise ValueError(part)
    return any(f["signature"] == sig for f in fs)
