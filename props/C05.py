"""C05 - a macro call means its body inlined, in any definition order and file layout (T3: bounded exploration).

Contract on ExplorerScriptSsbCompiler(perf, lookup_paths).compile(text, path) for programs that use macros and imports:

  (a) for every routine r:  equiv(machine(routine_ops)[r], sem(program with every macro call inlined)[r])
      (spec/sem.py inlines macro calls: parameters substituted by the call's arguments, `return` leaves only the macro,
      labels private to each expansion; the macros of imported files are found by an *independent* import resolver
      written from docs/language_spec.rst "Imports / Includes" and handed to sem as `extra_macros`);
  (b) every ACYCLIC set of macro definitions compiles, whatever the order in which the macros are written;
  (c) imports resolve relative to the importing file (`./x`, `../y/z`), absolutely (`/...`), or through the lookup
      paths in their given order (first match wins); the macros visible in the compiled file are exactly those of the
      file itself and of the files it imports (transitively: "these files are merged together");
  (d) documented rejections stay rejections: macro recursion, import recursion, a missing import  -> SsbCompilerError.

Input space (`cases(tier)`; every case is a JSON-able dict {files, main, lookup, expect, meta}, built in a scratch
directory, `{ROOT}` in a text stands for that directory):

  dag      ALL call graphs on n <= 3 (quick) / n <= 4 (thorough) macros that are acyclic: every DAG is isomorphic to one
           whose edges go from a lower to a higher index, so all 2^(n(n-1)/2) upper-triangular edge sets are taken
           (chains, diamonds, shared callees, depth > 2, callees of different depth, isolated = unused macros)
           x ALL n! permutations of the order in which the macros are written
           x the order of the calls inside a body (ascending / descending; thorough, n <= 3: every permutation)
           x ALL {1,2,3}-file layouts that cut the index range into main | lib1 | lib2 (lib files only call macros of
             files they import), 3 files both as an import chain main->lib1->lib2 and as a fan main->{lib1,lib2}, lib1->lib2
             (thorough, n = 4: one of the two topologies per cut, alternating)
           x V variants (quick 2, thorough 3, thorough n = 4: 1) taken round-robin by a running counter (so that over the family the
             values meet all graph shapes) from: body style of each macro (ops around the calls / calls first + `return` / label and
             backward jump with the SAME label name in every macro / guarded `return` before calls at the end / calls
             inside a loop / nothing but calls), one or two calls per edge, parameter names equal or distinct over the
             macros, arguments forwarded or literals of every kind (int, constant, string, position mark, language
             string), which macros the routines call (all call-graph sources / macro 0 twice + a second routine with a
             label of the same name / all macros), the import style per library file (./x, ../d/x, ./sub/dir/x,
             absolute, lookup path, lookup path shadowed by a later lookup directory) with decoy files where a wrong
             resolution rule would find a different file.
  import   hand-written layouts for clause (c): every import style alone, lookup order both ways, sub-directories below a
           lookup path, a relative import inside an imported file (relative to THAT file, decoy next to the main file),
           transitive lookups, one file imported along two routes.
  reject   clause (d).

Not generated (both readings of the documentation are defensible, see findings_draft/C05 notes): a macro body with a free
`$name` that is also the name of a parameter of a macro calling it (textual inlining substitutes it, sem does not).

Signatures
  C05:order:acyclic-set-rejected:<exception>:<callees-of-different-depth | uniform-depth>
  C05:expand:<symptom>:<features of the macros involved>
  C05:import:<style>:<wrong-file | rejected | ...>
  C05:macros-visible:<missing|extra>     C05:reject:<kind>:<accepted | raises-X>
"""
from __future__ import annotations

import itertools
import json
import os
import shutil
import sys
import tempfile
import time
from typing import Any, Optional

from vlib.result import Ctx, PropResult, StandIn, Violation

from props import C01

PERF = C01.PERF
ROOT_TOKEN = "{ROOT}"
MAIN = "src/main.exps"
CONTRACT = (
    "compile(text, path) with macros/imports: every routine is equivalent to the program with all macro calls inlined "
    "(imports resolved by the documented rules); every acyclic macro set compiles in every definition order; "
    "recursion / missing imports raise SsbCompilerError"
)
ARG_KINDS = ("int", "const", "str", "pos", "lang")
N_STYLES = 6
VARIANTS = {"quick": 2, "thorough": 3}
MAX_N = {"quick": 3, "thorough": 4}


# ====================================================================================== AST builders
def lit(kind: str, n: int) -> Any:
    from spec import esast as A

    return {
        "int": A.Int(n),
        "const": A.Const(f"K_{n}"),
        "str": A.Str(f"s {n}"),
        "pos": A.PosMark(f"pm{n}", 0, 2, n, n + 1),
        "lang": A.LangStr((("english", f"en {n}"), ("german", f"de {n}"))),
    }[kind]


def macro_ast(i: int, callees: list, style: int, argmode: str, pname: str, tag: str = "") -> Any:
    """macro m<i> with one parameter; callees = callee indices in call order (with repetitions)"""
    from spec import esast as A

    p = A.Const(pname)

    def op(name: str, *args: Any) -> Any:
        return A.Op(f"{tag}{name}_{i}", tuple(args))

    calls = []
    for k, j in enumerate(callees):
        if argmode == "fwd" or (argmode == "mix" and (i + j + k) % 2 == 0):
            arg = p
        else:
            arg = lit(ARG_KINDS[(i + 2 * j + k) % 5], 100 + 10 * i + j)
        calls.append(A.MacroCall(f"m{j}", (arg,)))
    cs = tuple(calls)

    def guard(cond: Any, body: tuple) -> Any:
        return A.If((A.IfBranch(False, (cond,), body),), None)

    if style == 0:  # ops around the calls
        body = (op("a", p),) + cs + (op("z", lit("pos", 200 + i)),)
    elif style == 1:  # calls first (the expansion starts with a nested expansion), `return` alone in a block
        body = cs + (guard(A.CondSpecial(False, "debug"), (A.Ctrl("return"),)), op("z", p))
    elif style == 2:  # label + backward jump, the same label name in every macro (and in a routine)
        body = (A.Label("l"), op("a", p)) + cs + (guard(A.CondSpecial(False, "edit"), (A.Jump("l"),)),)
    elif style == 3:  # guarded return after an op, calls last (the expansion ends with a nested expansion)
        body = (op("a"), guard(A.CondOp(A.Const(f"$G{i}"), "==", A.Int(i), False), (op("r", p), A.Ctrl("return")))) + cs
    elif style == 4:  # calls inside a loop, with continue / return
        inner = (op("a", p),) + cs + (guard(A.CondSpecial(False, "variation"), (A.Ctrl("return"),)), op("y"), A.Ctrl("continue"))
        body = (A.While(False, A.CondBit(False, A.Const(f"$B{i}"), i % 8), inner), op("z", p))
    else:  # nothing but calls (one op if the macro calls nothing)
        body = cs if cs else (op("only", p),)
    return A.Macro(f"m{i}", (pname,), body)


def decoy_macro_ast(i: int, pname: str) -> Any:
    from spec import esast as A

    return A.Macro(f"m{i}", (pname,), (A.Op(f"decoy_{i}", (A.Const(pname),)),))


def routines_ast(n: int, edges: list, roots_mode: int, rootkind: int) -> tuple:
    from spec import esast as A

    sources = [v for v in range(n) if not any(y == v for _, y in edges)]
    if roots_mode == 0:
        seq = sources
    elif roots_mode == 1:
        seq = [0, 0]
    else:
        seq = list(range(n - 1, -1, -1)) + [0]
    body: list = [A.Op("r_start")]
    for k, v in enumerate(seq):
        body.append(A.MacroCall(f"m{v}", (lit(ARG_KINDS[(rootkind + k) % 5], 10 + k),)))
        body.append(A.Op(f"r_after_{k}", (A.Int(k),)))
    out = [A.Routine("def", id=0, body=tuple(body))]
    if roots_mode == 1:
        guard = A.If((A.IfBranch(False, (A.CondSpecial(False, "debug"),), (A.Jump("l"),)),), None)
        out.append(
            A.Routine("def", id=1, target_kind="actor", target=A.Const("ACTOR_X"), body=(A.Label("l"), A.MacroCall("m0", (A.Const("$GVAR"),)), guard, A.Ctrl("hold")))
        )
    return tuple(out)


# ====================================================================================== file layouts
LIB_STYLES = ("rel-same", "rel-up", "rel-deep", "abs", "lookup", "lookup-shadow")


def lib_location(style: str, name: str) -> tuple:
    """(path of the file, lookup-relative import string or None, path of a shadowed decoy or None)"""
    if style == "rel-same":
        return f"src/{name}.exps", None, None
    if style == "rel-up":
        return f"libs/{name}.exps", None, None
    if style == "rel-deep":
        return f"src/sub/dir/{name}.exps", None, None
    if style == "abs":
        return f"abs/{name}.exps", None, None
    if style == "lookup":
        return f"inc2/{name}.exps", f"{name}.exps", None
    if style == "lookup-shadow":
        return f"inc1/mac/{name}.exps", f"mac/{name}.exps", f"inc2/mac/{name}.exps"
    raise ValueError(style)


def import_string(style: str, importer: str, target: str, lookup_rel: Optional[str]) -> str:
    if style in ("lookup", "lookup-shadow"):
        assert lookup_rel is not None
        return lookup_rel
    if style == "abs":
        return f"{ROOT_TOKEN}/{target}"
    rel = os.path.relpath(target, os.path.dirname(importer)).replace(os.sep, "/")
    return rel if rel.startswith("../") else "./" + rel


def relative_decoy(importer: str, imp: str) -> Optional[str]:
    """where a relative import string of a non-main importer would land if it were resolved relative to the main file"""
    if importer == MAIN or not (imp.startswith("./") or imp.startswith("../")):
        return None
    d = os.path.normpath(os.path.join(os.path.dirname(MAIN), imp)).replace(os.sep, "/")
    return None if d.startswith("..") else d


def build_dag_case(n: int, edges: list, perm: tuple, callorder: tuple, layout: tuple, var: dict) -> dict:
    """layout = (k1, k2, topology): macros [0,k1) in main, [k1,k2) in lib1, [k2,n) in lib2 (k1 == k2 == n: one file)"""
    from gen import programs as P
    from spec import esast as A

    k1, k2, topo = layout
    pname = (lambda i: "$p") if var["same_pnames"] else (lambda i: f"$p{i}")
    callees: dict = {}
    for i in range(n):
        cs = [y for x, y in edges if x == i]
        order = callorder[i] if i < len(callorder) and callorder[i] is not None else tuple(range(len(cs)))
        cs = [cs[o] for o in order]
        if var["multicall"]:
            cs = [c for c in cs for _ in range(2)]
        callees[i] = cs
    macros = {i: macro_ast(i, callees[i], (var["sbase"] + i) % N_STYLES, var["argmode"], pname(i)) for i in range(n)}
    file_of = {i: ("main" if i < k1 else "lib1" if i < k2 else "lib2") for i in range(n)}
    libs = [name for name in ("lib1", "lib2") if any(f == name for f in file_of.values())]
    paths = {"main": MAIN}
    lookup_rel: dict = {}
    files: dict = {}
    styles = {"lib1": LIB_STYLES[var["st1"] % 6], "lib2": LIB_STYLES[var["st2"] % 6]}
    for name in libs:
        path, lrel, shadow = lib_location(styles[name], name)
        paths[name] = path
        lookup_rel[name] = lrel
        if shadow is not None:
            files[shadow] = P.to_text(A.Program((), tuple(decoy_macro_ast(i, pname(i)) for i in perm if file_of[i] == name)))
    imports: dict = {"main": [], "lib1": [], "lib2": []}
    if libs == ["lib1", "lib2"]:
        imports["lib1"].append("lib2")
        imports["main"].append("lib1")
        if topo == "fan":
            imports["main"].append("lib2")
    elif libs:
        imports["main"].append(libs[0])
    for fname in ["main"] + libs:
        imps = []
        for target in imports[fname]:
            s = import_string(styles[target], paths[fname], paths[target], lookup_rel[target])
            imps.append(s)
            d = relative_decoy(paths[fname], s)
            if d is not None and d not in paths.values() and d not in files:
                files[d] = P.to_text(A.Program((), tuple(decoy_macro_ast(i, pname(i)) for i in perm if file_of[i] == target)))
        items = tuple(macros[i] for i in perm if file_of[i] == fname)
        if fname == "main":
            rs = routines_ast(n, edges, var["roots_mode"], var["rootkind"])
            items = items + rs if var["macros_first"] else rs + items
        files[paths[fname]] = P.to_text(A.Program(tuple(imps), items))
    return {
        "family": "dag",
        "files": files,
        "main": MAIN,
        "lookup": ["inc1", "inc2"],
        "mkdirs": ["inc1", "inc2"],
        "expect": "accept",
        "meta": {
            "n": n, "edges": [list(e) for e in edges], "perm": list(perm), "layout": [k1, k2, topo],
            "nfiles": 1 + len(libs), "var": var, "styles": {k: styles[k] for k in libs},
        },
    }  # fmt: skip


def layouts(n: int, reduced: bool = False) -> list:
    """reduced: of the two import topologies of a 3-file layout only one (alternating with the cut)"""
    out = [(n, n, "one")]
    for k1 in range(0, n):
        out.append((k1, n, "two"))
    for k1 in range(0, n):
        for k2 in range(k1 + 1, n):
            if not reduced or (k1 + k2) % 2 == 0:
                out.append((k1, k2, "chain"))
            if not reduced or (k1 + k2) % 2 == 1:
                out.append((k1, k2, "fan"))
    return out


def graphs(n: int) -> list:
    pairs = [(i, j) for i in range(n) for j in range(i + 1, n)]
    out = []
    for mask in range(1 << len(pairs)):
        out.append([p for b, p in enumerate(pairs) if mask >> b & 1])
    return out


def callorders(n: int, edges: list, all_perms: bool) -> list:
    """orders of the calls inside each body: tuple (per macro) of index permutations"""
    per = []
    for i in range(n):
        d = sum(1 for x, _ in edges if x == i)
        if d < 2:
            per.append([None])
        elif all_perms:
            per.append(list(itertools.permutations(range(d))))
        else:
            per.append([tuple(range(d)), tuple(range(d - 1, -1, -1))])
    return [tuple(c) for c in itertools.product(*per)]


def variant(counter: int) -> dict:
    """round-robin choice of the non-exhaustive dimensions from a running counter"""
    return {
        "sbase": counter % N_STYLES,
        "multicall": (counter // 2) % 2 == 1,
        "same_pnames": (counter // 3) % 2 == 0,
        "argmode": ("fwd", "mix", "lit")[(counter // 5) % 3],
        "roots_mode": (counter // 7) % 3,
        "rootkind": counter % 5,
        "macros_first": (counter // 11) % 2 == 0,
        "st1": (counter * 5 + counter // 6) % 6,
        "st2": (counter * 5 + counter // 6 + 1 + counter // 36) % 6,
    }


def dag_plan(tier: str, n: int) -> tuple:
    """(all call-order permutations?, reduced layouts?, variants) - n = 4 is the expensive part of the thorough tier"""
    if tier == "quick":
        return False, False, VARIANTS["quick"]
    if n <= 3:
        return True, False, VARIANTS["thorough"]
    return False, True, 1


def dag_cases(tier: str) -> list:
    out = []
    counter = 0
    for n in range(1, MAX_N[tier] + 1):
        all_orders, reduced, nvar = dag_plan(tier, n)
        for edges in graphs(n):
            for perm in itertools.permutations(range(n)):
                for co in callorders(n, edges, all_orders):
                    for layout in layouts(n, reduced):
                        for _ in range(nvar):
                            out.append((n, edges, perm, co, layout, counter))
                            counter += 1
    return out


def materialise_dag(spec: tuple) -> dict:
    n, edges, perm, co, layout, counter = spec
    return build_dag_case(n, edges, perm, co, layout, variant(counter))


# ---------------------------------------------------------------------- hand-written import / reject cases
def _lib(tag: str, names: tuple = ("m1",), imports: tuple = (), extra: str = "") -> str:
    head = "".join(f'import "{i}";\n' for i in imports)
    body = "".join(f"macro {nm}($p) {{\n    from_{tag}_{nm}($p);\n{extra}}}\n" for nm in names)
    return head + body


def _main(imports: tuple, calls: tuple = ("m1",)) -> str:
    head = "".join(f'import "{i}";\n' for i in imports)
    return head + "def 0 {\n    start();\n" + "".join(f"    ~{c}({k + 1});\n" for k, c in enumerate(calls)) + "    hold;\n}\n"


def import_cases() -> list:
    R = ROOT_TOKEN
    cs: list = []

    def case(style: str, files: dict, lookup: tuple = (), expect: str = "accept", mkdirs: tuple = (), family: str = "import", symlinks: Optional[dict] = None) -> None:
        cs.append({"family": family, "files": files, "main": MAIN, "lookup": list(lookup), "mkdirs": list(mkdirs),
                   "expect": expect, "meta": {"style": style}, "symlinks": dict(symlinks or {})})  # fmt: skip

    # relative to the importing file; decoys where other rules would look
    case("rel-dot", {MAIN: _main(("./lib.exps",)), "src/lib.exps": _lib("real"), "lib.exps": _lib("decoy"), "inc1/lib.exps": _lib("decoy")}, ("inc1",))
    case("rel-dotdot", {MAIN: _main(("../y/z.exps",)), "y/z.exps": _lib("real"), "src/y/z.exps": _lib("decoy"), "inc1/y/z.exps": _lib("decoy")}, ("inc1",))
    case("rel-subdir", {MAIN: _main(("./a/b/lib.exps",)), "src/a/b/lib.exps": _lib("real"), "a/b/lib.exps": _lib("decoy")})
    # a sibling directory whose NAME begins with the name of the compiled file's directory (src -> src_common): paths are compared
    # by components, not by string prefix
    case("rel-sibling-dir-with-common-prefix", {MAIN: _main(("../src_common/shared.exps",), ("m1", "m2")),
                                                "src_common/shared.exps": _lib("shared", ("m1",), ("./deeper/more.exps",)),
                                                "src_common/deeper/more.exps": _lib("more", ("m2",))})  # fmt: skip
    case("rel-dotdot-twice", {"src/main.exps": _main(("../../up.exps",)), "../up.exps": _lib("real")})
    # absolute
    case("absolute", {MAIN: _main((f"{R}/abs/lib.exps",)), "abs/lib.exps": _lib("real"), "src/abs/lib.exps": _lib("decoy"),
                      "inc1/abs/lib.exps": _lib("decoy")}, ("inc1",))  # fmt: skip
    # lookup paths: order, shadowing, sub directories, not relative to the importing file
    case("lookup-second-dir", {MAIN: _main(("lib.exps",)), "inc2/lib.exps": _lib("real")}, ("inc1", "inc2"), mkdirs=("inc1",))
    case("lookup-shadow-first-wins", {MAIN: _main(("lib.exps",)), "inc1/lib.exps": _lib("real"), "inc2/lib.exps": _lib("decoy")}, ("inc1", "inc2"))
    case("lookup-shadow-first-wins-reversed", {MAIN: _main(("lib.exps",)), "inc1/lib.exps": _lib("decoy"), "inc2/lib.exps": _lib("real")}, ("inc2", "inc1"))
    case("lookup-three-dirs-middle", {MAIN: _main(("lib.exps",)), "inc2/lib.exps": _lib("real"), "inc3/lib.exps": _lib("decoy")},
         ("inc1", "inc2", "inc3"), mkdirs=("inc1",))  # fmt: skip
    case("lookup-subdir", {MAIN: _main(("xyz/abc.exps",)), "inc1/abc.exps": _lib("decoy"), "inc2/xyz/abc.exps": _lib("real")}, ("inc1", "inc2"))
    case("lookup-subdir-shadow", {MAIN: _main(("xyz/abc.exps",)), "inc1/xyz/abc.exps": _lib("real"), "inc2/xyz/abc.exps": _lib("decoy")}, ("inc1", "inc2"))
    case("lookup-not-sibling", {MAIN: _main(("lib.exps",)), "src/lib.exps": _lib("decoy"), "inc1/lib.exps": _lib("real")}, ("inc1",))
    case("lookup-dir-entry-is-directory", {MAIN: _main(("lib.exps",)), "inc1/lib.exps/keep.txt": "x", "inc2/lib.exps": _lib("real")}, ("inc1", "inc2"))
    # several imports, each contributes its macros
    case("two-imports", {MAIN: _main(("./a.exps", "../b.exps"), ("m1", "m2")), "src/a.exps": _lib("a", ("m1",)), "b.exps": _lib("b", ("m2",))})
    case("two-imports-mixed", {MAIN: _main(("a.exps", f"{R}/q/b.exps", "./c.exps"), ("m1", "m2", "m3")), "inc1/a.exps": _lib("a", ("m1",)),
                               "q/b.exps": _lib("b", ("m2",)), "src/c.exps": _lib("c", ("m3",))}, ("inc1",))  # fmt: skip
    case("lib-with-several-macros", {MAIN: _main(("./a.exps",), ("m2", "m1", "m3")), "src/a.exps": _lib("a", ("m1", "m2", "m3"))})
    # imports inside imported files: relative to THAT file
    case("transitive-rel", {MAIN: _main(("../libs/l1.exps",), ("m1", "m2")), "libs/l1.exps": _lib("l1", ("m1",), ("./l2.exps",)),
                            "libs/l2.exps": _lib("real", ("m2",)), "src/l2.exps": _lib("decoy", ("m2",))})  # fmt: skip
    case("transitive-rel-up", {MAIN: _main(("./deep/er/l1.exps",), ("m1", "m2")), "src/deep/er/l1.exps": _lib("l1", ("m1",), ("../l2.exps",)),
                               "src/deep/l2.exps": _lib("real", ("m2",)), "l2.exps": _lib("decoy", ("m2",))})  # fmt: skip
    case("transitive-nested-call", {MAIN: _main(("../libs/l1.exps",), ("m1",)),
                                    "libs/l1.exps": 'import "./l2.exps";\nmacro m1($p) {\n    before($p);\n    ~m2($p);\n    after();\n}\n',
                                    "libs/l2.exps": _lib("real", ("m2",)), "src/l2.exps": _lib("decoy", ("m2",))})  # fmt: skip
    case("transitive-lookup", {MAIN: _main(("l1.exps",), ("m1", "m2")), "inc1/l1.exps": _lib("l1", ("m1",), ("l2.exps",)),
                               "inc2/l2.exps": _lib("real", ("m2",))}, ("inc1", "inc2"))  # fmt: skip
    case("transitive-lookup-vs-sibling", {MAIN: _main(("l1.exps",), ("m1", "m2")), "inc2/l1.exps": _lib("l1", ("m1",), ("./l2.exps",)),
                                          "inc2/l2.exps": _lib("real", ("m2",)), "inc1/l2.exps": _lib("decoy", ("m2",)),
                                          "src/l2.exps": _lib("decoy", ("m2",))}, ("inc1", "inc2"))  # fmt: skip
    case("same-file-by-two-routes", {MAIN: _main(("./l1.exps", "./l2.exps"), ("m1", "m2")),
                                     "src/l1.exps": 'import "./l2.exps";\nmacro m1($p) {\n    ~m2($p);\n    l1_op();\n}\n',
                                     "src/l2.exps": _lib("l2", ("m2",))})  # fmt: skip
    case("three-deep", {MAIN: _main(("./a/l1.exps",), ("m1", "m2", "m3")), "src/a/l1.exps": _lib("l1", ("m1",), ("./b/l2.exps",)),
                        "src/a/b/l2.exps": _lib("l2", ("m2",), ("../../c/l3.exps",)), "src/c/l3.exps": _lib("real", ("m3",)),
                        "c/l3.exps": _lib("decoy", ("m3",))})  # fmt: skip
    # a file that is reached on two routes and has an import of its own, the indirect route first (the import chain of one route
    # must not be remembered as a cycle on the other)
    case("diamond-with-depth", {MAIN: _main(("./lib/actors.exps", "./lib/talk.exps"), ("m1", "m2", "m3")),
                                "src/lib/actors.exps": _lib("actors", ("m1",), ("./talk.exps",)),
                                "src/lib/talk.exps": _lib("talk", ("m2",), ("./base/wait.exps",)),
                                "src/lib/base/wait.exps": _lib("wait", ("m3",))})  # fmt: skip
    case("diamond-with-depth-direct-first", {MAIN: _main(("./lib/talk.exps", "./lib/actors.exps"), ("m1", "m2", "m3")),
                                             "src/lib/actors.exps": _lib("actors", ("m1",), ("./talk.exps",)),
                                             "src/lib/talk.exps": _lib("talk", ("m2",), ("./base/wait.exps",)),
                                             "src/lib/base/wait.exps": _lib("wait", ("m3",))})  # fmt: skip
    # labels are private to a macro: two macros of one file use the same label name, each next to blocks that get labels of their own
    same_label = ("macro wait_for_flag() {\n    §again;\n    tick();\n    if ($F == 1) {\n        jump @again;\n    }\n    done_w();\n}\n"
                  "macro retry($n) {\n    if ($n == 1) {\n        first($n);\n    }\n    §again;\n    try($n);\n    if ($n == 2) {\n        jump @again;\n    }\n"
                  "    while ($n < 3) {\n        spin();\n    }\n    done_r();\n}\n")
    case("same-label-name-in-two-macros", {MAIN: same_label + "def 0 {\n    ~wait_for_flag();\n    mid();\n    ~retry($G);\n    ~wait_for_flag();\n    ~retry(2);\n    hold;\n}\n"})
    case("same-label-name-in-two-macros-other-order", {MAIN: same_label + "def 0 {\n    ~retry(1);\n    ~wait_for_flag();\n    end;\n}\ndef 1 {\n    ~wait_for_flag();\n    ~retry($H);\n}\n"})
    # a directory symlink on the import path: a file reached through it imports relative to where it REALLY lies
    case("symlinked-directory", {MAIN: _main(("./macros/m.exps",), ("m1", "m2")),
                                 "shared/v2/macros/m.exps": _lib("m", ("m1",), ("../base.exps",)),
                                 "shared/v2/base.exps": _lib("real", ("m2",)), "src/base.exps": _lib("decoy", ("m2",))},
         symlinks={"src/macros": "../shared/v2/macros"})  # fmt: skip
    # `return` inside a with-block / with an inline context in a macro body still leaves only the macro
    ctxret = ("macro leave($a) {\n    pre($a);\n    with (actor $a) {\n        return;\n    }\n    never($a);\n}\n"
              "macro outer2($b) {\n    ~leave($b);\n    mid($b);\n    if ($b == 1) {\n        with (object 3) {\n            return;\n        }\n    }\n    tail($b);\n}\n")
    case("return-in-context-inside-macro", {MAIN: ctxret + "def 0 {\n    ~leave(2);\n    after1();\n    ~outer2(1);\n    after2();\n    ~leave(5);\n    hold;\n}\n"})
    # substitution is SIMULTANEOUS: an argument that is itself a variable of the calling macro, named like another parameter of the
    # called macro, is not substituted a second time
    swap = ("macro show($x, $y) {\n    out($x, $y);\n    $x = $y;\n}\nmacro swapped($x, $y) {\n    ~show($y, $x);\n    again($x, $y);\n}\n"
            "macro rot($a, $b, $c) {\n    ~rot3($b, $c, $a);\n}\nmacro rot3($a, $b, $c) {\n    r($a, $b, $c);\n}\n")
    case("arguments-named-like-other-parameters", {MAIN: swap + "def 0 {\n    ~swapped(1, 2);\n    ~swapped($G, 'text');\n    ~rot(1, 2, 3);\n    hold;\n}\n"})
    case("arguments-named-like-other-parameters-2", {MAIN: swap + "def 0 {\n    ~rot($P, Position<'m', 1, 2>, 5);\n    ~show(7, 8);\n    ~swapped(CONST_Y, CONST_X);\n    end;\n}\n"})
    # clause (d): documented rejections
    case("missing-relative", {MAIN: _main(("./nope.exps",))}, expect="reject", family="reject")
    case("missing-lookup", {MAIN: _main(("nope.exps",)), "inc1/other.exps": _lib("x")}, ("inc1",), expect="reject", family="reject")
    case("lookup-style-import-without-lookup-path", {MAIN: _main(("lib.exps",)), "src/lib.exps": _lib("decoy")}, expect="reject", family="reject")
    case("import-recursion", {MAIN: _main(("./l1.exps",)), "src/l1.exps": _lib("l1", ("m1",), ("./l2.exps",)),
                              "src/l2.exps": _lib("l2", ("m2",), ("./l1.exps",))}, expect="reject", family="reject")  # fmt: skip
    case("import-self", {MAIN: _main(("./l1.exps",)), "src/l1.exps": _lib("l1", ("m1",), ("./l1.exps",))}, expect="reject", family="reject")
    case("macro-calls-itself", {MAIN: "macro m1($p) {\n    a($p);\n    ~m1($p);\n}\n" + _main(())}, expect="reject", family="reject")
    case("macro-2-cycle", {MAIN: "macro m1($p) {\n    ~m2($p);\n}\nmacro m2($p) {\n    b();\n    ~m1($p);\n}\n" + _main(())}, expect="reject", family="reject")
    case("macro-3-cycle-unused", {MAIN: "macro m1($p) {\n    ~m2($p);\n}\nmacro m2($p) {\n    ~m3(1);\n}\nmacro m3($p) {\n    ~m1(2);\n}\n"
                                  "def 0 {\n    hold;\n}\n"}, expect="reject", family="reject")  # fmt: skip
    case("unknown-macro", {MAIN: _main((), ("nothere",))}, expect="reject", family="reject")
    case("routine-in-imported-file", {MAIN: _main(("./l1.exps",)), "src/l1.exps": _lib("l1") + "def 0 {\n    x();\n}\n"}, expect="reject", family="reject")
    return cs


def work_specs(tier: str) -> list:
    """JSON-able, picklable specs: ("dag", ...) | ("case", dict)"""
    return [("dag",) + s for s in dag_cases(tier)] + [("case", c) for c in import_cases()]


def load_case(spec: tuple) -> dict:
    if spec[0] == "dag":
        return materialise_dag(tuple(spec[1:]))
    return spec[1]


def case_id(case: dict) -> str:
    blob = json.dumps({k: case[k] for k in ("files", "main", "lookup")}, sort_keys=True)
    return C01.member_id(blob)


# ====================================================================================== scratch directory
def write_case(case: dict, root: str) -> tuple:
    """materialise the files below `root/w` (so that `../` of the case stays inside the scratch directory);
    returns (absolute path of the main file, absolute lookup paths, base directory)"""
    base = os.path.join(root, "w")
    for d in case.get("mkdirs", []):
        os.makedirs(os.path.join(base, d), exist_ok=True)
    for rel, text in case["files"].items():
        path = os.path.normpath(os.path.join(base, rel))
        assert path.startswith(root + os.sep), path
        os.makedirs(os.path.dirname(path), exist_ok=True)
        with open(path, "w", encoding="utf-8") as fh:
            fh.write(text.replace(ROOT_TOKEN, base))
    for link, target in case.get("symlinks", {}).items():
        lp = os.path.normpath(os.path.join(base, link))
        assert lp.startswith(root + os.sep), lp
        os.makedirs(os.path.dirname(lp), exist_ok=True)
        if not os.path.lexists(lp):
            os.symlink(target, lp, target_is_directory=True)
    return os.path.join(base, case["main"]), [os.path.join(base, d) for d in case["lookup"]], base


# ====================================================================================== independent import oracle
class OracleReject(Exception):
    def __init__(self, kind: str):
        super().__init__(kind)
        self.kind = kind


def resolve_import(imp: str, importer_abs: str, lookup_abs: list) -> Optional[str]:
    """docs/language_spec.rst, Imports: './' '../' relative to the source file; '/' absolute; everything else relative to
    the include paths (searched in the given order, first existing file wins).  Separator is always '/'."""
    parts = imp.split("/")
    if imp.startswith("./") or imp.startswith("../"):
        cands = [os.path.join(os.path.dirname(importer_abs), *parts)]
    elif imp.startswith("/"):
        cands = [imp]
    else:
        cands = [os.path.join(lp, *parts) for lp in lookup_abs]
    for c in cands:
        c = os.path.normpath(c)
        if os.path.isfile(c):
            return os.path.realpath(c)
    return None


def oracle_load(main_abs: str, lookup_abs: list) -> dict:
    """parse the main file and, transitively, everything it imports.
    -> {"main": Program, "files": {abs: Program}, "macros": {name: (Macro, abs file)}, "imports_of": {abs: [abs]}}"""
    from spec import esast

    files: dict = {}
    imports_of: dict = {}

    def load(path: str, chain: tuple) -> None:
        if path in chain:
            raise OracleReject("import-recursion")
        if path in files:
            return
        with open(path, encoding="utf-8") as fh:
            prog = esast.parse(fh.read())
        files[path] = prog
        imports_of[path] = []
        for imp in prog.imports:
            tgt = resolve_import(imp, path, lookup_abs)
            if tgt is None:
                raise OracleReject("import-not-found")
            imports_of[path].append(tgt)
            load(tgt, chain + (path,))
            # a file that is reached again along another route is fine; a cycle is not
            if tgt in chain + (path,):
                raise OracleReject("import-recursion")

    main_real = os.path.realpath(main_abs)
    load(main_real, ())
    macros: dict = {}
    for path, prog in files.items():
        if path != main_real and prog.routines:
            raise OracleReject("routine-in-imported-file")
    for path, prog in files.items():
        for m in prog.macros:
            if path == main_real:
                continue
            macros[m.name] = (m, path)
    for m in files[main_real].macros:
        macros[m.name] = (m, main_real)
    return {"main": files[main_real], "main_path": main_real, "files": files, "macros": macros, "imports_of": imports_of}


def macro_graph_cyclic(macros: dict) -> bool:
    from spec import esast as A

    calls = {name: sorted({n.name for n in A.walk(m) if isinstance(n, A.MacroCall)}) for name, (m, _) in macros.items()}
    state: dict = {}

    def visit(v: str) -> bool:
        if state.get(v) == 1:
            return True
        if state.get(v) == 2 or v not in calls:
            return False
        state[v] = 1
        r = any(visit(w) for w in calls[v])
        state[v] = 2
        return r

    return any(visit(v) for v in sorted(calls))


# ====================================================================================== evaluation of one case
def compile_case(main_abs: str, lookup_abs: list) -> Any:
    from explorerscript.ssb_converting.ssb_compiler import ExplorerScriptSsbCompiler

    with open(main_abs, encoding="utf-8") as fh:
        text = fh.read()
    c = ExplorerScriptSsbCompiler(PERF, list(lookup_abs))
    c.compile(text, main_abs)
    return c


def graph_class(meta: dict) -> str:
    edges = [tuple(e) for e in meta["edges"]]
    height: dict = {}

    def h(v: int) -> int:
        if v not in height:
            height[v] = 1 + max([h(y) for x, y in edges if x == v], default=-1)
        return height[v]

    skipping = any(h(x) > h(y) + 1 for x, y in edges)
    return "callees-of-different-depth" if skipping else "uniform-depth"


def expansion_features(case: dict, oracle: dict) -> str:
    """decidable features of the macros of a case, for the signature of a behavioural mismatch"""
    from spec import esast as A

    feats = set()
    for name, (m, path) in oracle["macros"].items():
        nodes = list(A.walk(m))
        if any(isinstance(x, A.Ctrl) and x.kind == "return" for x in nodes):
            feats.add("return")
        if any(isinstance(x, A.Label) for x in nodes):
            feats.add("label")
        if any(isinstance(x, A.MacroCall) for x in nodes):
            feats.add("nested")
        if any(isinstance(x, (A.While, A.Forever, A.For)) for x in nodes):
            feats.add("loop")
        if path != oracle["main_path"]:
            feats.add("imported")
    return "+".join(sorted(feats)) or "plain"


def evaluate(case: dict, root: str) -> dict:
    """-> {"problems": [(signature, detail)], "selfcheck": [...], "routines": n, "accepted": bool}"""
    from explorerscript.error import ParseError, SsbCompilerError

    from spec import sem as S
    from spec.machine import MalformedRoutines, OpFreeCycle, describe_path, equiv, machine

    out: dict = {"problems": [], "selfcheck": [], "routines": 0, "accepted": False, "dump": None}
    main_abs, lookup_abs, _ = write_case(case, root)
    family, meta = case["family"], case["meta"]
    try:
        oracle: Optional[dict] = oracle_load(main_abs, lookup_abs)
        verdict = "accept"
        if macro_graph_cyclic(oracle["macros"]):
            verdict = "reject:macro-recursion"
    except OracleReject as r:
        oracle, verdict = None, "reject:" + r.kind
    if oracle is not None and verdict == "accept":
        try:
            nodes, entries, headers = S.sem(oracle["main"], PERF, extra_macros={k: m for k, (m, _) in oracle["macros"].items()})
        except S.StaticError as e:
            nodes = None
            verdict = "reject:static:" + str(e).split(" ")[0]
    if (verdict == "accept") != (case["expect"] == "accept"):
        out["selfcheck"].append(f"case {family}/{meta}: generator expects {case['expect']} but the oracle says {verdict}")
        return out
    try:
        c = compile_case(main_abs, lookup_abs)
    except (SsbCompilerError, ParseError) as e:
        if case["expect"] == "reject":
            return out
        msg = str(e).replace(root, "<root>")
        exc = type(e).__name__ + ("[Macro-not-found]" if "Macro" in msg and "not found" in msg else "")
        if family == "dag" and "import" not in msg:
            sig = f"C05:order:acyclic-set-rejected:{exc}:{graph_class(meta)}"
        else:
            style = meta.get("style") or "+".join(sorted(set(meta.get("styles", {}).values())))
            sig = f"C05:import:{style}:rejected:{exc}"
        out["problems"].append((sig, f"{type(e).__name__}: {msg}"))
        return out
    except Exception as e:  # noqa: BLE001 - exceptions of repository code are contract violations
        kind = f"reject:{meta.get('style')}" if case["expect"] == "reject" else (family if family == "dag" else f"import:{meta['style']}")
        out["problems"].append((f"C05:{kind}:raises-{type(e).__name__}", f"{type(e).__name__}: {str(e).replace(root, '<root>')[:300]}"))
        return out
    if case["expect"] == "reject":
        out["problems"].append((f"C05:reject:{meta['style']}:accepted", "compile() returned normally; the documentation promises an SsbCompilerError"))
        return out
    assert oracle is not None
    out["accepted"] = True
    out["dump"] = C01.ops_dump(c.routine_ops)
    # (c) the macros visible in the compiled file
    want, got = set(oracle["macros"]), set(c.macros)
    if want - got:
        out["problems"].append(("C05:macros-visible:missing", f"macros {sorted(want - got)} are not in compile().macros"))
    if got - want:
        out["problems"].append(("C05:macros-visible:extra", f"compile().macros has {sorted(got - want)} which no imported file defines"))
    if list(c.imports) != list(oracle["main"].imports):
        out["problems"].append(("C05:imports-attribute", f"compile().imports == {c.imports!r}"))
    # (a) behaviour
    try:
        mn, me = machine(c.routine_ops)
    except MalformedRoutines as e:
        out["problems"].append((f"C05:expand:malformed-output:{expansion_features(case, oracle)}", str(e)))
        return out
    if len(c.routine_ops) != max(h["id"] for h in headers) + 1:
        out["problems"].append(("C05:table-length", f"{len(c.routine_ops)} routines"))
        return out
    for e, h in zip(entries, headers):
        rid = h["id"]
        try:
            path = equiv(mn, me[rid], nodes, e)
        except OpFreeCycle:
            out["selfcheck"].append(f"generated case has an op-free cycle: {meta}")
            continue
        out["routines"] += 1
        if path is not None:
            wrong_file = any("decoy" in str(step) for step in path[-1][1:])
            if wrong_file:
                style = meta.get("style") or "+".join(sorted(set(meta.get("styles", {}).values())))
                sig = f"C05:import:{style}:wrong-file"
            else:
                sig = f"C05:expand:{C01._symptom(path)}:{expansion_features(case, oracle)}"
            out["problems"].append((sig, f"routine {rid}: " + describe_path(path)))
    return out


# ====================================================================================== workers
def _worker(args: tuple) -> dict:
    try:
        return _worker_impl(args)
    except Exception:  # noqa: BLE001
        import traceback

        raise RuntimeError("checker crash in worker: " + traceback.format_exc()) from None


def _worker_impl(args: tuple) -> dict:
    (specs,) = args
    res: dict = {"evaluations": 0, "accepted": 0, "routines": 0, "hashes": [], "violations": {}, "selfcheck": [], "by_family": {}, "by_graph_class": {}}
    root = os.path.realpath(tempfile.mkdtemp(prefix="verif-"))
    try:
        for k, spec in enumerate(specs):
            case = load_case(spec)
            sub = os.path.join(root, f"c{k}")
            os.makedirs(sub)
            o = evaluate(case, sub)
            shutil.rmtree(sub, ignore_errors=True)
            cid = case_id(case)
            res["evaluations"] += 1
            res["accepted"] += 1 if o["accepted"] else 0
            res["routines"] += o["routines"]
            res["by_family"][case["family"]] = res["by_family"].get(case["family"], 0) + 1
            nontrivial = case["family"] != "dag" or case["meta"]["n"] >= 2 or case["meta"]["nfiles"] >= 2
            res["hashes"].append((cid, nontrivial))
            res["selfcheck"] += o["selfcheck"]
            size = 100000 * len(case["files"]) + sum(len(t) for t in case["files"].values())
            if case["family"] == "dag":
                gc = res["by_graph_class"].setdefault(graph_class(case["meta"]), [0, 0])
                gc[0] += 1
                gc[1] += 1 if any(sig.startswith("C05:order:") for sig, _ in o["problems"]) else 0
            for sig, detail in o["problems"]:
                v = res["violations"].get(sig)
                rec = {"case": case, "detail": detail, "size": size, "dump": o["dump"]}
                if v is None:
                    res["violations"][sig] = dict(rec, count=1, members=[cid])
                else:
                    v["count"] += 1
                    if len(v["members"]) < C01.MEMBER_CAP:
                        v["members"].append(cid)
                    if (size, json.dumps(case["files"], sort_keys=True)) < (v["size"], json.dumps(v["case"]["files"], sort_keys=True)):
                        v.update(rec)
    finally:
        shutil.rmtree(root, ignore_errors=True)
    return res


def merge(outs: list) -> dict:
    viol: dict = {}
    for o in outs:
        for sig, v in o["violations"].items():
            if sig not in viol:
                viol[sig] = dict(v, members=list(v["members"]))
                continue
            cur = viol[sig]
            total, members = cur["count"] + v["count"], cur["members"] + list(v["members"])
            if (v["size"], json.dumps(v["case"]["files"], sort_keys=True)) < (cur["size"], json.dumps(cur["case"]["files"], sort_keys=True)):
                cur = dict(v)
            cur["count"], cur["members"] = total, members
            viol[sig] = cur
    for v in viol.values():
        v["members"] = sorted(set(v["members"]))[: C01.MEMBER_CAP]
    return viol


def describe(tier: str) -> str:
    parts = []
    for n in range(1, MAX_N[tier] + 1):
        all_orders, reduced, nvar = dag_plan(tier, n)
        parts.append(
            f"n={n}: {len(graphs(n))} DAGs x {len(list(itertools.permutations(range(n))))} orders x {len(layouts(n, reduced))} layouts x "
            f"{'all call orders' if all_orders else 'call orders asc/desc'} x {nvar} variants"
        )
    return "; ".join(parts) + f"; + {len(import_cases())} hand-written import/reject layouts"


def run(ctx: Ctx) -> PropResult:
    t0 = time.time()
    res = PropResult(prop="C05", level="exploration")
    specs = work_specs(ctx.tier)
    res.rule = (
        "cases = props/C05.py cases(tier): ALL acyclic macro call graphs on <= "
        f"{MAX_N[ctx.tier]} macros (upper-triangular edge sets = all DAGs up to renaming) x ALL permutations of the "
        "definition order x call orders inside a body x ALL {1,2,3}-file index-cut layouts (import chain and fan) x "
        "round-robin variants (body style incl. return / private labels / loops / nothing-but-calls, calls per edge, "
        "parameter names, argument kinds int/constant/string/position mark/language string forwarded or literal, which "
        "macros the routines call, import style ./ ../ sub-directory / absolute / lookup / shadowed lookup with decoys) "
        "+ hand-written import-resolution and rejection layouts; each case is written to a scratch directory, compiled by "
        "the real compiler and every routine compared with the reference semantics of the inlined program (imports "
        "resolved by an independent resolver). distinct = distinct (files, main, lookup) triples (sha1); non-trivial = "
        "at least two macros or at least two files."
    )
    res.assumptions = [
        "ANTLR lexer/parser produce the parse tree the grammar defines",
        "spec/sem.py (macro inlining: substitution of the innermost macro's parameters only, return leaves the macro, "
        "labels private per expansion) and spec/machine.py are the trusted reading of docs/language_spec.rst",
        "choice: 'these files are merged together' is read transitively: a file sees the macros of the files its imports import",
        "choice: lookup paths are given as absolute directories (relative lookup paths are not specified anywhere)",
        "choice: an import that starts with neither './', '../' nor '/' is looked up ONLY in the lookup paths (a sibling file "
        "of that name must not be found)",
        "choice: macro names are unique over all files of a case except in decoy files that must NOT be picked",
        "choice: no generated macro body has a free `$name` equal to a parameter name of a macro that calls it: the compiler "
        "substitutes such a name by the outer macro's argument (textual copy, as the documentation's 'copied to where the call was' "
        "suggests), spec/sem.py substitutes only the innermost macro's own parameters; neither reading is excluded by the text",
    ]
    res.trusted_base = ["spec/machine.py", "spec/sem.py", "spec/esast.py", "gen/programs.py (printer)", "props/C05.py resolve_import", "antlr4 runtime"]
    outs = C01.run_pool(_worker, C01.chunks(specs, ctx.jobs, per=120), ctx.jobs)
    tot = {k: sum(o[k] for o in outs) for k in ("evaluations", "accepted", "routines")}
    fam: dict = {}
    gclass: dict = {}
    hashes: dict = {}
    for o in outs:
        for k, v in o["by_family"].items():
            fam[k] = fam.get(k, 0) + v
        for k, v in o["by_graph_class"].items():
            cur = gclass.setdefault(k, [0, 0])
            cur[0] += v[0]
            cur[1] += v[1]
        for h, nt in o["hashes"]:
            hashes[h] = nt
        res.self_check_failures += o["selfcheck"]
    res.self_check_failures = sorted(set(res.self_check_failures))[:20]
    if tot["routines"] == 0:
        res.self_check_failures.append("contract (a) never evaluated")
    for f in ("dag", "import", "reject"):
        if not fam.get(f):
            res.self_check_failures.append(f"family {f} never evaluated")
    viol = merge(outs)
    sample_cases = [load_case(specs[len(specs) // 3]), load_case(specs[-30])]
    res.standins.append(
        StandIn(
            contract=CONTRACT,
            tier="T3",
            bound=f"{ctx.tier}: {describe(ctx.tier)}",
            evaluations=tot["evaluations"],
            distinct_nontrivial=sum(1 for nt in hashes.values() if nt),
            exhaustive=False,
            samples=[{"files": c["files"], "lookup": c["lookup"], "meta": c["meta"]} for c in sample_cases],
            notes=(
                f"cases per family {fam}; distinct cases {len(hashes)}; accepted by the compiler {tot['accepted']}; routines "
                f"compared {tot['routines']}; exhaustive over (DAG, definition order, layout cut), round-robin over the other dimensions"
            ),
        )
    )
    for sig in sorted(viol):
        v = viol[sig]
        case = v["case"]
        res.violations.append(
            Violation(
                signature=sig,
                what=f"{v['count']} cases; smallest: {v['detail']}",
                input={"case": case, "signature": sig},
                contract=CONTRACT,
                observed={"detail": v["detail"], "compiled": v["dump"]},
                extra={"count": v["count"], "members": v["members"]},
            )
        )
    res.extra["wall_s_run"] = round(time.time() - t0, 1)
    res.extra["counters"] = dict(tot, families=fam, dag_cases_by_graph_class_total_and_rejected=gclass)
    return res


def replay(record: dict, ctx: Ctx) -> bool:
    inp = record["input"]
    root = os.path.realpath(tempfile.mkdtemp(prefix="verif-"))
    try:
        o = evaluate(inp["case"], root)
    finally:
        shutil.rmtree(root, ignore_errors=True)
    return any(sig == inp["signature"] for sig, _ in o["problems"])


if __name__ == "__main__":
    tier = sys.argv[1] if len(sys.argv) > 1 else "quick"
    r = run(Ctx(tier=tier, jobs=int(os.environ.get("VERIF_JOBS", "16")), prop="C05"))
    print(json.dumps({"standins": [dict(s.__dict__, samples="...") for s in r.standins], "extra": r.extra, "selfcheck": r.self_check_failures}, indent=1, default=str)[:6000])
    for v in r.violations:
        print("VIOLATION", v.signature, "|", v.what[:400])
        print(json.dumps(v.input["case"]["files"], indent=1)[:1500])
        print(v.input["case"]["meta"])
