"""C15 - the compile CLI prints what the decompile CLI (and the docs) expect.   (tier T3: bounded stand-in)

Contracts on the two commands (run as subprocesses, files in a scratch directory):

  i    the JSON printed by ``python -m explorerscript.cli.compile`` validates against a JSON schema written from
       docs/cli_api_usage.rst (structure of settings / routines / operations / argument types)
  ii   every jump parameter (last parameter of an op whose opcode is in OPS_WITH_JUMP_TO_MEM_OFFSET) equals the 1-based position,
       counted across all routines, of the op it targets; the expected position comes from an in-process compile of the same
       source (its offset -> position map)
  iii  ``python -m explorerscript.cli.decompile`` accepts that output (exit 0) and its stdout, recompiled in-process, is `equiv`
       (spec/machine.py) routine by routine to the in-process compile of the original source
  iv   the decompile command accepts every documented routine type (COROUTINE, GENERIC, ACTOR, OBJECT, PERFORMER; target ids
       numeric and named) and every documented argument type (integer, FIXED_POINT, CONSTANT, CONST_STRING, LANG_STRING,
       POSITION_MARK with integer and ".5" coordinates given as strings and - as in the docs' own example - as numbers), and what
       it prints recompiles to the routine kinds / parameter values of the document
  v    both commands exit 0 exactly on success: non-zero for bad settings, missing file, compile error, invalid JSON shapes

Also evaluated in-process (same contracts, more programs): build_routines_json/build_ops (i, ii) and read_routines/read_ops (iv).
"""
from __future__ import annotations

import hashlib
import json
import multiprocessing
import os
import re
import shutil
import subprocess
import sys
import tempfile

from vlib.result import Ctx, PropResult, StandIn, Violation

from props.C10 import PPL, SETTINGS_DOC, valid_corpus

CONTRACT = {
    "i": "stdout of the compile command validates against the schema of docs/cli_api_usage.rst",
    "ii": "each jump parameter in the compile command's JSON equals the 1-based position (across all routines) of its target op",
    "iii": "the decompile command accepts the compile command's output and prints a program equivalent to the source",
    "iv": "the decompile command accepts every documented routine type and argument type and prints them faithfully",
    "v": "both commands exit 0 exactly on success",
}

# ---------------------------------------------------------------------------------------------------------------------
# schema, written from docs/cli_api_usage.rst
# ---------------------------------------------------------------------------------------------------------------------
_COORD = {"anyOf": [{"type": "integer"}, {"type": "string", "pattern": r"^-?[0-9]+(\.5)?$"}]}
_ARG = {
    "anyOf": [
        {"type": "integer"},
        {"type": "object", "properties": {"type": {"const": "FIXED_POINT"}, "value": {"type": "string", "pattern": r"^-?[0-9]*\.?[0-9]+$"}}, "required": ["type", "value"], "additionalProperties": False},
        {"type": "object", "properties": {"type": {"const": "CONSTANT"}, "value": {"type": "string"}}, "required": ["type", "value"], "additionalProperties": False},
        {"type": "object", "properties": {"type": {"const": "CONST_STRING"}, "value": {"type": "string"}}, "required": ["type", "value"], "additionalProperties": False},
        {"type": "object", "properties": {"type": {"const": "LANG_STRING"}, "value": {"type": "object", "additionalProperties": {"type": "string"}}}, "required": ["type", "value"], "additionalProperties": False},
        {
            "type": "object",
            "properties": {
                "type": {"const": "POSITION_MARK"},
                "value": {"type": "object", "properties": {"name": {"type": "string"}, "x": _COORD, "y": _COORD}, "required": ["name", "x", "y"], "additionalProperties": False},
            },
            "required": ["type", "value"],
            "additionalProperties": False,
        },
    ]
}
_OP = {"type": "object", "properties": {"opcode": {"type": "string"}, "params": {"type": "array", "items": _ARG}}, "required": ["opcode", "params"], "additionalProperties": False}
_OPS = {"type": "array", "items": _OP}
_TARGET = {"anyOf": [{"type": "integer"}, {"type": "string"}]}
_ROUTINE = {
    "oneOf": [
        {"type": "object", "properties": {"type": {"const": "COROUTINE"}, "name": {"type": "string"}, "ops": _OPS}, "required": ["type", "name", "ops"], "additionalProperties": False},
        {"type": "object", "properties": {"type": {"const": "GENERIC"}, "ops": _OPS}, "required": ["type", "ops"], "additionalProperties": False},
        {"type": "object", "properties": {"type": {"enum": ["ACTOR", "OBJECT", "PERFORMER"]}, "target_id": _TARGET, "ops": _OPS}, "required": ["type", "target_id", "ops"], "additionalProperties": False},
    ]
}
SCHEMA = {
    "type": "object",
    "properties": {
        "settings": {
            "type": "object",
            "properties": {
                "performance_progress_list_var_name": {"type": "string"},
                "dungeon_mode_constants": {
                    "type": "object",
                    "properties": {k: {"type": "string"} for k in ("open", "closed", "request", "open_request")},
                    "required": ["open", "closed", "request", "open_request"],
                },
            },
            "required": ["performance_progress_list_var_name", "dungeon_mode_constants"],
        },
        "routines": {"type": "array", "items": _ROUTINE},
    },
    "required": ["settings", "routines"],
}

# ---------------------------------------------------------------------------------------------------------------------
# inputs
# ---------------------------------------------------------------------------------------------------------------------
DIRECTED_PROGRAMS = [
    ("dropped-jump-if", "def 0 {\n    a();\n    if (debug) {\n        b();\n    }\n    c();\n}\n"),
    ("dropped-jump-two-routines", "def 0 {\n    if (debug) {\n        b();\n    }\n    c();\n}\ndef 1 {\n    @l;\n    d();\n    jump @l;\n}\n"),
    ("no-gap-loop", "def 0 {\n    @l;\n    a();\n    jump @l;\n}\n"),
    ("coroutine", "coro CORO_A {\n    a();\n    return;\n}\n"),
    ("coroutines-two", "coro CORO_A {\n    a();\n    return;\n}\ncoro CORO_B {\n    b();\n    hold;\n}\n"),
    ("targets", "def 0 {\n    a();\n    end;\n}\ndef 1 for actor ACTOR_X {\n    b();\n    end;\n}\ndef 2 for object 3 {\n    c();\n    end;\n}\ndef 3 for performer 0 {\n    d();\n    end;\n}\n"),
    ("all-params", "def 0 {\n    a(1, -2, 1.5, CONST_A, $VAR, \"s\", {english=\"e\", german=\"g\"}, Position<'m', 1, 2.5>);\n    end;\n}\n"),
    ("switch", "def 0 {\n    switch ($V) {\n        case 1:\n            a();\n            break;\n        default:\n            b();\n    }\n    end;\n}\n"),
    ("straight", "def 0 {\n    a();\n    b();\n    return;\n}\n"),
    # a jump into a LATER routine whose target lies behind an op the compiler dropped (gap in the internal offsets before the target)
    ("dropped-jump-then-forward-cross-routine-jump", "def 0 {\n    first();\n    jump @next;\n    §next;\n    second();\n    if ($FLAG == 1) {\n        inside_if();\n    }\n    jump @shared;\n}\ndef 1 {\n    skipped();\n    §shared;\n    target();\n    tail();\n    return;\n}\n"),
    ("cross-routine-call-and-branch-with-gaps", "def 0 {\n    if (debug) {\n        a();\n    }\n    call @sub;\n    if (edit) {\n        jump @far;\n    }\n    b();\n    end;\n}\ndef 1 {\n    if (variation) {\n        c();\n    }\n    §far;\n    d();\n    §sub;\n    e();\n    return;\n}\n"),
    # routines WITHOUT ops (a body holding only a label) between / before routines with jumps: positions are counted across all
    # routines, an op-free routine contributes nothing (seeded change C15-m9: a per-routine counter that was stale there)
    ("op-free-routine-in-the-middle", "def 0 {\n    if ($A == 1) {\n        foo(1);\n    }\n    bar(2);\n}\ndef 1 for_actor(0) {\n    §x;\n}\ndef 2 for_actor(ACTOR_X) {\n    if ($B == 2) {\n        foo(3);\n    } else {\n        foo(4);\n    }\n    end;\n}\n"),
    ("op-free-routine-first", "def 0 {\n    §x;\n}\ndef 1 {\n    if ($B == 2) {\n        foo(3);\n    }\n    end;\n}\n"),
    ("op-free-routines-twice", "def 0 {\n    a();\n    end;\n}\ndef 1 {\n    §x;\n}\ndef 2 {\n    §y;\n}\ndef 3 {\n    @l;\n    b();\n    jump @l;\n}\n"),
    # dungeon modes written as numbers: the decompile command prints 0..3 with the constants of its settings, each with its own
    ("dungeon-modes-as-numbers", "def 0 {\n    dungeon_mode(5) = 1;\n    dungeon_mode(6) = 0;\n    dungeon_mode(7) = 2;\n    dungeon_mode(8) = 3;\n    switch (dungeon_mode(3)) {\n        case 0:\n            a();\n            break;\n        case 1:\n            b();\n            break;\n        case 2:\n            c();\n            break;\n        case 3:\n            d();\n            break;\n    }\n    end;\n}\n"),
]

FAIL_PROGRAMS = [
    ("parse-error", "def 0 {\n    a(;\n}\n"),
    ("compile-error", "def 0 {\n    break;\n}\n"),
    ("unknown-macro", "def 0 {\n    ~m();\n}\n"),
    # routine ids that skip a number: the library and the command must agree (both reject; before /repo fix 21 compile() accepted
    # the program and the command crashed on the routine info that does not exist)
    ("routine-id-gap", "def 0 {\n    a();\n}\ndef 2 {\n    b();\n}\n"),
    ("routine-id-gap-coroutines", "def 0 {\n    a();\n}\ncoro C1 {\n    b();\n}\ndef 4 {\n    c();\n}\n"),
]

RET = {"opcode": "Return", "params": []}


def _doc(routines: list) -> dict:
    return {"settings": SETTINGS_DOC["settings"], "routines": routines}


def documented_documents() -> list[dict]:
    """Documents enumerating every documented routine and argument type (clause iv)."""
    out = []

    def add(cls: str, routines: list, expect: dict) -> None:
        out.append({"cls": cls, "doc": _doc(routines), "expect": expect})

    op = lambda *ps: [{"opcode": "probe", "params": list(ps)}, RET]  # noqa: E731
    add("routine:GENERIC", [{"type": "GENERIC", "ops": op()}], {"infos": [["GENERIC", None]]})
    add("routine:COROUTINE", [{"type": "COROUTINE", "name": "CORO_A", "ops": op()}], {"infos": [["COROUTINE", "CORO_A"]]})
    add("routine:COROUTINE", [{"type": "COROUTINE", "name": "CORO_A", "ops": op()}, {"type": "COROUTINE", "name": "CORO_B", "ops": op(1)}], {"infos": [["COROUTINE", "CORO_A"], ["COROUTINE", "CORO_B"]]})
    for t in ("ACTOR", "OBJECT", "PERFORMER"):
        add(f"routine:{t}:numeric-target", [{"type": "GENERIC", "ops": op()}, {"type": t, "target_id": 3, "ops": op()}], {"infos": [["GENERIC", None], [t, 3]]})
        add(f"routine:{t}:named-target", [{"type": "GENERIC", "ops": op()}, {"type": t, "target_id": "TARGET_X", "ops": op()}], {"infos": [["GENERIC", None], [t, "TARGET_X"]]})
    g = lambda *ps: [{"type": "GENERIC", "ops": op(*ps)}]  # noqa: E731
    add("arg:integer", g(5, -7, 0), {"params": [["int", 5], ["int", -7], ["int", 0]]})
    add("arg:FIXED_POINT", g({"type": "FIXED_POINT", "value": "123.456"}), {"params": [["fixed", "123.456"]]})
    add("arg:FIXED_POINT:negative", g({"type": "FIXED_POINT", "value": "-0.5"}), {"params": [["fixed", "-0.5"]]})
    add("arg:CONSTANT", g({"type": "CONSTANT", "value": "LEVEL_XYZ"}), {"params": [["const", "LEVEL_XYZ"]]})
    add("arg:CONST_STRING", g({"type": "CONST_STRING", "value": "Hello World"}), {"params": [["str", "Hello World"]]})
    add("arg:CONST_STRING:multiline", g({"type": "CONST_STRING", "value": "Hello\nWorld"}), {"params": [["str", "Hello\nWorld"]]})
    add("arg:LANG_STRING", g({"type": "LANG_STRING", "value": {"english": "Hello World!", "german": "Hallo Welt!"}}), {"params": [["lang", [["english", "Hello World!"], ["german", "Hallo Welt!"]]]]})
    add("arg:POSITION_MARK:numbers-as-in-docs", g({"type": "POSITION_MARK", "value": {"name": "Name of the mark", "x": 10, "y": 20}}), {"params": [["pos", "Name of the mark", 0, 0, 10, 20]]})
    add("arg:POSITION_MARK:integer-strings", g({"type": "POSITION_MARK", "value": {"name": "m", "x": "10", "y": "20"}}), {"params": [["pos", "m", 0, 0, 10, 20]]})
    add("arg:POSITION_MARK:half-strings", g({"type": "POSITION_MARK", "value": {"name": "PositionName", "x": "10", "y": "10.5"}}), {"params": [["pos", "PositionName", 0, 2, 10, 10]]})
    add("arg:POSITION_MARK:both-half-strings", g({"type": "POSITION_MARK", "value": {"name": "m", "x": "1.5", "y": "-2.5"}}), {"params": [["pos", "m", 2, 2, 1, -2]]})
    add("arg:all-in-one-op", g(1, {"type": "CONSTANT", "value": "C"}, {"type": "CONST_STRING", "value": "s"}, {"type": "FIXED_POINT", "value": "1.5"}, {"type": "LANG_STRING", "value": {"english": "e"}}), {"params": [["int", 1], ["const", "C"], ["str", "s"], ["fixed", "1.5"], ["lang", [["english", "e"]]]]})
    add(
        "jumps:positions",
        [{"type": "GENERIC", "ops": [{"opcode": "a", "params": []}, {"opcode": "BranchDebug", "params": [1, 4]}, {"opcode": "Return", "params": []}, {"opcode": "b", "params": []}, RET]}],
        {"infos": [["GENERIC", None]]},
    )
    add(
        "jumps:second-routine",
        [{"type": "GENERIC", "ops": [{"opcode": "a", "params": []}, RET]}, {"type": "GENERIC", "ops": [{"opcode": "b", "params": []}, {"opcode": "Jump", "params": [3]}]}],
        {"infos": [["GENERIC", None], ["GENERIC", None]]},
    )
    return out


def failing_documents() -> list[dict]:
    """Inputs on which the decompile command must fail (clause v)."""
    ok_r = [{"type": "GENERIC", "ops": [{"opcode": "a", "params": []}, RET]}]
    s = SETTINGS_DOC["settings"]
    return [
        {"cls": "not-json", "raw": "{ this is not json"},
        {"cls": "empty-file", "raw": ""},
        {"cls": "settings-missing", "doc": {"routines": ok_r}},
        {"cls": "settings-without-ppl", "doc": {"settings": {"dungeon_mode_constants": s["dungeon_mode_constants"]}, "routines": ok_r}},
        {"cls": "settings-without-dmc", "doc": {"settings": {"performance_progress_list_var_name": PPL}, "routines": ok_r}},
        {"cls": "settings-dmc-incomplete", "doc": {"settings": {"performance_progress_list_var_name": PPL, "dungeon_mode_constants": {"open": "O"}}, "routines": ok_r}},
        {"cls": "routines-missing", "doc": {"settings": s}},
        {"cls": "routine-without-ops", "doc": _doc([{"type": "GENERIC"}])},
        {"cls": "routine-without-type", "doc": _doc([{"ops": []}])},
        {"cls": "routine-unknown-type", "doc": _doc([{"type": "SOMETHING", "ops": []}])},
        {"cls": "coroutine-without-name", "doc": _doc([{"type": "COROUTINE", "ops": [RET]}])},
        {"cls": "actor-without-target", "doc": _doc([{"type": "ACTOR", "ops": [RET]}])},
        {"cls": "op-without-params", "doc": _doc([{"type": "GENERIC", "ops": [{"opcode": "a"}]}])},
        {"cls": "op-without-opcode", "doc": _doc([{"type": "GENERIC", "ops": [{"params": []}]}])},
        {"cls": "param-unknown-type", "doc": _doc([{"type": "GENERIC", "ops": [{"opcode": "a", "params": [{"type": "WHAT", "value": 1}]}, RET]}])},
        {"cls": "param-without-value", "doc": _doc([{"type": "GENERIC", "ops": [{"opcode": "a", "params": [{"type": "CONSTANT"}]}, RET]}])},
        {"cls": "param-is-a-list", "doc": _doc([{"type": "GENERIC", "ops": [{"opcode": "a", "params": [[1]]}, RET]}])},
        {"cls": "missing-file", "missing": True},
    ]


COMPILE_CLI_FAILURES = ["settings-file-missing", "settings-not-json", "settings-key-missing", "settings-without-ppl", "settings-dmc-incomplete", "source-missing"]

# ---------------------------------------------------------------------------------------------------------------------
# worker side
# ---------------------------------------------------------------------------------------------------------------------
_W: dict = {}


def _init(repo: str, root: str | None = None) -> None:
    """root: scratch directory owned (and removed) by the parent; workers only create sub-directories in it."""
    import logging
    import warnings

    logging.disable(logging.CRITICAL)
    warnings.simplefilter("ignore")
    _W["devnull"] = open(os.devnull, "w")
    if root is None:
        root = tempfile.mkdtemp(prefix="verif-C15w-")
        import atexit

        atexit.register(shutil.rmtree, root, True)
    _W["scratch"] = tempfile.mkdtemp(prefix="w-", dir=root)
    with open(os.path.join(_W["scratch"], "settings.json"), "w") as fh:
        json.dump(SETTINGS_DOC, fh)


def _quiet(fn, *a, **k):
    old = sys.stderr
    sys.stderr = _W["devnull"]
    try:
        return fn(*a, **k)
    finally:
        sys.stderr = old


def _compile(text: str, path: str):
    from explorerscript.ssb_converting.ssb_compiler import ExplorerScriptSsbCompiler

    c = ExplorerScriptSsbCompiler(PPL, [])
    _quiet(c.compile, text, path)
    return c


def _cli(module: str, *args: str, cwd: str) -> dict:
    try:
        p = subprocess.run([sys.executable, "-W", "ignore", "-m", module, *args], capture_output=True, text=True, timeout=120, cwd=cwd)
        last = [ln for ln in p.stderr.strip().splitlines() if ln.strip()][-1:] or [""]
        return {"exit": p.returncode, "stdout": p.stdout, "err": last[0][:300]}
    except subprocess.TimeoutExpired:
        return {"exit": "timeout", "stdout": "", "err": "timeout"}


def _err_class(err: str) -> str:
    """Exception type + message skeleton (no digits / quoted parts) - stable across inputs of one failure class."""
    m = re.match(r"([A-Za-z_.]+(?:Error|Exception|Exit|Interrupt))\b:?\s*(.*)", err)
    if not m:
        return "no-exception-line"
    msg = re.sub(r"<.*?>|'.*?'|\".*?\"|[0-9]+|SsbRoutineInfo.*", "", m.group(2))
    msg = re.sub(r"[^A-Za-z]+", "-", msg).strip("-")
    return (m.group(1).split(".")[-1] + ("-" + "-".join(msg.split("-")[:5]) if msg else ""))[:70]


def positions(routine_ops) -> dict[int, int]:
    pos, n = {}, 0
    for r in routine_ops:
        for op in r:
            n += 1
            pos[op.offset] = n
    return pos


def check_positions(routine_ops, json_routines) -> list[str]:
    """Clause ii: problems found (empty = holds)."""
    from explorerscript.ssb_converting.ssb_special_ops import OPS_WITH_JUMP_TO_MEM_OFFSET

    pos = positions(routine_ops)
    flat = [op for r in routine_ops for op in r]
    jflat = [op for r in json_routines for op in r.get("ops", [])]
    problems = []
    if len(flat) != len(jflat):
        return [f"op count differs: {len(flat)} vs {len(jflat)}"]
    total = len(flat)
    for k, (op, jop) in enumerate(zip(flat, jflat)):
        if op.op_code.name in OPS_WITH_JUMP_TO_MEM_OFFSET:
            want = pos.get(op.params[-1])
            got = jop["params"][-1] if jop["params"] else None
            if want is None or got != want:
                problems.append(f"op #{k + 1} {op.op_code.name}: JSON jump parameter {got}, target op is at position {want} (of {total})")
    return problems


def has_gap(routine_ops) -> bool:
    offs = [op.offset for r in routine_ops for op in r]
    return offs != list(range(1, len(offs) + 1))


def _dm_normalise(nodes: dict) -> dict:
    """The decompile command is specified to print `flag_SetDungeonMode(x, i)` and `Case(i)` (i in 0..3) with the dungeon-mode
    constants of the settings it is given, so in these two ops the constant and the integer denote the same parameter (the same
    interpretation as C02's `dmc_normalise`, here with the names of SETTINGS_DOC)."""
    from spec.machine import Node

    dm = SETTINGS_DOC["settings"]["dungeon_mode_constants"]
    values = {dm["closed"]: 0, dm["open"]: 1, dm["request"]: 2, dm["open_request"]: 3}
    out = {}
    for nid, n in nodes.items():
        lab = n.label
        if lab and lab[0] in ("flag_SetDungeonMode", "Case"):
            idx = 1 if lab[0] == "flag_SetDungeonMode" else 0
            ps = list(lab[1])
            if idx < len(ps) and ps[idx][0] == "const" and ps[idx][1] in values:
                ps[idx] = ("int", values[ps[idx][1]])
                n = Node(n.kind, (lab[0], tuple(ps)), n.succ)
        out[nid] = n
    return out


def equiv_routines(a_ops, b_ops) -> str | None:
    """None if routine by routine equivalent, else a description. 'skip:<why>' if outside the machine model."""
    from spec.machine import MalformedRoutines, OpFreeCycle, describe_path, equiv, machine

    if len(a_ops) != len(b_ops):
        return f"routine count {len(a_ops)} vs {len(b_ops)}"
    try:
        n1, e1 = machine(a_ops)
    except MalformedRoutines as e:
        return f"skip:original-malformed:{e}"
    try:
        n2, e2 = machine(b_ops)
    except MalformedRoutines as e:
        return f"recompiled output malformed: {e}"
    n1, n2 = _dm_normalise(n1), _dm_normalise(n2)
    for i, (x, y) in enumerate(zip(e1, e2)):
        try:
            p = equiv(n1, x, n2, y)
        except OpFreeCycle:
            return "skip:op-free-cycle"
        if p is not None:
            return f"routine {i}: " + describe_path(p)[:300]
    return None


def inprocess_roundtrip(comp, root: str) -> str | None:
    """Reference WITHOUT the CLIs: decompile the compiler result in-process, recompile, compare.
    None = equivalent; otherwise 'decompile-raises:<T>' / 'recompile-raises:<T>' / 'not-equivalent' / 'skip:...'."""
    import copy

    from explorerscript.ssb_converting.ssb_data_types import DungeonModeConstants, SsbCoroutine
    from explorerscript.ssb_converting.ssb_decompiler import ExplorerScriptSsbDecompiler

    dm = SETTINGS_DOC["settings"]["dungeon_mode_constants"]
    coros = [SsbCoroutine(i, n) for i, (n, info) in enumerate(zip(comp.named_coroutines, comp.routine_infos)) if info is not None and info.type.name == "COROUTINE"]
    ops = copy.deepcopy(comp.routine_ops)
    try:
        text, _ = _quiet(ExplorerScriptSsbDecompiler(comp.routine_infos, ops, coros, PPL, DungeonModeConstants(dm["closed"], dm["open"], dm["request"], dm["open_request"])).convert)
    except Exception as e:  # noqa: BLE001
        return f"decompile-raises:{type(e).__name__}"
    try:
        re_c = _compile(text, os.path.join(root, "ref.exps"))
    except Exception as e:  # noqa: BLE001
        return f"recompile-raises:{type(e).__name__}"
    eq = equiv_routines(comp.routine_ops, re_c.routine_ops)
    if eq is None or eq.startswith("skip:"):
        return eq
    return "not-equivalent"


def program_features(comp) -> str:
    feats = []
    if any(i is not None and i.type.name == "COROUTINE" for i in comp.routine_infos):
        feats.append("coroutine")
    if has_gap(comp.routine_ops):
        feats.append("offset-gap")
    return "+".join(feats) or "plain"


def task_roundtrip(args) -> dict:
    """Clauses i, ii, iii, v for one program through both commands."""
    item, repo = args
    if not _W:
        _init(repo)
    import jsonschema

    root = tempfile.mkdtemp(prefix="p-", dir=_W["scratch"])
    rec: dict = {"name": item["name"], "problems": [], "evaluated": []}
    try:
        src = os.path.join(root, "main.exps")
        with open(src, "w", encoding="utf-8") as fh:
            fh.write(item["text"])
        try:
            comp = _compile(item["text"], src)
            api_ok = True
        except Exception as e:  # noqa: BLE001
            comp, api_ok = None, False
            rec["api_exc"] = type(e).__name__
        settings = os.path.join(_W["scratch"], "settings.json")
        c = _cli("explorerscript.cli.compile", src, "--settings", settings, cwd=root)
        rec["evaluated"].append("v")
        feat = program_features(comp) if api_ok else "failing-program"
        rec["features"] = feat
        if (c["exit"] == 0) != api_ok:
            rec["problems"].append({"clause": "v", "cls": feat, "symptom": f"compile-exit-{c['exit'] if c['exit'] in (0, 'timeout') else 'nonzero'}-but-compile()-{'succeeds' if api_ok else 'raises'}", "detail": c["err"]})
        if not api_ok or c["exit"] != 0:
            return rec
        try:
            doc = json.loads(c["stdout"])
        except ValueError as e:
            rec["problems"].append({"clause": "i", "cls": feat, "symptom": "stdout-is-not-json", "detail": str(e)})
            return rec
        rec["evaluated"].append("i")
        errs = sorted(jsonschema.Draft7Validator(SCHEMA).iter_errors(doc), key=lambda e: list(e.absolute_path))
        if errs:
            e0 = errs[0]
            where = "/".join("*" if isinstance(p, int) else str(p) for p in e0.absolute_path)
            rec["problems"].append({"clause": "i", "cls": feat, "symptom": f"schema-violation-at-{where}", "detail": e0.message[:300]})
        rec["evaluated"].append("ii")
        if doc.get("settings") != SETTINGS_DOC["settings"]:
            rec["problems"].append({"clause": "i", "cls": feat, "symptom": "settings-not-echoed", "detail": ""})
        pp = check_positions(comp.routine_ops, doc.get("routines", []))
        if pp:
            rec["problems"].append({"clause": "ii", "cls": "offset-gap" if "offset-gap" in feat else "no-gap", "symptom": "jump-parameter-is-not-the-position-of-its-target", "detail": "; ".join(pp[:3])})
        # iii
        jpath = os.path.join(root, "out.json")
        with open(jpath, "w", encoding="utf-8") as fh:
            fh.write(c["stdout"])
        d = _cli("explorerscript.cli.decompile", jpath, cwd=root)
        rec["evaluated"].append("iii")
        ref = inprocess_roundtrip(comp, root)
        rec["ref"] = ref
        ref_bad = ref is not None and not ref.startswith("skip:")
        # a failure that also happens without the CLIs is a decompiler limitation (properties C02/C06), reported under one
        # class per symptom; the CLI-specific classes keep the program features (offset-gap / coroutine / plain)
        # classes: coroutine (COROUTINE routines in the document) > wrong-jump-parameters (clause ii already failed for this
        # program: whatever the decompile command does with it is a consequence) > inherited-from-decompiler > plain
        if "coroutine" in feat and (d["exit"] == 0 or "coroutine" in d["err"].lower()):
            cls = "coroutine"
        elif pp:
            cls = "wrong-jump-parameters"
        elif ref_bad:
            cls = "inherited-from-decompiler"
        else:
            cls = "plain"
        generic = cls in ("wrong-jump-parameters", "inherited-from-decompiler")
        note = (f" | without CLI: {ref}" if ref_bad else "") + (" | clause ii failed for this program" if pp else "")
        if d["exit"] != 0:
            sym = "decompile-command-rejects-compile-output" + ("" if generic else ":" + _err_class(d["err"]))
            if cls == "wrong-jump-parameters":
                sym = "not-accepted-or-not-equivalent"
            rec["problems"].append({"clause": "iii", "cls": cls, "symptom": sym, "detail": d["err"] + note})
            return rec
        try:
            re_c = _compile(d["stdout"], os.path.join(root, "re.exps"))
        except Exception as e:  # noqa: BLE001
            sym = "not-accepted-or-not-equivalent" if cls == "wrong-jump-parameters" else "decompile-output-does-not-compile" + ("" if generic else f":{type(e).__name__}")
            rec["problems"].append({"clause": "iii", "cls": cls, "symptom": sym, "detail": f"{type(e).__name__}: " + str(e)[:300] + note})
            return rec
        eq = equiv_routines(comp.routine_ops, re_c.routine_ops)
        if eq is not None and not eq.startswith("skip:"):
            sym = "not-accepted-or-not-equivalent" if cls == "wrong-jump-parameters" else "round-trip-not-equivalent"
            rec["problems"].append({"clause": "iii", "cls": cls, "symptom": sym, "detail": eq + note})
        elif eq is not None:
            rec["skipped"] = eq
        return rec
    finally:
        shutil.rmtree(root, ignore_errors=True)


def _infos_of(comp) -> list:
    out = []
    for info, name in zip(comp.routine_infos, comp.named_coroutines):
        t = info.type.name
        if t == "COROUTINE":
            out.append([t, name])
        elif t == "GENERIC":
            out.append([t, None])
        else:
            out.append([t, info.linked_to if info.linked_to != -1 else info.linked_to_name])
    return out


def _pk(p) -> list:
    from spec.machine import param_key

    k = param_key(p)
    if k[0] == "lang":
        return ["lang", [list(x) for x in k[1]]]
    return list(k)


def task_document(args) -> dict:
    """Clause iv (documents that must be accepted) through the decompile command and in-process."""
    item, repo = args
    if not _W:
        _init(repo)
    root = tempfile.mkdtemp(prefix="d-", dir=_W["scratch"])
    rec: dict = {"cls": item["cls"], "problems": []}
    try:
        jpath = os.path.join(root, "doc.json")
        with open(jpath, "w", encoding="utf-8") as fh:
            json.dump(item["doc"], fh)
        d = _cli("explorerscript.cli.decompile", jpath, cwd=root)
        # in-process read_routines (contract is on the command; this tells which half fails)
        from explorerscript.cli import decompile as D

        try:
            D.read_routines(item["doc"]["routines"])
            rec["read_routines"] = "ok"
        except Exception as e:  # noqa: BLE001
            rec["read_routines"] = type(e).__name__
        if d["exit"] != 0:
            rec["problems"].append({"symptom": f"rejected:{_err_class(d['err'])}", "detail": d["err"]})
            return rec
        try:
            re_c = _compile(d["stdout"], os.path.join(root, "re.exps"))
        except Exception as e:  # noqa: BLE001
            rec["problems"].append({"symptom": f"printed-program-does-not-compile:{type(e).__name__}", "detail": str(e)[:200] + " | " + d["stdout"][:300]})
            return rec
        exp = item["expect"]
        if "infos" in exp and _infos_of(re_c) != exp["infos"]:
            rec["problems"].append({"symptom": "routine-kind-or-target-changed", "detail": f"{_infos_of(re_c)} vs {exp['infos']}"})
        if "params" in exp:
            probe = [op for r in re_c.routine_ops for op in r if op.op_code.name == "probe"]
            got = [_pk(p) for p in probe[0].params] if probe else None
            want = [[x[0], sorted(x[1])] if x[0] == "lang" else x for x in exp["params"]]
            if got != want:
                rec["problems"].append({"symptom": "parameter-value-changed", "detail": f"{got} vs {want}"})
        return rec
    finally:
        shutil.rmtree(root, ignore_errors=True)


def task_failing(args) -> dict:
    """Clause v: inputs on which a command must exit non-zero."""
    item, repo = args
    if not _W:
        _init(repo)
    root = tempfile.mkdtemp(prefix="f-", dir=_W["scratch"])
    rec: dict = {"cls": item["cls"], "problems": []}
    try:
        if item.get("cmd") == "compile":
            src = os.path.join(root, "main.exps")
            with open(src, "w") as fh:
                fh.write("def 0 {\n    a();\n}\n")
            spath = os.path.join(root, "s.json")
            s = SETTINGS_DOC["settings"]
            k = item["cls"]
            if k == "settings-not-json":
                open(spath, "w").write("{ nope")
            elif k == "settings-key-missing":
                json.dump({"other": 1}, open(spath, "w"))
            elif k == "settings-without-ppl":
                json.dump({"settings": {"dungeon_mode_constants": s["dungeon_mode_constants"]}}, open(spath, "w"))
            elif k == "settings-dmc-incomplete":
                json.dump({"settings": {"performance_progress_list_var_name": PPL, "dungeon_mode_constants": {"open": "O", "closed": "C"}}}, open(spath, "w"))
            elif k == "source-missing":
                json.dump(SETTINGS_DOC, open(spath, "w"))
                src = os.path.join(root, "nope.exps")
            c = _cli("explorerscript.cli.compile", src, "--settings", spath, cwd=root)
            if c["exit"] == 0:
                rec["problems"].append({"symptom": "compile-command-exits-0", "detail": c["stdout"][:200]})
            elif c["stdout"].strip():
                rec["problems"].append({"symptom": "compile-command-prints-output-on-failure", "detail": c["stdout"][:200]})
            return rec
        jpath = os.path.join(root, "doc.json")
        if not item.get("missing"):
            with open(jpath, "w", encoding="utf-8") as fh:
                fh.write(item["raw"] if "raw" in item else json.dumps(item["doc"]))
        d = _cli("explorerscript.cli.decompile", jpath, cwd=root)
        if d["exit"] == 0:
            rec["problems"].append({"symptom": "decompile-command-exits-0", "detail": d["stdout"][:200]})
        return rec
    finally:
        shutil.rmtree(root, ignore_errors=True)


def task_inprocess(args) -> list[dict]:
    """Clauses i and ii on build_routines_json (no subprocess): many more programs."""
    progs, repo = args
    if not _W:
        _init(repo)
    import jsonschema

    from explorerscript.cli.compile import build_routines_json

    val = jsonschema.Draft7Validator(SCHEMA)
    out = []
    for name, text in progs:
        try:
            comp = _compile(text, os.path.join(_W["scratch"], "ip.exps"))
        except Exception:  # noqa: BLE001 - C10's business
            continue
        rec = {"name": name, "text": text, "features": "offset-gap" if has_gap(comp.routine_ops) else "no-gap", "problems": []}
        if any(i is None for i in comp.routine_infos):
            continue
        try:
            routines = _quiet(build_routines_json, comp.routine_infos, comp.named_coroutines, comp.routine_ops)
            routines = json.loads(json.dumps(routines))
        except Exception as e:  # noqa: BLE001
            rec["problems"].append({"clause": "i", "symptom": f"build_routines_json-raises-{type(e).__name__}", "detail": str(e)[:200]})
            out.append(rec)
            continue
        errs = sorted(val.iter_errors({"settings": SETTINGS_DOC["settings"], "routines": routines}), key=lambda e: list(e.absolute_path))
        if errs:
            where = "/".join("*" if isinstance(p, int) else str(p) for p in errs[0].absolute_path)
            rec["problems"].append({"clause": "i", "symptom": f"schema-violation-at-{where}", "detail": errs[0].message[:200]})
        pp = check_positions(comp.routine_ops, routines)
        if pp:
            rec["problems"].append({"clause": "ii", "symptom": "jump-parameter-is-not-the-position-of-its-target", "detail": "; ".join(pp[:3])})
        # the same contract of build_routines_json on the tables with an op-free routine (what a label-only body compiles to)
        # inserted at a position derived from the text: it contributes no position (seeded change C15-m9)
        if not pp and not errs:
            from explorerscript.ssb_converting.ssb_data_types import SsbRoutineInfo, SsbRoutineType

            k = int(hashlib.sha1(text.encode()).hexdigest(), 16) % (len(comp.routine_ops) + 1)
            infos = list(comp.routine_infos[:k]) + [SsbRoutineInfo(SsbRoutineType.GENERIC, 0)] + list(comp.routine_infos[k:])
            names = list(comp.named_coroutines[:k]) + ["n/a"] + list(comp.named_coroutines[k:])
            rops = [list(r) for r in comp.routine_ops[:k]] + [[]] + [list(r) for r in comp.routine_ops[k:]]
            try:
                routines2 = json.loads(json.dumps(_quiet(build_routines_json, infos, names, rops)))
                pp2 = check_positions(rops, routines2)
                if not pp2 and (len(routines2) != len(rops) or routines2[k].get("ops") != []):
                    pp2 = [f"routine {k} of the output is not the op-free routine"]
            except Exception as e:  # noqa: BLE001
                pp2 = [f"build_routines_json raises {type(e).__name__}: {e}"[:200]]
            if pp2:
                rec["problems"].append({"clause": "ii", "symptom": "op-free-routine-inserted-jump-parameter-is-not-the-position-of-its-target", "detail": f"op-free routine inserted at index {k}: " + "; ".join(pp2[:3])})
        out.append(rec)
    return out


# ---------------------------------------------------------------------------------------------------------------------
# parent
# ---------------------------------------------------------------------------------------------------------------------
def _chunks(xs: list, n: int) -> list[list]:
    return [xs[i : i + n] for i in range(0, len(xs), n)]


def run(ctx: Ctx) -> PropResult:
    res = PropResult(prop="C15", level="exploration")
    n_cli = 2000 if ctx.thorough else 180
    n_inproc = 20000 if ctx.thorough else 1200
    corpus = valid_corpus(ctx.seed + 15, n_inproc, size=3, with_macros=True)
    cli_progs = [{"name": n, "text": t, "directed": True} for n, t in DIRECTED_PROGRAMS + FAIL_PROGRAMS]
    cli_progs += [{"name": n, "text": t} for n, t in corpus[: max(0, n_cli - len(cli_progs))]]
    docs = documented_documents()
    fails = failing_documents() + [{"cls": k, "cmd": "compile"} for k in COMPILE_CLI_FAILURES]

    mp = multiprocessing.get_context("spawn")
    root = tempfile.mkdtemp(prefix="verif-C15-")
    try:
        inproc, docs_out, fail_out, cli_out = _execute(ctx, mp, root, corpus, docs, fails, cli_progs)
    finally:
        shutil.rmtree(root, ignore_errors=True)
    return _judge(ctx, res, corpus, docs, fails, cli_progs, inproc, docs_out, fail_out, cli_out)


def _execute(ctx: Ctx, mp, root: str, corpus, docs, fails, cli_progs):
    with mp.Pool(ctx.jobs, initializer=_init, initargs=(ctx.repo, root)) as pool:
        r_inproc = pool.map_async(task_inprocess, [(ch, ctx.repo) for ch in _chunks(corpus, 100)], chunksize=1)
        r_docs = pool.map_async(task_document, [(d, ctx.repo) for d in docs], chunksize=1)
        r_fail = pool.map_async(task_failing, [(f, ctx.repo) for f in fails], chunksize=1)
        r_cli = pool.map_async(task_roundtrip, [(p, ctx.repo) for p in cli_progs], chunksize=2)
        inproc = [r for ch in r_inproc.get() for r in ch]
        docs_out = r_docs.get()
        fail_out = r_fail.get()
        cli_out = r_cli.get()
    return inproc, docs_out, fail_out, cli_out


def _judge(ctx: Ctx, res: PropResult, corpus, docs, fails, cli_progs, inproc, docs_out, fail_out, cli_out) -> PropResult:
    counts: dict[str, int] = {}
    seen: dict[str, int] = {}

    def add(sig: str, what: str, inp: dict, clause: str, observed) -> None:
        seen[sig] = seen.get(sig, 0) + 1
        if seen[sig] > 3:
            return  # the driver prints one line per signature; keep a few witnesses each
        res.violations.append(Violation(signature=sig, what=what, input=inp, contract=CONTRACT[clause], observed=observed))

    # shortest witness first: sort CLI records by program length
    order = sorted(range(len(cli_progs)), key=lambda i: (len(cli_progs[i]["text"]), i))
    eval_n = {k: 0 for k in CONTRACT}
    feats: dict[str, int] = {}
    for i in order:
        rec, prog = cli_out[i], cli_progs[i]
        for cl in rec["evaluated"]:
            eval_n[cl] += 1
        feats[rec.get("features", "?")] = feats.get(rec.get("features", "?"), 0) + 1
        if rec.get("skipped"):
            counts["iii-skipped:" + rec["skipped"].split(":")[1]] = counts.get("iii-skipped:" + rec["skipped"].split(":")[1], 0) + 1
        for pr in rec["problems"]:
            sig = f"C15:{pr['clause']}:program:{pr['cls']}:{pr['symptom']}"
            add(sig, f"[{prog['name']}] {pr['symptom']}: {pr['detail'][:200]}", {"mode": "roundtrip", "item": prog}, pr["clause"], pr)
    for d, rec in zip(docs, docs_out):
        eval_n["iv"] += 1
        for pr in rec["problems"]:
            add(f"C15:iv:document:{rec['cls']}:{pr['symptom']}", f"documented input {rec['cls']} -> {pr['symptom']}: {pr['detail'][:200]}", {"mode": "document", "item": d}, "iv", {**pr, "read_routines_in_process": rec.get("read_routines")})
    for f, rec in zip(fails, fail_out):
        eval_n["v"] += 1
        for pr in rec["problems"]:
            add(f"C15:v:{f.get('cmd', 'decompile')}:{rec['cls']}:{pr['symptom']}", f"{rec['cls']}: {pr['symptom']}", {"mode": "failing", "item": f}, "v", pr)
    ip_n = 0
    ip_sorted = sorted(inproc, key=lambda r: (len(r["text"]), r["name"]))
    for rec in ip_sorted:
        ip_n += 1
        for pr in rec["problems"]:
            sig = f"C15:{pr['clause']}:build_routines_json:{rec['features']}:{pr['symptom']}"
            add(sig, f"[in-process, {rec['name']}] {pr['symptom']}: {pr['detail'][:200]}", {"mode": "inprocess", "item": {"name": rec["name"], "text": rec["text"]}}, pr["clause"], pr)

    res.extra["witnesses_per_signature"] = seen
    res.extra["cli_program_features"] = feats
    res.extra["notes"] = counts
    gap_n = sum(1 for r in inproc if r["features"] == "offset-gap")
    res.standins += [
        StandIn(contract="i: " + CONTRACT["i"], tier="T3", bound=f"{eval_n['i']} programs through the command + {ip_n} through build_routines_json in-process", evaluations=eval_n["i"] + ip_n, distinct_nontrivial=len({hashlib.sha1(r['text'].encode()).hexdigest() for r in inproc}), exhaustive=False, samples=[cli_progs[0]["text"]]),
        StandIn(contract="ii: " + CONTRACT["ii"], tier="T3", bound=f"{eval_n['ii']} programs through the command + {ip_n} in-process ({gap_n} of them with a gap in the compiler's offsets)", evaluations=eval_n["ii"] + ip_n, distinct_nontrivial=gap_n, exhaustive=False, samples=[DIRECTED_PROGRAMS[0][1]], notes="non-trivial = the compiler dropped an op (offsets are not 1..n)"),
        StandIn(contract="iii: " + CONTRACT["iii"], tier="T3", bound=f"{eval_n['iii']} programs: compile command -> decompile command -> in-process compile -> equiv", evaluations=eval_n["iii"], distinct_nontrivial=eval_n["iii"], exhaustive=False, samples=[cli_progs[1]["text"]], notes="a failure that also happens without the CLIs (in-process decompile + recompile) is tagged ':also-without-cli'"),
        StandIn(contract="iv: " + CONTRACT["iv"], tier="T3", bound=f"{len(docs)} hand-written documents, one per documented routine type / target form / argument type", evaluations=eval_n["iv"], distinct_nontrivial=len(docs), exhaustive=True, samples=[docs[1]["doc"]["routines"]], notes="exhaustive w.r.t. the list of documented types only"),
        StandIn(contract="v: " + CONTRACT["v"], tier="T3", bound=f"{len(fails)} failing invocations + exit status of every program run", evaluations=eval_n["v"], distinct_nontrivial=len(fails) + len(cli_progs), exhaustive=False, samples=[fails[0]["cls"]]),
    ]
    for cl, n in eval_n.items():
        if not n:
            res.self_check_failures.append(f"clause {cl} never evaluated")
    if not gap_n:
        res.self_check_failures.append("no program with an offset gap was generated: clause ii is vacuous")
    res.rule = (
        "programs = directed programs (dropped jump, coroutines, targeted routines, all parameter kinds) + seeded random valid "
        "programs of props.C10.valid_corpus; documents = one per documented routine/argument type; distinct = sha1 of the text."
    )
    res.assumptions = [
        "settings file as in the docs' example; lookup paths unused (programs have no imports)",
        "POSITION_MARK coordinates: the docs' type description shows JSON numbers (10, 20), the docs' example output shows strings (\"10\", \"10.5\"): both are taken as documented; fractional JSON numbers are not",
        "'exit 0 exactly on success': success of the compile command = compile() of the same source succeeds in-process; failing inputs for the decompile command are only structurally invalid documents (missing required member, unknown type tag, not JSON, missing file)",
        "behaviour comparison by spec.machine.equiv routine by routine; programs whose machine has an op-free cycle are skipped",
    ]
    return res


def replay(record: dict, ctx: Ctx) -> bool:
    inp = record["input"]
    mp = multiprocessing.get_context("spawn")
    sig = record["signature"]
    root = tempfile.mkdtemp(prefix="verif-C15r-")
    try:
        return _replay(record, ctx, mp, root)
    finally:
        shutil.rmtree(root, ignore_errors=True)


def _replay(record: dict, ctx: Ctx, mp, root: str) -> bool:
    inp = record["input"]
    sig = record["signature"]
    with mp.Pool(1, initializer=_init, initargs=(ctx.repo, root)) as pool:
        if inp["mode"] == "roundtrip":
            rec = pool.apply(task_roundtrip, ((inp["item"], ctx.repo),))
            return any(f"C15:{p['clause']}:program:{p['cls']}:{p['symptom']}" == sig for p in rec["problems"])
        if inp["mode"] == "document":
            rec = pool.apply(task_document, ((inp["item"], ctx.repo),))
            return any(f"C15:iv:document:{rec['cls']}:{p['symptom']}" == sig for p in rec["problems"])
        if inp["mode"] == "failing":
            rec = pool.apply(task_failing, ((inp["item"], ctx.repo),))
            return bool(rec["problems"])
        if inp["mode"] == "inprocess":
            recs = pool.apply(task_inprocess, (([(inp["item"]["name"], inp["item"]["text"])], ctx.repo),))
            return any(f"C15:{p['clause']}:build_routines_json:{r['features']}:{p['symptom']}" == sig for r in recs for p in r["problems"])
    raise ValueError("unknown replay mode")
