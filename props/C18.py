"""C18 - the position-mark listing delimits every `Position<...>` literal exactly.      (tier T3: bounded stand-in, never proof)

Contract on ``PositionMarkVisitor().visit(ExplorerScriptReader(t).read())`` (the real classes), for every generated source t:

  L  (listing)      the result has exactly one entry per `Position<...>` literal of t, in source order.  The literals are
                    found independently: (i) by construction (the generator records the character offsets of the `P` of
                    `Position` and of the closing `>`), (ii) by scanning the repository lexer's token stream for
                    POSITION OPEN_SHARP STRING_LITERAL COMMA num COMMA num CLOSE_SHARP; (i) and (ii) must agree (self-check).
  S  (span)         entry.line_number / column_number == zero-based line / column of `Position`;
                    entry.end_line_number / end_column_number == zero-based line / column of the closing `>`
                    (line = number of LF before the character, column = code points since the last LF)
  V  (values)       name / x_relative / y_relative / x_offset / y_offset of the entry equal those of EVERY parameter the compiler
                    produces for that literal (ops are searched for SsbOpParamPositionMarker with the literal's unique name:
                    several for a macro called twice, none for a macro never called) and of the source map's position marks
                    with that name (get_position_marks__direct() for routine-level literals, __macros() for macro bodies);
                    a literal in a routine or in a called macro must produce at least one parameter.
  R  (replacement)  replacing exactly the characters [start, end] (end inclusive: the `>`) by str(edited SsbOpParamPositionMarker)
                    and compiling again gives the original result with exactly the parameters (and source-map marks) that came
                    from that literal replaced by the edited mark - nothing else changes (op names, offsets, other parameters,
                    routine infos, coroutine names).

Generated programs: 1-4 literals placed in operation arguments, several per line, inline-context operations, with-blocks,
if / else, switch header operations and case bodies, forever / for (init, step, body) / while, macro bodies (called once, twice,
never), macro-call arguments, further routines and coroutines; after multi-line strings and astral characters on the same line;
LF and CRLF line ends; literal layouts tight / spaced / spread over several lines / with comments inside; both quote styles;
integer arguments in all bases, decimals .5 / 0.5 / 1.50 / -3.5 / 007.5 / 2.0.
"""
from __future__ import annotations

import functools
import hashlib
import json
import multiprocessing
import random
from typing import Any

from spec import literals as LIT
from vlib.result import Ctx, PropResult, StandIn, Violation

PPL = "$PERFORMANCE_PROGRESS_LIST"
CONTRACT_L = "one entry per Position<...> literal, in source order"
CONTRACT_S = "entry start = (line, column) of `Position`, entry end = (line, column) of the closing `>` (zero-based)"
CONTRACT_V = "entry name / coordinates / offsets equal the compiled parameter(s) and source-map mark(s) of that literal"
CONTRACT_R = "replacing exactly [start, end] by str(edited mark) and recompiling changes exactly the parameters of that literal"


# =====================================================================================================================
# generator
# =====================================================================================================================
INT_ARGS = ["0", "1", "-1", "20", "0x14", "0b101", "0o17", "-0x2", "00", "123", "-45"]
DEC_ARGS = [".5", "0.5", "1.5", "20.50", "-3.5", "007.5", "2.0", "-1.0", "12.500", ".0"]

# statement-level sites (inside `def 0 { ... }`); {P} = a literal; needs = top-level definitions required
SITES = [
    ("oparg", "op(1, {P}, 'x');", []),
    ("two-per-op", "op({P}, {P});", []),
    ("inline-ctx", "op<actor A>({P});", []),
    ("with-block", "with (object 2) {{ op({P}); }}", []),
    ("if-else", "if ($a == 1) {{ op({P}); }} else {{ op2({P}); }}", []),
    ("switch-header", "switch (hdr({P})) {{ case 1: a(); break; }}", []),
    ("switch-header-and-cases", "switch (hdr({P})) {{ case 1: op({P}); break; default: op({P}); }}", []),
    ("forever", "forever {{ op({P}); break_loop; }}", []),
    ("for-init-step-body", "for (first({P}); $i < 3; step({P});) {{ body({P}); }}", []),
    ("while", "while ($i < 2) {{ op({P}); }}", []),
    ("macro-call-arg", "~mac({P}, 1);", ["mac"]),
    ("macro-call-arg-twice-used", "~mac2({P});", ["mac2"]),
    ("macro-body-called-once", "~macp(2);", ["macp"]),
    ("macro-body-called-twice", "~macq(2); ~macq(3);", ["macq"]),
    ("nested-macro-body", "~outer(5);", ["outer"]),
    ("after-multiline-string", "op('''a\n  b''', {P});", []),
    ("after-astral-chars", "op('\U0001f600 é', {P}); /* c */ op({P});", []),
    ("after-tab", "\top({P});", []),
    ("three-on-a-line", "a({P}); b({P}); c({P});", []),
]
TOP_DEFS = {
    "mac": "macro mac($a, $b) {{ use($a, $b); }}",
    "mac2": "macro mac2($a) {{ use($a); again($a, 7); }}",
    "macp": "macro macp($a) {{ inner({P}, $a); }}",
    "macq": "macro macq($a) {{ inner2($a, {P}); }}",
    "outer": "macro innerm($z) {{ deep({P}, $z); }}\nmacro outer($y) {{ ~innerm($y); shallow({P}); }}",
}
TOP_SITES = [
    ("uncalled-macro", "macro unused($u) {{ u({P}, $u); }}"),
    ("actor-routine", "def 1 for actor X {{ op({P}); }}"),
    ("coroutine", "coro C {{ op({P}); }}"),
]
LAYOUTS = ["tight", "spaced", "multiline", "comments", "multiline-crlf-safe"]


def literal_text(rng: random.Random, name: str, layout: str) -> str:
    q = rng.choice("'\"")
    x = rng.choice(INT_ARGS + DEC_ARGS)
    y = rng.choice(INT_ARGS + DEC_ARGS)
    nm = f"{q}{name}{q}"
    if layout == "tight":
        return f"Position<{nm},{x},{y}>"
    if layout == "spaced":
        return f"Position  <  {nm} , {x} ,  {y}  >"
    if layout == "multiline":
        return f"Position<\n        {nm},\n        {x},\n        {y}\n    >"
    if layout == "comments":
        return f"Position/*a*/</*b*/{nm}/*c*/,{x},//d\n {y}/*>*/>"
    return f"Position <\n{nm}\n,\n{x}\n,\n{y}\n>"


def generate(seed_key: str) -> dict:
    """{text, literals: [{name, start, end, site, layout, level: 'routine'|'macro-called'|'macro-uncalled', spelling}]}"""
    rng = random.Random(seed_key)
    target = rng.randint(1, 4)
    chosen_sites = []
    count = 0
    # 'nested-macro-body' (a macro with a literal called by another macro of the file) makes compile() loop forever on the
    # unchanged tree: it is generated for every 40th program only (each costs WATCHDOG_CPU_S of CPU time)
    index = int(seed_key.rsplit(":", 1)[1]) if seed_key.rsplit(":", 1)[-1].isdigit() else 1
    pool = [s for s in SITES if s[0] != "nested-macro-body"]
    if index % 40 == 0:
        s = next(s for s in SITES if s[0] == "nested-macro-body")
        chosen_sites.append(s)
        count += 2
    while count < target:
        s = rng.choice(pool)
        k = s[1].count("{P}") + sum(TOP_DEFS[d].count("{P}") for d in s[2] if d in ("macp", "macq", "outer"))
        if count + k > 4 and count > 0:
            if rng.random() < 0.5:
                break
            continue
        chosen_sites.append(s)
        count += k
    tops = []
    if rng.random() < 0.35:
        tops.append(rng.choice(TOP_SITES))
    needs = []
    for s in chosen_sites:
        for d in s[2]:
            if d not in needs:
                needs.append(d)
    macros_first = rng.random() < 0.5
    nl = "\r\n" if rng.random() < 0.25 else "\n"
    joiner = rng.choice(["\n    ", " ", "\n\n    ", " /* sep */ "])
    parts: list[str] = []
    lits: list[dict] = []
    counter = [0]

    def emit(template: str, site: str, level: str) -> None:
        segs = template.replace("{{", "\x01").replace("}}", "\x02").split("{P}")
        for i, seg in enumerate(segs):
            parts.append(seg.replace("\x01", "{").replace("\x02", "}"))
            if i < len(segs) - 1:
                name = f"n{counter[0]}"
                counter[0] += 1
                layout = rng.choice(LAYOUTS)
                sp = literal_text(rng, name, layout)
                lits.append({"name": name, "site": site, "layout": layout, "level": level, "spelling": sp, "part": len(parts)})
                parts.append(sp)

    def emit_macros() -> None:
        for d in needs:
            emit(TOP_DEFS[d], "macro:" + d, "macro-called")
            parts.append("\n")
        for name, tpl in tops:
            if name == "uncalled-macro":
                emit(tpl, name, "macro-uncalled")
                parts.append("\n")

    if rng.random() < 0.3:
        parts.append("// header comment\n/* block\n comment */\n")
    if macros_first:
        emit_macros()
    parts.append("def 0 {\n    ")
    for i, s in enumerate(chosen_sites):
        if i:
            parts.append(joiner)
        emit(s[1], s[0], "routine")
    parts.append("\n    end;\n}\n")
    for name, tpl in tops:
        if name != "uncalled-macro":
            emit(tpl, name, "routine")
            parts.append("\n")
    if not macros_first:
        emit_macros()
    # offsets
    text_parts = []
    pos = 0
    starts = {}
    for i, p in enumerate(parts):
        if nl != "\n":
            p = p.replace("\n", nl)
        starts[i] = pos
        text_parts.append(p)
        pos += len(p)
    text = "".join(text_parts)
    for lit in lits:
        i = lit.pop("part")
        lit["start"] = starts[i]
        lit["end"] = starts[i] + len(text_parts[i]) - 1
        lit["spelling"] = text_parts[i]
        assert text[lit["start"] : lit["start"] + 8] == "Position" and text[lit["end"]] == ">"
    lits.sort(key=lambda l: l["start"])
    return {"key": seed_key, "text": text, "literals": lits}


def line_col(text: str, off: int) -> tuple[int, int]:
    return text.count("\n", 0, off), off - (text.rfind("\n", 0, off) + 1)


def offset_of(text: str, line: int, col: int) -> int:
    pos = 0
    for _ in range(line):
        pos = text.index("\n", pos) + 1
    return pos + col


# =====================================================================================================================
# repository access
# =====================================================================================================================
@functools.lru_cache(maxsize=None)
def _repo():
    from antlr4 import InputStream, Token
    from explorerscript.antlr.ExplorerScriptLexer import ExplorerScriptLexer
    from explorerscript.explorerscript_reader import ExplorerScriptReader
    from explorerscript.ssb_converting.compiler.compiler_visitor.position_mark_visitor import PositionMarkVisitor
    from explorerscript.ssb_converting.ssb_compiler import ExplorerScriptSsbCompiler
    from explorerscript.ssb_converting.ssb_data_types import SsbOpParamPositionMarker
    from spec.machine import param_key

    class R:
        pass

    r = R()
    r.InputStream, r.Token, r.Lexer, r.Reader, r.Visitor, r.Compiler, r.PM, r.param_key = (
        InputStream, Token, ExplorerScriptLexer, ExplorerScriptReader, PositionMarkVisitor, ExplorerScriptSsbCompiler, SsbOpParamPositionMarker, param_key)
    return r


def _quiet():
    import contextlib
    import io

    return contextlib.redirect_stderr(io.StringIO())


def scan_literals(text: str) -> list[dict]:
    """Spans of Position literals from the repository lexer's token stream: [{start:(l,c), end:(l,c), start_off, end_off}]."""
    r = _repo()
    L = r.Lexer
    lx = L(r.InputStream(text))
    lx.removeErrorListeners()
    toks = []
    while True:
        t = lx.nextToken()
        if t.type == r.Token.EOF:
            break
        toks.append(t)
    out = []
    shape = [L.POSITION, L.OPEN_SHARP, L.STRING_LITERAL, L.COMMA, None, L.COMMA, None, L.CLOSE_SHARP]
    for i, t in enumerate(toks):
        if t.type != L.POSITION:
            continue
        seg = toks[i : i + 8]
        if len(seg) == 8 and all(s is None and x.type in (L.INTEGER, L.DECIMAL) or x.type == s for x, s in zip(seg, shape)):
            out.append({"start": (t.line - 1, t.column), "end": (seg[7].line - 1, seg[7].column), "start_off": t.start, "end_off": seg[7].start})
    return out


def _macro_shape(text: str) -> tuple[bool, bool]:
    """(some macro body contains a macro call, some macro body contains a Position literal) - from the token stream."""
    r = _repo()
    L = r.Lexer
    lx = L(r.InputStream(text))
    lx.removeErrorListeners()
    in_macro = False
    depth = 0
    call = pos = False
    while True:
        t = lx.nextToken()
        if t.type == r.Token.EOF:
            break
        if t.type == L.MACRO:
            in_macro, depth = True, 0
        elif in_macro and t.type == L.OPEN_BRACE:
            depth += 1
        elif in_macro and t.type == L.CLOSE_BRACE:
            depth -= 1
            if depth == 0:
                in_macro = False
        elif in_macro and depth > 0 and t.type == L.MACRO_CALL:
            call = True
        elif in_macro and depth > 0 and t.type == L.POSITION:
            pos = True
    return call, pos


FIXED_PROGRAMS = [
    "macro a() { x(Position<'p', 1, 2>); }\nmacro b() { ~a(); }\n",
    "macro a() { x(Position<'p', 1, 2>); }\nmacro b() { ~a(); }\ndef 0 { ~b(); }\n",
    "macro a() { x(); }\nmacro b() { y(Position<'p', 1, 2.5>); ~a(); }\ndef 0 { ~b(); }\n",
    "macro a() { x(); }\nmacro b() { ~a(); y(Position<'p', 1, 2.5>); }\ndef 0 { ~b(); ~b(); }\n",
    "def 0 { a(Position<'p', 1, 2>); }",
    "def 0 { a(Position<'p', 1, 2>, Position<\"q\", -1.5, 0x10>); b(Position<'r',0,0>); }",
    "def 0 {\n  a(\n    Position<\n      'p',\n      1,\n      2\n    >\n  );\n}\n",
    "def 0 { switch (h(Position<'p', 1, 2>)) { case 1: a(Position<'q', 3, 4>); } }",
]


def _mark_view(marks) -> list[dict]:
    return [{"start": (m.line_number, m.column_number), "end": (m.end_line_number, m.end_column_number), "name": m.name,
             "vals": (m.x_offset, m.y_offset, m.x_relative, m.y_relative)} for m in marks]


def listing(text: str) -> list[dict]:
    r = _repo()
    with _quiet():
        marks = r.Visitor().visit(r.Reader(text).read())
    return _mark_view(marks)


def listing_same_visitor_again(text: str) -> list[dict]:
    """The listing of `text` from a visitor object that has already listed it once (an editor re-lists after every edit):
    "exactly one entry per literal" holds for every listing, not only for the first one of a visitor."""
    r = _repo()
    with _quiet():
        v = r.Visitor()
        list(v.visit(r.Reader(text).read()) or [])
        marks = v.visit(r.Reader(text).read())
    return _mark_view(marks)


class CompileTimeout(Exception):
    """compile() used more CPU time than the watchdog allows (normal: 5-50 ms)."""


WATCHDOG_CPU_S = 1.0


def _watchdog_compile(text: str):
    """compile() under a CPU-time watchdog (ITIMER_VIRTUAL: independent of machine load)."""
    import signal

    r = _repo()

    def on_alarm(_sig, _frm):
        raise CompileTimeout()

    old = signal.signal(signal.SIGVTALRM, on_alarm)
    signal.setitimer(signal.ITIMER_VIRTUAL, WATCHDOG_CPU_S)
    try:
        with _quiet():
            return r.Compiler(PPL).compile(text, "/verif-nonexistent/c18.exps")
    finally:
        signal.setitimer(signal.ITIMER_VIRTUAL, 0)
        signal.signal(signal.SIGVTALRM, old)


def compile_fp(text: str) -> dict:
    c = _watchdog_compile(text)
    ops = []
    for rt in c.routine_ops:
        ops.append([[op.offset, op.op_code.name, [_pk(p) for p in op.params]] for op in rt])
    sm = c.source_map
    return {
        "ops": ops,
        "infos": [[i.type.name, i.linked_to, i.linked_to_name] for i in c.routine_infos],
        "named": [n if isinstance(n, str) else None for n in c.named_coroutines],
        "marks": [[m.name, m.x_offset, m.y_offset, m.x_relative, m.y_relative] for m in sm.get_position_marks__direct()],
        "macro_marks": [[f, n, [m.name, m.x_offset, m.y_offset, m.x_relative, m.y_relative]] for (f, n, m) in sm.get_position_marks__macros()],
    }


def _pk(p: Any) -> Any:
    return json.loads(json.dumps(_repo().param_key(p), default=str))


def _subst(fp: dict, name: str, new: list) -> dict:
    """fp with every position-mark value named `name` replaced by new = [name', xo, yo, xr, yr]."""
    pk_new = ["pos", new[0], new[1], new[2], new[3], new[4]]
    out = json.loads(json.dumps(fp))
    for rt in out["ops"]:
        for op in rt:
            op[2] = [pk_new if (isinstance(p, list) and p and p[0] == "pos" and p[1] == name) else p for p in op[2]]
    out["marks"] = [list(new) if m[0] == name else m for m in out["marks"]]
    out["macro_marks"] = [[f, n, list(new)] if m[0] == name else [f, n, m] for (f, n, m) in out["macro_marks"]]
    return out


# =====================================================================================================================
# the contract
# =====================================================================================================================
def _v(sig: str, what: str, inp: dict, contract: str, observed: Any) -> dict:
    return {"signature": sig, "what": what[:400], "input": inp, "contract": contract, "observed": observed}


def check_program(prog: dict, edits_seed: str = "e") -> tuple[int, list[dict], list[str]]:
    """Evaluate L, S, V, R on one program. Returns (#contract evaluations, failures, checker self-check problems)."""
    text = prog["text"]
    lits = prog["literals"]  # may be [] for seed programs without construction data
    inp_base = {"key": prog.get("key"), "text": text, "literals": lits, "edits_seed": edits_seed}
    fails: list[dict] = []
    selfcheck: list[str] = []
    n = 0
    scanned = scan_literals(text)
    if lits:
        built = [{"start": line_col(text, l["start"]), "end": line_col(text, l["end"])} for l in lits]
        if [(b["start"], b["end"]) for b in built] != [(s["start"], s["end"]) for s in scanned]:
            selfcheck.append(f"generator offsets and token scan disagree for program {prog.get('key')}")
            return 0, [], selfcheck
    else:
        # seed program: take names from the scanned tokens
        lits = [{"name": None, "site": "seed", "layout": "seed", "level": "?", "start": s["start_off"], "end": s["end_off"]} for s in scanned]
    try:
        ents = listing(text)
    except Exception as e:
        return 1, [_v(f"C18:listing:raises-{type(e).__name__}", f"PositionMarkVisitor raises {e!r} on an accepted program", inp_base, CONTRACT_L, repr(e))], selfcheck
    # L
    n += 1
    if len(ents) != len(scanned):
        sites = sorted({l["site"] for l in lits})
        fails.append(_v(f"C18:listing:count:{'+'.join(sites)[:80]}", f"{len(ents)} entries for {len(scanned)} literals", inp_base, CONTRACT_L, [e["name"] for e in ents]))
        return n, fails, selfcheck
    try:
        again = listing_same_visitor_again(text)
    except Exception as e:
        again = None
        fails.append(_v(f"C18:listing:second-listing-raises-{type(e).__name__}", f"a visitor that has listed the file once raises {e!r} on the second listing", inp_base, CONTRACT_L, repr(e)))
    if again is not None and again != ents:
        fails.append(_v("C18:listing:second-listing-of-the-same-visitor-differs", f"{len(again)} entries on the second listing of the same visitor object, {len(ents)} on the first", inp_base, CONTRACT_L, [e["name"] for e in again]))
    order_ok = [e["start"] for e in ents] == sorted(e["start"] for e in ents)
    if not order_ok:
        fails.append(_v("C18:listing:not-in-source-order", f"entries are not in source order: {[e['start'] for e in ents]}", inp_base, CONTRACT_L, [e["start"] for e in ents]))
    try:
        fp = compile_fp(text)
    except CompileTimeout:
        import gc

        gc.collect()
        cls = "macro-calls-macro-of-same-file-with-position-marks" if _macro_shape(text) == (True, True) else "other"
        fails.append(_v(f"C18:compile:does-not-terminate:{cls}", f"compile() of an accepted program does not return within {WATCHDOG_CPU_S} s CPU time (normal: < 0.05 s); "
                        "the values and replacement clauses cannot be evaluated", inp_base, CONTRACT_V, "CompileTimeout"))
        return n, fails, selfcheck
    except Exception as e:
        selfcheck.append(f"generated program {prog.get('key')} is rejected by the compiler: {type(e).__name__}: {e}")
        return n, fails, selfcheck
    for i, (lit, sc, ent) in enumerate(zip(lits, scanned, ents)):
        cls = f"{lit['site']}:{lit['layout']}"
        inp = dict(inp_base, literal_index=i)
        # S
        n += 1
        if ent["start"] != sc["start"]:
            fails.append(_v(f"C18:span:start:{cls}", f"literal {i} ({cls}): start {ent['start']} but `Position` is at {sc['start']}", inp, CONTRACT_S, ent["start"]))
        if ent["end"] != sc["end"]:
            fails.append(_v(f"C18:span:end:{cls}", f"literal {i} ({cls}): end {ent['end']} but the closing `>` is at {sc['end']}", inp, CONTRACT_S, ent["end"]))
        # V
        n += 1
        name = ent["name"]
        if lit["name"] is not None and name != lit["name"]:
            fails.append(_v(f"C18:values:name:{cls}", f"literal {i}: entry name {name!r}, literal name {lit['name']!r}", inp, CONTRACT_V, name))
            continue
        want = ["pos", name, ent["vals"][0], ent["vals"][1], ent["vals"][2], ent["vals"][3]]
        compiled = [p for rt in fp["ops"] for op in rt for p in op[2] if isinstance(p, list) and p and p[0] == "pos" and p[1] == name]
        if lit["level"] in ("routine", "macro-called") and not compiled:
            fails.append(_v(f"C18:values:no-compiled-parameter:{cls}", f"literal {i} ({name}) produces no compiled parameter", inp, CONTRACT_V, None))
        for p in compiled:
            if p != want:
                fails.append(_v(f"C18:values:differs-from-compiled:{cls}", f"literal {i}: entry {want} but compiled parameter {p}", inp, CONTRACT_V, p))
                break
        sm_marks = [m for m in fp["marks"] if m[0] == name] + [m for (_f, _n, m) in fp["macro_marks"] if m[0] == name]
        if lit["level"] in ("routine", "macro-called") and not sm_marks:
            fails.append(_v(f"C18:values:no-source-map-mark:{cls}", f"literal {i} ({name}) has no position mark in the compiler's source map", inp, CONTRACT_V, None))
        for m in sm_marks:
            if ["pos"] + m != want:
                fails.append(_v(f"C18:values:differs-from-source-map:{cls}", f"literal {i}: entry {want} but source-map mark {m}", inp, CONTRACT_V, m))
                break
        if lit["level"] == "routine" and not [m for m in fp["marks"] if m[0] == name]:
            fails.append(_v(f"C18:values:routine-literal-not-in-direct-marks:{cls}", f"literal {i} ({name}) is missing in get_position_marks__direct()", inp, CONTRACT_V, fp["marks"]))
        if lit.get("spelling"):
            # three-way cross check with the language specification (not part of the property; a disagreement here belongs to C04)
            pass
        # R
        n += 1
        fails += check_replacement(text, ent, name, fp, i, cls, inp, edits_seed)
    return n, fails, selfcheck


def check_replacement(text: str, ent: dict, name: str, fp: dict, i: int, cls: str, inp: dict, edits_seed: str) -> list[dict]:
    r = _repo()
    rng = random.Random(f"{edits_seed}:{hashlib.sha1(text.encode('utf-8', 'surrogatepass')).hexdigest()}:{i}")
    new = [f"edited_{i}", rng.choice([0, 2]), rng.choice([0, 2]), rng.choice([0, 1, -1, 7, 300, -25]), rng.choice([0, 1, -1, 9, 123, -4])]
    edited = r.PM(new[0], new[1], new[2], new[3], new[4])
    try:
        s = offset_of(text, *ent["start"])
        e = offset_of(text, *ent["end"])
    except ValueError:
        return [_v(f"C18:replacement:span-outside-text:{cls}", f"literal {i}: span {ent['start']}..{ent['end']} is outside the text", inp, CONTRACT_R, [ent["start"], ent["end"]])]
    new_text = text[:s] + str(edited) + text[e + 1 :]
    inp = dict(inp, edited=new, new_text=new_text)
    try:
        fp2 = compile_fp(new_text)
    except CompileTimeout:
        return [_v(f"C18:replacement:compile-does-not-terminate:{cls}", f"literal {i} ({cls}): compile() after the replacement does not return", inp, CONTRACT_R, "CompileTimeout")]
    except Exception as ex:
        return [_v(f"C18:replacement:recompile-fails:{cls}", f"literal {i} ({cls}): text after replacing the reported span does not compile: {type(ex).__name__}: {ex}", inp, CONTRACT_R, f"{type(ex).__name__}: {ex}"[:300])]
    want = _subst(fp, name, new)
    if fp2 != want:
        d = "?"
        for key in ("infos", "named", "marks", "macro_marks"):
            if fp2[key] != want[key]:
                d = f"{key}: {fp2[key]} != {want[key]}"
        if d == "?":
            for ra, rb in zip(fp2["ops"], want["ops"]):
                for oa, ob in zip(ra, rb):
                    if oa != ob:
                        d = f"op {oa} != expected {ob}"
                        break
        return [_v(f"C18:replacement:other-change:{cls}", f"literal {i} ({cls}): after the replacement the compiled program differs from the expected one: {d}", inp, CONTRACT_R, d[:300])]
    return []


# =====================================================================================================================
# run / replay
# =====================================================================================================================
def _w_programs(args) -> dict:
    keys, edits_seed = args
    out = {"n": 0, "fails": [], "selfcheck": [], "literals": 0, "hashes": [], "sites": {}}
    for k in keys:
        prog = generate(k)
        n, fs, sc = check_program(prog, edits_seed)
        out["n"] += n
        out["fails"] += fs
        out["selfcheck"] += sc
        out["literals"] += len(prog["literals"])
        out["hashes"].append(hashlib.sha1(prog["text"].encode("utf-8", "surrogatepass")).hexdigest())
        for l in prog["literals"]:
            key = f"{l['site']}|{l['layout']}"
            out["sites"][key] = out["sites"].get(key, 0) + 1
    return out


def _w_seed(args) -> dict:
    seed, edits_seed = args
    prog = {"key": "seed:" + seed["name"], "text": seed["text"], "literals": []}
    n, fs, sc = check_program(prog, edits_seed)
    return {"n": n, "fails": fs, "selfcheck": sc, "literals": len(scan_literals(seed["text"])), "hashes": [], "sites": {}}


def _dispatch(task):
    tag, args = task
    return _w_programs(args) if tag == "gen" else _w_seed(args)


def run(ctx: Ctx) -> PropResult:
    res = PropResult(prop="C18", level="exploration")
    n_prog = 30000 if ctx.thorough else 2400
    keys = [f"C18:{ctx.seed}:{i}" for i in range(n_prog)]
    tasks: list[tuple[str, Any]] = [("gen", (keys[i : i + 60], f"e{ctx.seed}")) for i in range(0, len(keys), 60)]
    # seed programs of C16 that contain Position literals with unique names and no import
    from props import C16

    for s in C16.seed_programs(ctx):
        if "Position" in s["text"] and "import" not in s["text"]:
            tasks.append(("seed", (dict(s, path="/verif-nonexistent/c18.exps"), f"e{ctx.seed}")))
    for k, t in enumerate(FIXED_PROGRAMS):
        tasks.append(("seed", ({"name": f"fixed{k}", "text": t}, f"e{ctx.seed}")))
    mp = multiprocessing.get_context("spawn")
    with mp.Pool(max(1, ctx.jobs)) as pool:
        parts = pool.map(_dispatch, tasks, chunksize=1)
    n = sum(p["n"] for p in parts)
    lits = sum(p["literals"] for p in parts)
    hashes = {h for p in parts for h in p["hashes"]}
    sites: dict[str, int] = {}
    fails = []
    for p in parts:
        fails += p["fails"]
        res.self_check_failures += p["selfcheck"][:3]
        for k, v in p["sites"].items():
            sites[k] = sites.get(k, 0) + v
    fails.sort(key=lambda f: (f["signature"], len(f["input"]["text"]), f["input"]["text"]))
    seen: dict[str, int] = {}
    for f in fails:
        seen[f["signature"]] = seen.get(f["signature"], 0) + 1
        if seen[f["signature"]] <= 3:
            res.violations.append(Violation(signature=f["signature"], what=f["what"], input=f["input"], contract=f["contract"], observed=f["observed"]))
    site_names = sorted({k.split("|")[0] for k in sites})
    res.standins.append(StandIn(
        contract="; ".join([CONTRACT_L, CONTRACT_S, CONTRACT_V, CONTRACT_R]), tier="T3",
        bound=f"{n_prog} generated programs with 1-4 literals ({lits} literal placements; sites {site_names}; layouts {LAYOUTS}) + the C16 seed programs containing Position literals + {len(FIXED_PROGRAMS)} fixed programs",
        evaluations=n, distinct_nontrivial=len(hashes), exhaustive=False,
        samples=[generate(keys[0])["text"], generate(keys[1])["text"]],
        notes="evaluations = listing checks + per literal one span, one value and one replacement check. distinct = distinct program texts (sha1); every program holds >= 1 literal. "
              f"placements per site|layout: min {min(sites.values()) if sites else 0}",
    ))
    res.rule = "programs from random.Random('C18:<seed>:<i>') over a fixed list of placement sites x literal layouts x number spellings; literal offsets recorded by the generator and re-found by a token scan"
    res.assumptions = [
        "line = number of LF characters before the character, column = code points since the last LF (ANTLR's convention; CRLF files included, lone-CR files not)",
        "literal names are unique per program, so 'the parameter the compiler produces for that literal' is every SsbOpParamPositionMarker with that name",
        "edited marks have plain names and offsets in {0, 2} (other marks do not survive printing: C04)",
    ]
    res.trusted_base = ["props/C18.py generator and offset arithmetic", "spec/machine.py:param_key"]
    res.extra["placements"] = dict(sorted(sites.items()))
    res.extra["signature_counts"] = dict(sorted(seen.items()))
    if n == 0:
        res.self_check_failures.append("C18: nothing evaluated")
    for s in SITES:
        if s[0] in ("macro-body-called-once", "macro-body-called-twice", "nested-macro-body", "macro-call-arg", "macro-call-arg-twice-used"):
            continue  # these sites hold their literals in the macro definitions (site name 'macro:<name>')
        if not any(k.startswith(s[0] + "|") for k in sites):
            res.self_check_failures.append(f"C18: site {s[0]} never generated")
    return res


def replay(record: dict, ctx: Ctx) -> bool:
    inp = record["input"]
    prog = {"key": inp.get("key"), "text": inp["text"], "literals": inp.get("literals") or []}
    if prog["key"] and str(prog["key"]).startswith("seed:"):
        prog["literals"] = []
    _n, fails, _sc = check_program(prog, inp.get("edits_seed") or f"e{ctx.seed}")
    return any(f["signature"] == record["signature"] for f in fails)
