"""C07 -- SsbScript is a lossless spelling of SSB ops (bounded stand-in, tier T3).

Contract on  SsbScriptSsbCompiler().compile(SsbScriptSsbDecompiler(infos, ops, coros).convert()[0]):
  * neither call raises,
  * same number of routines, same kinds / targets / coroutine names,
  * the same op names in the same order with equal parameters (structural: spec.machine.param_key),
  * for every jump-carrying op the target parameter denotes the op at the same (routine, index) as in the input,
  * frame: convert() leaves the caller's op lists unchanged (offsets, names, parameters).

Input space: ALL routine sets of gen.ssb (b) + (d) with no well-formedness filter except in-range jump targets, plus the
hand-made shapes of gen.ssb.aimed_shapes() and probes with keyword-like opcode names (reported under their own signatures).
"""
from __future__ import annotations

from typing import Any

from vlib.result import Ctx, PropResult, StandIn

from props import _ssb_common as K

CONTRACT = (
    "SsbScriptSsbCompiler.compile(SsbScriptSsbDecompiler(R).convert()[0]) raises nothing and yields the routine set R: same number "
    "of routines, kinds, targets, coroutine names, op names in order, equal parameters; every jump parameter denotes the op at "
    "the same (routine, index); convert() does not modify the caller's ops"
)

KEYWORD_NAMES = ("def", "coro", "alias", "for", "previous", "Position", "for_actor", "for_object", "for_performer")
JUMPSHAPE_QUICK = ("plain", "branch", "jump", "case", "Return")  # Call has the same table index as Jump
ODD_NAMES = ("_", "_x9", "A", "if", "jump", "switch", "Jump2", "message_SwitchTalk", "TRUE", "x" * 40, "CaseText", "Null", "end")


def check(rs: dict) -> list[tuple[str, str, Any]]:
    """Evaluate the contract on one JSON routine set. Returns [(symptom, detail, observed)] (empty = holds)."""
    from explorerscript.ssb_script.ssb_converting.ssb_compiler import SsbScriptSsbCompiler
    from explorerscript.ssb_script.ssb_converting.ssb_decompiler import SsbScriptSsbDecompiler

    infos, ops, coros = K.fresh(rs)
    # a caller may hand over a table of named coroutines that also has entries for ids whose routine is NOT a coroutine (e.g. the
    # game's whole common-routine table): such entries mean nothing, the kind of the routine decides
    from explorerscript.ssb_converting.ssb_data_types import SsbCoroutine, SsbRoutineType

    if len(infos) % 2 == 0:
        coros = list(coros) + [SsbCoroutine(i, f"DECOY_{i}") for i, info in enumerate(infos) if info.type != SsbRoutineType.COROUTINE]
    before = K.snapshot(ops)
    ref_infos, ref_ops, ref_coros = K.fresh(rs)  # untouched copy to compare against
    r = K.guarded(lambda: SsbScriptSsbDecompiler(infos, ops, coros).convert())
    if isinstance(r, K.Raised):
        return [(f"decompile-raises:{r.sig}", r.describe(), None)]
    text, _sm = r
    out: list[tuple[str, str, Any]] = []
    fc = K.frame_changes(before, ops)
    if fc:
        out.append(("frame:input-ops-modified", fc, text))
    comp = SsbScriptSsbCompiler()
    r2 = K.guarded(lambda: comp.compile(text))
    if isinstance(r2, K.Raised):
        out.append((f"compile-raises:{r2.sig}", r2.describe(), text))
        return out
    for sym, detail in K.compare_routine_headers(ref_infos, ref_coros, comp.routine_infos, comp.named_coroutines):
        out.append((sym, detail, text))
    for sym, detail in K.compare_op_for_op(ref_ops, comp.routine_ops):
        out.append((sym, detail, text))
    return out


def input_class(rs: dict, tag: str) -> str:
    """Decidable class of the input used in signatures."""
    from gen import ssb

    f = ssb.features(rs)
    parts = []
    if tag.startswith("kw:"):
        return "opname-" + tag[3:]
    if f["alias"]:
        parts.append("alias")
    if f["coro"]:
        parts.append("coro")
    if f["cross"]:
        parts.append("cross-routine-jump")
    elif f["jumps"]:
        parts.append("jump")
    if f["multiline"]:
        parts.append("multiline-string")
    return "+".join(parts) or "plain"


def keyword_probes() -> list[tuple[str, dict]]:
    from gen import ssb

    out = []
    for name in KEYWORD_NAMES:
        sym = ssb.sym_from_classes([[("plain",), ("Return",)]], salt=1)
        sym["routines"][0]["ops"][0][0] = name
        out.append((f"kw:{name}", ssb.layout(sym, "dense")))
    return out


def odd_name_inputs() -> list[tuple[str, dict]]:
    from gen import ssb

    out = []
    for i, name in enumerate(ODD_NAMES):
        sym = ssb.sym_from_classes([[("plain",), ("jump", (0, 0))]], salt=i)
        sym["routines"][0]["ops"][0][0] = name
        out.append(("oddname", ssb.layout(sym, "words")))
    return out


def value_probes() -> list[tuple[str, dict]]:
    """Sentinel-like parameter values (the listeners use -1 / "NOT SET" as 'not set yet'): integers -1 and 0, fixed point values
    around zero, empty strings, and every position mark with x, y in {-1, -1.5, 0, 0.5, 1, 1.5}; each value alone and in second /
    last position, in a plain op and in a jump-carrying op."""
    from gen import ssb

    values: list = [-1, 0, 1, ["fixed", "-1.0"], ["fixed", "-1.5"], ["fixed", "0.0"], ["fixed", "-0.5"], ["str", ""], ["lang", [["english", ""]]], ["lang", [["english", ""], ["german", "x"]]], ["const", "_"]]
    coords = [(-1, 0), (-1, 2), (0, 0), (0, 2), (1, 0), (1, 2)]
    for xr, xo in coords:
        for yr, yo in coords:
            values.append(["pos", "m", xo, yo, xr, yr])
    values += [["pos", "", 0, 0, -1, -1], ["pos", "NOT SET", 0, 0, 0, 0]]
    out = []
    for i, v in enumerate(values):
        for params in ([v], [5, v], [v, ["str", "t"], v]):
            sym = {"routines": [dict(ssb.routine_header("GENERIC", 0), ops=[["probe", params, None], ["BranchValue", [v if isinstance(v, int) or v[0] in ("const",) else ["const", "$V"], 3, v if isinstance(v, int) else 7], [0, 0]], ["Return", [], None]])]}
            out.append(("values", ssb.layout(sym, "words")))
    return out


def _inputs(shard: int, nshards: int, tier: str, seed: int):
    from gen import ssb

    thorough = tier == "thorough"
    if shard == 0:
        yield from keyword_probes()
        yield from odd_name_inputs()
        yield from value_probes()
    yield from K.aimed_space(shard, nshards)
    yield from K.aimed_space(shard, nshards, multiline=True)
    # (b) exhaustive: all class lists over the task's alphabet up to 3 ops, over the jump-shape alphabet up to 4 (5) ops
    yield from K.enum_space((1, 2, 3), ssb.ALPHABET_TASK, shard, nshards, tag="enumT")
    if thorough:
        yield from K.enum_space((4,), ssb.ALPHABET_TASK, shard, nshards, tag="enumT")  # includes the quick tier's 4-op space
        yield from K.enum_space((5,), ("plain", "branch", "jump", "Return"), shard, nshards, max_routines=1, tag="enumJ")
        yield from K.enum_space((3,), ssb.ALPHABET_JUMPSHAPE, shard, nshards, max_routines=3, tag="enumJ3r")
    else:
        yield from K.enum_space((4,), JUMPSHAPE_QUICK, shard, nshards, tag="enumJ")
    # (d)
    yield from K.random_space(seed, 20000 if thorough else 3000, shard, nshards, repair=False)
    yield from K.random_space(seed + 1, 4000 if thorough else 600, shard, nshards, repair=False, multiline=True)


def _worker(args):
    shard, nshards, tier, seed, payload = args
    K.quiet()
    coll = K.Collector()
    n = 0
    hashes = set()
    nontrivial = 0
    samples = []
    for tag, rs in _inputs(shard, nshards, tier, seed):
        n += 1
        h = K.short_hash(rs)
        if h not in hashes:
            hashes.add(h)
            if any(len(r["ops"]) for r in rs["routines"]) and _has_jump(rs):
                nontrivial += 1
        if len(samples) < 2 and tag.startswith("enumT3"):
            samples.append(rs)
        for symptom, detail, observed in check(rs):
            sig = f"C07:{input_class(rs, tag)}:{symptom}{K.seeded_suffix(tag)}"
            coll.add(sig, f"SsbScript round trip: {symptom} -- {detail}", rs, CONTRACT, {"detail": detail, "text": observed}, {"tag": tag})
    return {"n": n, "hashes": hashes, "nontrivial": nontrivial, "viol": coll.by_sig, "samples": samples}


def _has_jump(rs: dict) -> bool:
    from explorerscript.ssb_converting.ssb_special_ops import OPS_WITH_JUMP_TO_MEM_OFFSET

    return any(o[1] in OPS_WITH_JUMP_TO_MEM_OFFSET for r in rs["routines"] for o in r["ops"])


def run(ctx: Ctx) -> PropResult:
    res = PropResult(prop="C07", level="exploration")
    results = K.run_sharded(_worker, ctx)
    coll = K.Collector()
    hashes: set = set()
    n = 0
    samples: list = []
    for r in results:
        n += r["n"]
        hashes |= r["hashes"]
        coll.merge(r["viol"])
        samples += r["samples"]
    # distinct non-trivial = distinct inputs (by hash of the JSON routine set) that contain >= 1 jump-carrying op
    nontrivial = sum(r["nontrivial"] for r in results)  # shards partition the enumeration, hashes are disjoint across shards up to duplicates
    res.violations = coll.violations("routine-set")
    thorough = ctx.thorough
    bound = (
        "exhaustive: every op-class list with <= 3 ops over {plain, ctx, Branch*, Jump, Call, Switch, Case*, message_Switch*, CaseText, "
        "DefaultText, Return, End, Hold} and with 4 ops over {plain, Branch*, Jump, Case*, Return}"
        + (" (thorough: 4 ops over the full alphabet, 5 ops in one routine over {plain, Branch*, Jump, Return}, up to 3 routines for 3 ops)" if thorough else "")
        + " x every in-range jump target (also into the other routine) x 1-2 routines (+ alias routine); NO well-formedness filter; "
        f"plus {20000 + 4000 if thorough else 3000 + 600} seeded random lists <= 30 ops in 1-3 routines, {len(_aimed())} hand-made shapes x 15 variants, keyword-like and odd opcode names"
    )
    res.standins.append(
        StandIn(
            contract=CONTRACT,
            tier="T3",
            bound=bound,
            evaluations=n,
            distinct_nontrivial=min(nontrivial, len(hashes)),
            exhaustive=True,
            samples=samples[:3],
            notes="exhaustive only for the enumerated sub-space; random part is sampled",
        )
    )
    res.rule = (
        "inputs: gen.ssb (b) enumerated class lists instantiated with rotating concrete op kinds (all Branch*/Case*/Switch* variants, all "
        "parameter kinds: int, fixed point, constant, const string, language string, position mark), offsets strictly increasing with gaps "
        "(3 numbering schemes), (d) seeded random lists; distinct = distinct sha1 of the JSON routine set; non-trivial = contains >= 1 "
        "jump-carrying op"
    )
    res.assumptions = [
        "string parameter values are restricted to values that survive print->parse (C04 owns string escaping); multi-line values included",
        "files contain either only coroutines or none (language_spec.rst: mixing is undefined)",
        "coroutine ids delivered by the reader are the routine indices",
        "generic routines and coroutines have no target; only kind and coroutine name are compared for them",
    ]
    res.trusted_base = ["gen/ssb.py", "props/_ssb_common.py", "spec/machine.py:param_key"]
    res.functions_under_contract = [
        {"function": "SsbScriptSsbDecompiler.convert", "tier": "T3"},
        {"function": "SsbScriptSsbCompiler.compile", "tier": "T3"},
    ]
    if n == 0:
        res.self_check_failures.append("C07 contract was never evaluated")
    return res


def _aimed():
    from gen import ssb

    return ssb.aimed_shapes()


def replay(record: dict, ctx: Ctx) -> bool:
    K.quiet()
    inp = record["input"]
    rs = inp["routine_set"]
    tag = inp.get("tag", "")
    want = record["signature"]
    for symptom, _detail, _obs in check(rs):
        if f"C07:{input_class(rs, tag)}:{symptom}{K.seeded_suffix(tag)}" == want:
            return True
    return False
