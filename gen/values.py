"""Value spaces for the literal properties (C04, and as building blocks C16/C18): DESIGN.md section 3.2 "values".

Everything here is deterministic (plain enumeration or `random.Random(seed)`), JSON-able and independent of /repo
(no explorerscript import): the functions return plain Python data (str, int, tuples, dicts).  The property modules
turn them into SsbOpParam* objects.

Scopes
  strings(max_len)        all strings of length <= max_len over ALPHABET (9 characters)      quick 5 / thorough 7
  targeted_strings()      hand-picked shapes outside that scope (triple quotes, exotic line separators, ...)
  integers()              0, negatives, 15/16 bit borders, large
  int_spellings(i)        every spelling of i the grammar's INTEGER token admits (4 bases, sign, prefix case, zero padding)
  fixed_points()          (whole, fract) pairs incl. negative zero; fixed_point_floats(): k/256 as a binary reader computes
  decimal_spellings()     DECIMAL token spellings with leading / trailing zeros, '-0', '.5'
  position_marks()        (name, x_offset, y_offset, x_relative, y_relative)
  language_strings()      dict language -> string
  constants()             constant names (IDENTIFIER / VARIABLE token languages, no keywords)
"""
from __future__ import annotations

import itertools
import random
from typing import Iterator

# ----------------------------------------------------------------------------------------------------------- strings
ALPHABET = ("a", " ", "\n", "\\", "'", '"', "n", "\r", "\u2028")

#: characters str.splitlines() treats as a line boundary although they are not '\n'
EXOTIC_LINE_SEPARATORS = ("\r", "\x0b", "\x0c", "\x1c", "\x1d", "\x1e", "\x85", "\u2028", "\u2029")


def n_strings(max_len: int, alphabet: tuple = ALPHABET) -> int:
    return sum(len(alphabet) ** k for k in range(max_len + 1))


def strings(max_len: int, alphabet: tuple = ALPHABET) -> Iterator[str]:
    """All strings over `alphabet` with length <= max_len, shortest first, in a fixed order."""
    for k in range(max_len + 1):
        for tup in itertools.product(alphabet, repeat=k):
            yield "".join(tup)


def string_at(index: int, max_len: int, alphabet: tuple = ALPHABET) -> str:
    """The index-th element of strings(max_len) (random access, used for sharding)."""
    base = len(alphabet)
    k = 0
    while index >= base**k:
        index -= base**k
        k += 1
        if k > max_len:
            raise IndexError
    chars = []
    for _ in range(k):
        index, r = divmod(index, base)
        chars.append(alphabet[r])
    return "".join(reversed(chars))


def strings_range(start: int, stop: int, max_len: int, alphabet: tuple = ALPHABET) -> Iterator[str]:
    for i in range(start, stop):
        yield string_at(i, max_len, alphabet)


def targeted_strings() -> list[str]:
    """Shapes the small alphabet cannot reach or reaches only at length > bound."""
    t = [
        "",
        "Hello World",
        " Oh, wow! What a pretty sight!",
        "[CN]centred[CR]",
        "Sì",
        "日本語",
        "\U0001f600 emoji",
        # both triple-quote sequences
        "'''",
        '"""',
        "'''\"\"\"",
        "a'''b\nc",
        'a"""b\nc',
        "a'''b\"\"\"c",
        "a'''\"\"\"\nb",
        "a'''\"\"\"\n\\",
        "'''\"\"\"\n\\n",
        "'''\"\"\"\n\\'",
        '\'\'\'"""\n\\"',
        "x''''y\nz",
        'x""""y\nz',
        "ends with quote'\nb",
        'ends with dquote"\nb',
        "a\nb'",
        'a\nb"',
        "a\nb''",
        'a\nb""',
        # backslashes
        "\\",
        "a\\",
        "\\\\",
        "a\\\nb",
        "a\nb\\",
        "\\n",
        "a\\nb",
        "a\\\\nb",
        "\\'",
        '\\"',
        "a\\'b",
        'a\\"b',
        "\\a",
        "C:\\new\\table",
        "a\\nb\nc",
        # leading / trailing blanks and newlines
        " a",
        "a ",
        "  a  ",
        "\na",
        "a\n",
        "\n",
        "\n\n",
        "a\n\n",
        "\n\na",
        "a\n\nb",
        " a\n b",
        "  a\n  b\n  c",
        "  a\n b",
        " a\nb",
        "a\n b",
        "a\n ",
        "a\n  \nb",
        " \na",
        "a\n \n",
        "\ta\n\tb",
        "a\tb",
        "a\n\tb",
        "   ",
        " \n ",
    ]
    # exotic line separators, alone, in a one-line value and in a multi-line value
    for sep in EXOTIC_LINE_SEPARATORS:
        t += [sep, f"a{sep}b", f"a{sep}b\nc", f"a\nb{sep}", f"{sep}a\nb", f"a\n{sep}\nb"]
    t += ["a\r\nb", "a\r\nb\nc", "a\n\rb"]
    seen = set()
    out = []
    for s in t:
        if s not in seen:
            seen.add(s)
            out.append(s)
    return out


_RANDOM_POOL = (
    list("ab nN0\\'\"\n\n  ")
    + ["\t", "\r", "\x0b", "\x0c", "\x1c", "\x85", "\u2028", "\u2029", "'''", '"""', "\\n", "\\\\", "é", "日", "\U0001f600", "[", "]", "{", "}", ",", "/*", "//", "*/"]
)


def random_strings(rng: random.Random, n: int, max_len: int = 24) -> list[str]:
    """Seeded random strings over a pool biased towards quotes, backslashes, blanks and line separators."""
    out = []
    for _ in range(n):
        k = rng.randint(0, max_len)
        out.append("".join(rng.choice(_RANDOM_POOL) for _ in range(k)))
    return out


# ---------------------------------------------------------------------------------------------------------- integers
def integers() -> list[int]:
    vals = [0, 1, 2, 3, 4, 7, 8, 9, 10, 15, 16, 17, 31, 64, 100, 255, 256, 0x3FFF, 0x4000, 0x7FFF, 0x8000, 0xFFFF, 0x10000,
            2**31 - 1, 2**31, 2**32, 2**63, 2**64 + 1, 10**30]
    out = []
    for v in vals:
        out.append(v)
        if v:
            out.append(-v)
    return out


def int_spellings(i: int) -> list[tuple[str, str]]:
    """(spelling, kind) for every way the INTEGER token can spell i.

    Grammar (SsbCommon.g4): DECIMAL_INTEGER '-'? [1-9][0-9]* | '-'? '0'+ ; OCT '-'? '0'[oO][0-7]+ ; HEX '-'? '0'[xX][0-9a-fA-F]+ ;
    BIN '-'? '0'[bB][01]+.  No legacy octal ('017' is not one token), no '+' sign, no underscores.  Zero padding is possible
    after the base prefix and, for the value 0 only, in base 10 ('000').  '-0' is a spelling of 0.
    """
    sign = "-" if i < 0 else ""
    a = abs(i)
    out = [(f"{sign}{a}", "dec")]
    if a == 0:
        out += [("00", "dec-zeros"), ("0000", "dec-zeros"), ("-0", "dec-negzero"), ("-000", "dec-negzero")]
    signs = [sign] if a else ["", "-"]
    for s in signs:
        out += [
            (f"{s}0x{a:x}", "hex"),
            (f"{s}0X{a:X}", "hex"),
            (f"{s}0x{a:X}", "hex"),
            (f"{s}0x00{a:x}", "hex-padded"),
            (f"{s}0o{a:o}", "oct"),
            (f"{s}0O{a:o}", "oct"),
            (f"{s}0o00{a:o}", "oct-padded"),
            (f"{s}0b{a:b}", "bin"),
            (f"{s}0B{a:b}", "bin"),
            (f"{s}0b00{a:b}", "bin-padded"),
        ]
    seen = set()
    res = []
    for sp, kind in out:
        if sp not in seen:
            seen.add(sp)
            res.append((sp, kind))
    return res


# ------------------------------------------------------------------------------------------------------- fixed point
NEGATIVE_ZERO = "-0"  # marker for the whole part of a negative number in (-1, 0]


def fixed_points() -> list[tuple[object, str]]:
    """(whole, fract): whole is an int or NEGATIVE_ZERO; fract a non-empty digit string (what SsbOpParamFixedPoint's
    constructor takes).  Empty fractions are left out: it is not known that a binary reader builds them."""
    wholes: list[object] = [0, NEGATIVE_ZERO, 1, -1, 5, -5, 12, -12, 63, -64, 127, -128, 1000, -1000, 10**12]
    fracts = ["0", "5", "50", "05", "005", "500", "25", "12", "34", "0034", "996", "99609375", "00390625", "000", "10", "1"]
    return [(w, f) for w in wholes for f in fracts]


def fixed_point_floats() -> list[float]:
    """k/256 for every 16 bit two's complement k: the values an 8.8 fixed point reader computes (exact binary floats)."""
    return [k / 256 for k in range(-32768, 32768)]


def decimal_spellings() -> list[str]:
    """Spellings of the DECIMAL token: '-'? DIGIT+ '.' DIGIT+ | '-'? '.' DIGIT+ ."""
    wholes = ["", "0", "00", "000000", "1", "01", "001", "12", "0012", "10", "010", "100", "63", "64", "007", "1000000"]
    fracts = ["0", "00", "5", "50", "500", "05", "005", "0050", "12", "120", "0034", "00340", "996", "10", "1", "9", "000"]
    out = []
    for sign in ("", "-"):
        for w in wholes:
            for f in fracts:
                out.append(f"{sign}{w}.{f}")
    return out


# ---------------------------------------------------------------------------------------------------- position marks
def position_mark_names(thorough: bool = False) -> list[tuple[str, str]]:
    """(name, class).  'plain' names need no escaping; the others probe the unescaped '{name}' print."""
    names = [
        ("", "plain"),
        ("m0", "plain"),
        ("Name", "plain"),
        ("with space", "plain"),
        ('dq"inside', "plain"),
        ("Sì 日", "plain"),
        ("it's", "single-quote"),
        ("back\\slash", "backslash"),
        ("trailing\\", "trailing-backslash"),
        ("a\\nb", "backslash-n"),
        ("a\nb", "newline"),
        ("a>b", "plain"),
        ("a,b", "plain"),
    ]
    return names


def position_marks(thorough: bool = False) -> list[tuple[str, int, int, int, int]]:
    """(name, x_offset, y_offset, x_relative, y_relative)."""
    offsets = [0, 2, 4, 1, 3]
    rel = [0, 1, -1, 20, -123, 456, 32767, -32768] if thorough else [0, 1, -1, 20, -123]
    out = []
    # all offset pairs x a few coordinates, plain name
    for xo in offsets:
        for yo in offsets:
            for xr, yr in [(0, 0), (10, 20), (-1, -2)] + ([(r, -r) for r in rel] if thorough else []):
                out.append(("m", xo, yo, xr, yr))
    # all coordinates x regular offsets
    for xr in rel:
        for yr in rel:
            for xo, yo in ((0, 0), (2, 0), (0, 2), (2, 2)):
                out.append(("m", xo, yo, xr, yr))
    # names
    for name, _cls in position_mark_names(thorough):
        out.append((name, 0, 2, 3, 4))
    seen = set()
    res = []
    for m in out:
        if m not in seen:
            seen.add(m)
            res.append(m)
    return res


# -------------------------------------------------------------------------------------------------- language strings
LANGUAGES = ("english", "french", "german", "italian", "spanish", "japanese")


def language_strings(strs: list[str], rng: random.Random | None = None) -> list[dict[str, str]]:
    """One-language dicts for every given string plus multi-language dicts mixing them."""
    out: list[dict[str, str]] = [{"english": s} for s in strs]
    if strs:
        r = rng or random.Random(0)
        for k in (2, 3, 5, 6):
            for _ in range(4):
                out.append({LANGUAGES[j]: r.choice(strs) for j in range(k)})
    return out


# --------------------------------------------------------------------------------------------------------- constants
def constants() -> list[str]:
    """Names in the IDENTIFIER / VARIABLE token languages that are not keywords of either grammar."""
    return [
        "CONST",
        "ACTOR_PLAYER",
        "$SCENARIO_MAIN",
        "$a",
        "_",
        "_x1",
        "x",
        "Z9_",
        "$_",
        "$v0",
        "lowercase_name",
        "forx",  # keyword prefix
        "Positions",  # keyword prefix
        "message_SwitchTalkX",
        "actor",  # weak keyword: an IDENTIFIER for the lexer
        "DMODE_OPEN",
    ]
