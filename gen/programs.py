"""Generators of ExplorerScript programs (as spec/esast ASTs) and an independent pretty-printer to text.

Three input spaces:

* `space(tier)`  - EXHAUSTIVE enumeration of control *skeletons* up to a size bound, rendered to concrete programs.
      A skeleton is a statement tree over a leaf alphabet
          P1 (a one-op plain statement)   P2 (a plain statement that compiles to several ops)   T (return/end/hold)
          @x  jump @x  call @x            continue  break_loop (inside loops)   break (inside cases)
      and the blocks  if/elseif/else (each branch with or without `not`, 1..C conditions joined by `||`, possibly
      empty bodies), switch (cases and a default in any position, empty bodies = grouped cases / fall-through),
      forever, while, while not, for.
      size(block statement) = 1 + size of its bodies + 1 per elseif/else/case/default + 1 per additional `||`
      condition; size(leaf) = 1  (`skeleton_size`).
      A *family* (see TIERS) fixes the leaf alphabet, the allowed block kinds, the maximal number of statements per
      block (fan-out) and of branches/cases per block statement (arms), the nesting depth D and the size bound S; every
      skeleton of the family with size <= S is produced exactly once.  The families are indexable sequences (`G`), so
      the space is shardable by index modulo the number of workers.  `general` has the full alphabet at a small size;
      the focused families reach the sizes at which shape-dependent compiler defects live (a switch with three
      non-empty cases has size 7).  Families whose alphabet has `jump @x` but no label leaf get the missing `@x;`
      added in front of / behind the routine body.
      Rendering is deterministic: leaves and headers take their concrete form round-robin from pools that contain every
      condition form, switch header, case header, assignment form, argument kind, with-block / inline context,
      message switch and macro call of the language; the round-robin of program i of a family starts at phase i, so
      over a family every form appears in every position; all ops carry running numbers and are distinguishable.
  Further exhaustive families: several routines with every routine kind / aliases / coroutines / cross-routine jumps
  (`multi2`, `multi3`); `ctx` = with-blocks / inline contexts whose single statement is a jump / call / terminator /
  continue / break / break_loop, next to labels; `routine-pairs` = ALL ordered pairs of a diverse pool of routine
  bodies (`_body_pool`: ~60 bodies quick, ~250 thorough; second routine may also be `alias previous`) and
  `routine-triples` = all ordered triples of a spread of that pool (12 / 40 bodies) - state that the compiler carries
  from one routine into the next shows up there; and `forms` = every condition / switch header / case header / assignment / context form in
  every header position, macros (substitution, return, private labels, nesting).
* `random_programs(seed, n)` - seeded random programs of size <= 40 (program i depends only on (seed, i)).
* `flat_space(tier, seed)` / `flat_programs` - exactly the quantifier of property C13 (flat structured programs): exhaustive
  families (one block statement in every context, pairs / triples of items, two routines, `flat-or-counts` = every
  combination of 1..3 (4) `||` conditions per header in chains of 2..3 (4) branches followed by each kind of next item)
  and `flat-random` = seeded random flat programs (<= 6 items, chains <= 4 branches, <= 4 `||` terms, <= 4 headers).

Statically invalid skeletons (jump to an undefined label, a label defined twice, a routine consisting only of labels)
are filtered by `valid()`; they are not programs.  Programs whose label/jump graph has an op-free cycle are *not*
filtered here: the checker recognises them by `OpFreeCycle` and counts them as skipped.
"""
from __future__ import annotations

import bisect
import random
from typing import Any, Callable, Iterator, Optional

from spec import esast as A

# ======================================================================================= indexable finite spaces


class G:
    """A finite, indexable sequence of values."""

    def __len__(self) -> int:
        raise NotImplementedError

    def __getitem__(self, i: int) -> Any:
        raise NotImplementedError

    def __iter__(self) -> Iterator:
        for i in range(len(self)):
            yield self[i]


class Lit(G):
    def __init__(self, *values: Any):
        self.values = values

    def __len__(self) -> int:
        return len(self.values)

    def __getitem__(self, i: int) -> Any:
        return self.values[i]


class Alt(G):
    def __init__(self, parts: list):
        self.parts = [p for p in parts if len(p) > 0]
        self.starts = []
        n = 0
        for p in self.parts:
            self.starts.append(n)
            n += len(p)
        self.n = n

    def __len__(self) -> int:
        return self.n

    def __getitem__(self, i: int) -> Any:
        if i < 0 or i >= self.n:
            raise IndexError(i)
        k = bisect.bisect_right(self.starts, i) - 1
        return self.parts[k][i - self.starts[k]]


class Prod(G):
    def __init__(self, f: Callable, *parts: G):
        self.f = f
        self.parts = parts
        n = 1
        for p in parts:
            n *= len(p)
        self.n = n

    def __len__(self) -> int:
        return self.n

    def __getitem__(self, i: int) -> Any:
        if i < 0 or i >= self.n:
            raise IndexError(i)
        vals = []
        for p in reversed(self.parts):
            i, r = divmod(i, len(p))
            vals.append(p[r])
        vals.reverse()
        return self.f(*vals)


EMPTY = Lit()


# ======================================================================================= skeleton grammar
class Skeletons:
    """Skeleton grammar with memoised sub-spaces.  labels: label names usable in @x / jump @x / call @x leaves."""

    def __init__(
        self,
        fanout: int,
        max_conds: int,
        labels: tuple = (),
        leaves: Optional[tuple] = None,
        kinds: tuple = ("if", "switch", "forever", "while", "whilenot", "for"),
        arms: Optional[int] = None,
        loop_ctrl: tuple = (("continue",), ("break_loop",)),
        case_ctrl: tuple = (("break",),),
    ):
        """fanout: max statements per block; arms: max if-branches / cases per block statement (default: fanout);
        leaves: the context-free leaf alphabet (default: P1 P2 T and @x / jump @x / call @x for every label);
        kinds: block statements allowed; loop_ctrl / case_ctrl: leaves added inside loops / cases."""
        self.F = fanout
        self.A = arms if arms is not None else fanout
        self.C = max_conds
        if leaves is None:
            leaves = (("P1",), ("P2",), ("T",))
            for name in labels:
                leaves += (("lab", name), ("jump", name), ("call", name))
        self.leaves = leaves
        self.kinds = kinds
        self.loop_ctrl = loop_ctrl
        self.case_ctrl = case_ctrl
        self.memo: dict = {}

    def _m(self, key: tuple, build: Callable) -> G:
        if key not in self.memo:
            self.memo[key] = build()
        return self.memo[key]

    # a block: <= F statements, total size exactly s
    def block(self, s: int, d: int, fl: tuple) -> G:
        return self._m(("block", s, d, fl), lambda: self._seq(s, self.F, d, fl))

    def _seq(self, s: int, k: int, d: int, fl: tuple) -> G:
        def build() -> G:
            parts: list = []
            if s == 0:
                parts.append(Lit(()))
            if k > 0:
                for s1 in range(1, s + 1):
                    parts.append(Prod(lambda a, rest: (a,) + rest, self.stmt(s1, d, fl), self._seq(s - s1, k - 1, d, fl)))
            return Alt(parts)

        return self._m(("seq", s, k, d, fl), build)

    def blocks_upto(self, s: int, d: int, fl: tuple = (False, False)) -> G:
        return Alt([self.block(i, d, fl) for i in range(0, s + 1)])

    def stmt(self, s: int, d: int, fl: tuple) -> G:
        in_loop, in_case = fl

        def build() -> G:
            parts: list = []
            if s == 1:
                leaves = list(self.leaves)
                if in_loop:
                    leaves += list(self.loop_ctrl)
                if in_case:
                    leaves += list(self.case_ctrl)
                parts.append(Lit(*leaves))
            if d > 0:
                if "if" in self.kinds:
                    parts.append(self._if(s, d, fl))
                if "switch" in self.kinds:
                    parts.append(self._switch(s, d, fl))
                for kind in ("forever", "while", "whilenot", "for"):
                    if kind in self.kinds:
                        parts.append(Prod(lambda b, kind=kind: (kind, b), self.block(s - 1, d - 1, (True, in_case))))
            return Alt(parts)

        return self._m(("stmt", s, d, fl), build)

    # if chains
    def _branch(self, s: int, d: int, fl: tuple) -> G:
        """one `if`/`elseif` branch of size s: (negated, number of conditions, body)"""

        def build() -> G:
            parts = []
            for nc in range(1, self.C + 1):
                body = s - 1 - (nc - 1)
                if body < 0:
                    continue
                for neg in (False, True):
                    parts.append(Prod(lambda b, neg=neg, nc=nc: (neg, nc, b), self.block(body, d - 1, fl)))
            return Alt(parts)

        return self._m(("branch", s, d, fl), build)

    def _if(self, s: int, d: int, fl: tuple) -> G:
        def rest(s2: int, left: int) -> G:
            def build() -> G:
                parts: list = []
                if s2 == 0:
                    parts.append(Lit(((), None)))
                if s2 >= 1:
                    parts.append(Prod(lambda b: ((), b), self.block(s2 - 1, d - 1, fl)))  # else
                if left > 0:
                    for b in range(1, s2 + 1):
                        parts.append(
                            Prod(lambda br, r: ((br,) + r[0], r[1]), self._branch(b, d, fl), rest(s2 - b, left - 1))
                        )
                return Alt(parts)

            return self._m(("ifrest", s2, left, d, fl), build)

        def build() -> G:
            parts = []
            for b in range(1, s + 1):
                parts.append(
                    Prod(lambda br, r: ("if", (br,) + r[0], r[1]), self._branch(b, d, fl), rest(s - b, self.A - 1))
                )
            return Alt(parts)

        return self._m(("if", s, d, fl), build)

    # switches: the last case needs a non-empty body (the compiler rejects a switch ending in a body-less case)
    def _switch(self, s: int, d: int, fl: tuple) -> G:
        in_loop, _ = fl
        cfl = (in_loop, True)

        def cases(s2: int, left: int, default_used: bool, prev_nonempty: bool) -> G:
            def build() -> G:
                parts: list = []
                if s2 == 0 and prev_nonempty:
                    parts.append(Lit(()))
                if left > 0:
                    for b in range(1, s2 + 1):
                        for is_default in (False, True):
                            if is_default and default_used:
                                continue
                            for body_size in (b - 1,):
                                parts.append(
                                    Prod(
                                        lambda body, r, is_default=is_default: ((is_default, body),) + r,
                                        self.block(body_size, d - 1, cfl),
                                        cases(s2 - b, left - 1, default_used or is_default, body_size > 0),
                                    )
                                )
                return Alt(parts)

            return self._m(("cases", s2, left, default_used, prev_nonempty, d, fl), build)

        return self._m(("switch", s, d, fl), lambda: Prod(lambda cs: ("switch", cs), cases(s - 1, self.A, False, True)))


# ======================================================================================= rendering
def I(n: int) -> A.Int:  # noqa: E743
    return A.Int(n)


def C(name: str) -> A.Const:
    return A.Const(name)


MENU_SWITCH_OPS = ("message_SwitchMenu", "message_SwitchMenu2")
MACROS = (
    A.Macro("mA", ("$p",), (A.Op("mopA", (C("$p"),)), A.Op("mopB", (I(7), C("$p"))))),
    A.Macro(
        "mR",
        ("$p", "$q"),
        (
            A.If((A.IfBranch(False, (A.CondOp(C("$p"), "==", I(1), False),), (A.Ctrl("return"),)),), None),
            A.Op("mopC", (C("$q"),)),
        ),
    ),
)
MACRO_BY_NAME = {m.name: m for m in MACROS}


class Renderer:
    """skeleton -> esast statements; concrete forms round-robin from the pools, all numbers running."""

    POOLS = ("opargs", "p1", "assign", "p2", "msg", "marg", "T", "cond", "swh", "caseh", "para", "casem", "casex", "wkind")

    def __init__(
        self, start: int = 0, avoid_scn_caseop: bool = True, macros: bool = True, phase: int = 0, cross_cases: bool = True
    ):
        """phase: where the round-robin of every pool starts (families pass the program index, so that over a family
        every concrete form appears in every position); cross_cases: one case header in nine is a menu case under a
        non-menu switch or the other way round"""
        self.macros = macros
        self.cross_cases = cross_cases
        self.n = start  # running number: distinguishes ops / values
        # per pool round-robin counters; different strides per pool so that the pools are not in lockstep
        self.k: dict = {p: phase * (j + 1) for j, p in enumerate(self.POOLS)} if phase else {}
        self.used_macros: set = set()
        self.avoid_scn_caseop = avoid_scn_caseop

    def num(self) -> int:
        self.n += 1
        return self.n

    def turn(self, pool: str, size: int) -> int:
        v = self.k.get(pool, 0)
        self.k[pool] = v + 1
        return v % size

    # ---- pools
    def arg(self, j: int) -> Any:
        n = self.num()
        return (
            I(n),
            C(f"CONST_{n}"),
            A.Str(f"text {n}"),
            A.Dec(f"{n}.5"),
            A.LangStr((("english", f"en {n}"), ("german", f"de {n}"))),
            A.PosMark(f"m{n}", 0, 2, n, n + 1),
            C(f"$VAR_{n}"),
            I(-n),
        )[j % 8]

    def plain_op(self) -> A.Op:
        n = self.num()
        j = self.turn("opargs", 9)
        nargs = (0, 1, 2, 1, 1, 3, 1, 1, 2)[j]
        return A.Op(f"op{n}", tuple(self.arg(j + i) for i in range(nargs)))

    def assignment(self, j: int) -> Any:
        n = self.num()
        v = C(f"$V{n}")
        return (
            A.AssignRegular(v, None, "=", I(n), False),
            A.AssignRegular(v, None, "+=", I(n), False),
            A.AssignRegular(v, None, "=", C(f"$W{n}"), True),
            A.AssignRegular(v, n % 8, "=", I(n % 2), False),
            A.AssignClear(v),
            A.AssignRegular(C("PERFORMANCE_PROGRESS_LIST"), n % 8, "=", I(1 - n % 2), False),
            A.AssignInit(v),
            A.AssignReset(None),
            A.AssignReset(v),
            A.AssignAdvLog(I(n)),
            A.AssignDungeonMode(I(n), C("DMODE_OPEN")),
            A.AssignScn(v, n, n % 3),
            A.AssignRegular(v, None, "-=", C(f"$W{n}"), True),
            A.AssignRegular(v, None, "*=", I(n), False),
            A.AssignRegular(v, None, "/=", C(f"K{n}"), False),
            A.AssignDungeonMode(C(f"DUNGEON_{n}"), I(n % 4)),
        )[j % 16]

    def p1(self) -> Any:
        j = self.turn("p1", 3)
        if j < 2:
            return self.plain_op()
        return self.assignment(self.turn("assign", 16))

    def message_switch(self, j: int) -> A.MessageSwitch:
        n = self.num()
        kind = ("message_SwitchTalk", "message_SwitchMonologue")[j % 2]
        cases = [A.Case(A.CaseVal(I(n)), (), A.Str(f"msg {n}"))]
        if j % 3 != 0:
            cases.append(A.Case(A.CaseVal(C(f"CASE_{n}")), (), A.LangStr((("english", f"lang {n}"),))))
        if j % 4 != 1:
            cases.append(A.Case(None, (), A.Str(f"default {n}")))
        return A.MessageSwitch(kind, C(f"$MV{n}"), tuple(cases))

    def p2(self) -> Any:
        j = self.turn("p2", 6 if self.macros else 4)
        if not self.macros and j == 3:
            j = 4
        n = self.num()
        if j == 0:
            return A.With(A.CtxHeader("actor", C(f"ACTOR_{n}")), self.plain_op())
        if j == 1:
            op = self.plain_op()
            return A.Op(op.name, op.args, A.CtxHeader(("object", "performer", "actor")[n % 3], I(n)))
        if j == 2:
            return self.message_switch(self.turn("msg", 12))
        if j == 3:
            self.used_macros.add("mA")
            return A.MacroCall("mA", (self.arg(self.turn("marg", 8)),))
        if j == 4:
            return A.With(A.CtxHeader(("object", "performer")[n % 2], I(n)), self.assignment(self.turn("assign", 16)))
        self.used_macros.add("mR")
        return A.MacroCall("mR", (C(f"$MP{n}"), self.arg(self.turn("marg", 8))))

    def terminator(self) -> A.Ctrl:
        return A.Ctrl(("return", "end", "hold")[self.turn("T", 3)])

    def cond(self) -> Any:
        j = self.turn("cond", 12)
        n = self.num()
        v = C(f"$C{n}")
        return (
            lambda: A.CondOp(v, "==", I(n), False),
            lambda: A.CondSpecial(False, "debug"),
            lambda: A.CondOp(v, (">", "<", ">=", "<=", "!=", "&", "^", "&<<", "TRUE", "FALSE")[n % 10], I(n), False),
            lambda: A.CondBit(False, v, n % 8),
            lambda: A.CondOp(v, ("<=", "==", ">")[n % 3], C(f"$D{n}"), True),
            lambda: A.CondScn(v, ("==", ">=", "<=", ">", "<")[n % 5], n, n % 4),
            lambda: A.CondSpecial(True, "edit"),
            lambda: A.CondBit(False, C("PERFORMANCE_PROGRESS_LIST"), n % 8),
            lambda: A.CondSpecial(False, "variation"),
            lambda: A.CondBit(True, C("PERFORMANCE_PROGRESS_LIST"), n % 8),
            # operations as conditions with the arity of the game's opcodes (the decompiler finds the jump target by the
            # parameter index of OPS_WITH_JUMP_TO_MEM_OFFSET, so other arities are not decompilable)
            lambda: A.CondOperation(A.Op("BranchSum", (I(n), C(f"X{n}"), I(n % 3))) if n % 2 else A.Op("BranchExecuteSub", (C(f"X{n}"),))),
            lambda: A.CondSpecial(True, "debug"),
        )[j]()

    def switch_header(self) -> Any:
        size = 7 if self.avoid_scn_caseop else 8
        j = self.turn("swh", size)
        n = self.num()
        return (
            lambda: A.SwVar(C(f"$S{n}")),
            lambda: A.SwRandom(I(n)),
            lambda: A.SwScn(C(f"$S{n}"), 1),
            lambda: A.SwDungeonMode(C(f"DUNGEON_{n}")),
            lambda: A.SwSector(),
            lambda: A.SwOperation(A.Op("message_Menu", (I(n),))),
            lambda: A.SwOperation(A.Op(MENU_SWITCH_OPS[n % 2], (I(n), I(n % 5)))),
            lambda: A.SwScn(C(f"$S{n}"), 0),
        )[j]()

    def case_header(self, menu_switch: bool = False) -> Any:
        """menu case headers mostly under the menu switches (message_SwitchMenu*), regular ones under the others; one
        header in nine is of the other kind (the language allows every combination)"""
        cross = self.turn("casex", 9) == 8 and self.cross_cases
        n = self.num()
        if menu_switch != cross:
            j = self.turn("casem", 3)
            return (
                lambda: A.CaseMenu(A.Str(f"menu {n}")),
                lambda: A.CaseMenu2(I(n)),
                lambda: A.CaseMenu(A.LangStr((("english", f"menu {n}"),))),
            )[j]()
        j = self.turn("caseh", 4)
        return (
            lambda: A.CaseVal(I(n)),
            lambda: A.CaseOp((">", "<", "==", "!=", "FALSE")[n % 5], I(n), False),
            lambda: A.CaseVal(C(f"CV_{n}")),
            lambda: A.CaseOp(("<=", ">=", "&")[n % 3], C(f"$CW{n}"), True),
        )[j]()

    # ---- skeleton -> statements
    def block(self, sk: tuple) -> tuple:
        return tuple(self.stmt(s) for s in sk)

    def stmt(self, s: tuple) -> Any:
        kind = s[0]
        if kind == "P1":
            return self.p1()
        if kind == "P2":
            return self.p2()
        if kind == "T":
            return self.terminator()
        if kind == "PE":
            # a plain statement that is a with-block / inline context around a flow-ending plain op: inside a context the op does not
            # end the flow of the routine, the block it stands in goes on behind it
            n = self.num()
            hdr = A.CtxHeader(("actor", "object", "performer")[n % 3], I(n) if n % 2 else C(f"CTX_{n}"))
            # (Destroy only: `JumpCommon` always leaves the routine for the decompiler's graph builder, with or without a context)
            inner = A.Op("Destroy", ())
            if (n // 4) % 2:
                return A.Op(inner.name, inner.args, hdr)
            return A.With(hdr, inner)
        if kind == "lab":
            return A.Label(s[1], self.turn("para", 5) == 4)
        if kind == "jump":
            return A.Jump(s[1])
        if kind == "call":
            return A.Call(s[1])
        if kind in ("continue", "break_loop", "break"):
            return A.Ctrl(kind)
        if kind == "if":
            branches = tuple(
                A.IfBranch(neg, tuple(self.cond() for _ in range(nc)), self.block(body)) for neg, nc, body in s[1]
            )
            return A.If(branches, self.block(s[2]) if s[2] is not None else None)
        if kind == "switch":
            header = self.switch_header()
            menu = isinstance(header, A.SwOperation) and header.op.name in MENU_SWITCH_OPS
            cases = tuple(
                A.Case(None if is_default else self.case_header(menu), self.block(body)) for is_default, body in s[1]
            )
            return A.Switch(header, cases)
        if kind == "forever":
            return A.Forever(self.block(s[1]))
        if kind == "while":
            return A.While(False, self.cond(), self.block(s[1]))
        if kind == "whilenot":
            return A.While(True, self.cond(), self.block(s[1]))
        if kind == "W":
            # with-block around one simple statement given as a leaf skeleton: jump / call / T / continue / break / ...
            n = self.num()
            kinds = ("actor", "object", "performer")
            target = I(n) if n % 2 else C(f"CTX_{n}")
            inner = self.stmt(s[1])
            if isinstance(inner, A.Op) and inner.ctx is not None:
                inner = A.Op(inner.name, inner.args)
            if not isinstance(inner, (A.Op, A.Jump, A.Call, A.Ctrl) + A.ASSIGNMENTS):
                inner = self.plain_op()
            return A.With(A.CtxHeader(kinds[self.turn("wkind", 3)], target), inner)
        if kind == "ICTX":
            op = self.plain_op()
            n = self.num()
            return A.Op(op.name, op.args, A.CtxHeader(("object", "performer", "actor")[self.turn("wkind", 3)], I(n)))
        if kind == "M":
            self.used_macros.add("mA")
            return A.MacroCall("mA", (self.arg(self.turn("marg", 8)),))
        if kind == "MR":
            self.used_macros.add("mR")
            n = self.num()
            return A.MacroCall("mR", (C(f"$MP{n}"), self.arg(self.turn("marg", 8))))
        if kind == "msg":
            return self.message_switch(self.turn("msg", 12))
        if kind == "for":
            n = self.num()
            v = C(f"$I{n}")
            init = (A.AssignRegular(v, None, "=", I(0), False), A.Op(f"init{n}", ()))[n % 2]
            incr = (A.AssignRegular(v, None, "+=", I(1), False), A.Op(f"incr{n}", (v,)))[(n // 2) % 2]
            return A.For(init, self.cond(), incr, self.block(s[1]))
        raise ValueError(s)


ROUTINE_HEADERS = (
    lambda i, n: A.Routine("def", id=i),
    lambda i, n: A.Routine("def", id=i, target_kind="actor", target=C(f"ACTOR_{n}")),
    lambda i, n: A.Routine("def", id=i, target_kind="object", target=I(n)),
    lambda i, n: A.Routine("def", id=i, target_kind="performer", target=C(f"PERF_{n}"), legacy_target=True),
    lambda i, n: A.Routine("def", id=i, target_kind="performer", target=I(n)),
    lambda i, n: A.Routine("def", id=i, target_kind="actor", target=I(n), legacy_target=True),
    lambda i, n: A.Routine("def", id=i, target_kind="object", target=C(f"OBJ_{n}"), legacy_target=True),
)


def with_body(r: A.Routine, body: Optional[tuple]) -> A.Routine:
    return A.Routine(r.kind, r.id, r.name, r.target_kind, r.target, r.legacy_target, body)


def make_program(
    bodies: list, header_variant: int = 0, coro: bool = False, rnd: Optional[Renderer] = None
) -> A.Program:
    """bodies: list of skeleton blocks (or None for an alias routine)."""
    rnd = rnd or Renderer()
    routines = []
    for i, sk in enumerate(bodies):
        if coro:
            r = A.Routine("coro", name=f"CORO_{i}_{header_variant}")
        else:
            r = ROUTINE_HEADERS[(header_variant + i) % len(ROUTINE_HEADERS) if header_variant >= 0 else 0](i, rnd.num())
        routines.append(with_body(r, None if sk is None else rnd.block(sk)))
    macros = tuple(m for m in MACROS if m.name in rnd.used_macros)
    # macros before or after the routines: both are legal, alternate
    items = macros + tuple(routines) if header_variant % 2 == 0 else tuple(routines) + macros
    return A.Program((), items)


# ======================================================================================= validity
def label_uses(program: A.Program) -> tuple:
    defs: list = []
    refs: list = []
    for r in program.routines:
        for node in A.walk(r):
            if isinstance(node, A.Label):
                defs.append(node.name)
            elif isinstance(node, (A.Jump, A.Call)):
                refs.append(node.name)
    return defs, refs


def valid(program: A.Program) -> bool:
    defs, refs = label_uses(program)
    if len(set(defs)) != len(defs):
        return False
    if any(r not in defs for r in refs):
        return False
    for r in program.routines:
        if r.body is not None and all(isinstance(s, A.Label) for s in r.body):
            return False
    return True


def has_control(program: A.Program) -> bool:
    """non-trivial: contains at least one control construct"""
    ctl = (A.If, A.Switch, A.Forever, A.While, A.For, A.Jump, A.Call, A.Label)
    return any(isinstance(n, ctl) for r in program.routines for n in A.walk(r))


# ======================================================================================= exhaustive space
J = ("jump", "x")
P1, P2, T = ("P1",), ("P2",), ("T",)
LOOPS = ("forever", "while", "whilenot", "for")

# (family name, skeleton grammar arguments, max size S, depth D, where a missing `@x;` is added: back | front | None)
TIERS = {
    "quick": [
        ("general", dict(fanout=3, max_conds=2, labels=("x",)), 3, 3, None),
        ("switch", dict(fanout=2, max_conds=1, leaves=(P1, T), kinds=("switch",), arms=3), 7, 1, None),
        ("switch-jump", dict(fanout=2, max_conds=1, leaves=(P1, T, J), kinds=("switch",), arms=3), 6, 1, "back"),
        ("if-flat", dict(fanout=2, max_conds=2, leaves=(P1, P2, T, J), kinds=("if",), arms=3), 4, 1, "back"),
        ("if-nested", dict(fanout=2, max_conds=1, leaves=(P1, J), kinds=("if",), arms=2), 4, 2, "back"),
        ("loops", dict(fanout=3, max_conds=1, leaves=(P1, T, J), kinds=("if",) + LOOPS, arms=1), 3, 2, "front"),
        ("loop-switch", dict(fanout=2, max_conds=1, leaves=(P1,), kinds=("switch", "forever", "while"), arms=2), 4, 2, None),
    ],
    "thorough": [
        ("general", dict(fanout=3, max_conds=2, labels=("x",)), 4, 3, None),
        ("switch", dict(fanout=2, max_conds=1, leaves=(P1, T), kinds=("switch",), arms=3), 8, 1, None),
        ("switch-jump", dict(fanout=2, max_conds=1, leaves=(P1, T, J), kinds=("switch",), arms=3), 7, 1, "back"),
        ("switch-jump-front", dict(fanout=2, max_conds=1, leaves=(P1, J), kinds=("switch",), arms=3), 6, 1, "front"),
        ("if-flat", dict(fanout=2, max_conds=2, leaves=(P1, P2, T, J), kinds=("if",), arms=3), 5, 1, "back"),
        ("if-flat-front", dict(fanout=2, max_conds=2, leaves=(P1, J), kinds=("if",), arms=3), 5, 1, "front"),
        ("if-nested", dict(fanout=2, max_conds=1, leaves=(P1, J), kinds=("if",), arms=2), 5, 2, "back"),
        ("loops", dict(fanout=3, max_conds=1, leaves=(P1, T, J), kinds=("if",) + LOOPS, arms=1), 4, 2, "front"),
        ("loops-back", dict(fanout=2, max_conds=1, leaves=(P1, J), kinds=("if",) + LOOPS, arms=1), 4, 2, "back"),
        ("loop-switch", dict(fanout=2, max_conds=1, leaves=(P1,), kinds=("switch", "forever", "while"), arms=2), 6, 2, None),
    ],
}


class Family:
    """an indexable family of programs: family[i] -> esast.Program or None (statically invalid skeleton)"""

    def __init__(self, name: str, space: G, build: Callable):
        self.name = name
        self.space = space
        self.build = build

    def __len__(self) -> int:
        return len(self.space)

    def __getitem__(self, i: int) -> Optional[A.Program]:
        p = self.build(self.space[i], i)
        return p if valid(p) else None


def _forms() -> list:
    """every condition / switch header / case header / assignment / context form in every header position"""
    out: list = []
    r = Renderer(avoid_scn_caseop=False)
    conds = [r.cond() for _ in range(12 * 10)]
    # extra: every operator with plain value and with value(X)
    allops = ("FALSE", "TRUE", "==", ">", "<", ">=", "<=", "!=", "&", "^", "&<<")
    for o in allops:
        conds.append(A.CondOp(C("$A"), o, I(3), False))
        conds.append(A.CondOp(I(4), o, C("$B"), True))
        conds.append(A.CondOp(C("$A"), o, C("K"), False))
    for o in ("==", "<", ">", "<=", ">="):
        conds.append(A.CondScn(C("$SCN"), o, 30, 2))
        conds.append(A.CondScn(I(3), o, 1, 0))
    for kind in ("debug", "edit", "variation"):
        conds += [A.CondSpecial(False, kind), A.CondSpecial(True, kind)]
    conds += [A.CondBit(False, I(5), 2), A.CondBit(False, C("PERFORMANCE_PROGRESS_LIST"), 0)]
    conds += [A.CondOperation(A.Op(n, (I(1), I(2)))) for n in ("Branch", "BranchBit")]
    conds += [A.CondOperation(A.Op("BranchSum", (I(1), I(2), I(3)))), A.CondOperation(A.Op("BranchExecuteSub", (I(1),)))]
    conds += [A.CondOperation(A.Op("BranchSum", (I(1),))), A.CondOperation(A.Op("BranchValue", (C("$V"), I(3), I(4))))]
    a, b, c = A.Op("a"), A.Op("b"), A.Op("c")
    for i, cd in enumerate(conds):
        pos = i % 8
        if pos == 0:
            body = (A.If((A.IfBranch(False, (cd,), (a,)),), None), b)
        elif pos == 1:
            body = (A.If((A.IfBranch(True, (cd,), (a,)),), (b,)), c)
        elif pos == 2:
            body = (A.If((A.IfBranch(False, (A.CondSpecial(False, "debug"), cd), (a,)),), None), b)
        elif pos == 3:
            body = (A.If((A.IfBranch(False, (A.CondSpecial(False, "debug"),), (a,)), A.IfBranch(i % 16 == 3, (cd,), (b,))), None), c)
        elif pos == 4:
            body = (A.While(False, cd, (a,)), b)
        elif pos == 5:
            body = (A.While(True, cd, (a,)), b)
        elif pos == 6:
            body = (A.For(A.Op("start"), cd, A.Op("step"), (a,)), b)
        else:
            body = (A.If((A.IfBranch(True, (cd, A.CondSpecial(False, "edit")), (a,)),), None), b)
        out.append(("cond", body))
    # switch headers x case headers
    headers = [
        A.SwVar(C("$V")), A.SwVar(I(3)), A.SwScn(C("$V"), 0), A.SwScn(C("$V"), 1), A.SwRandom(I(10)), A.SwRandom(C("R")),
        A.SwDungeonMode(C("D")), A.SwDungeonMode(I(2)), A.SwSector(),
        A.SwOperation(A.Op("message_SwitchMenu", (I(1), I(2)))), A.SwOperation(A.Op("ProcessSpecial", (C("P"), I(0), I(0)))),
        A.SwOperation(A.Op("anything", ())),
    ]  # fmt: skip
    chs = [A.CaseVal(I(9)), A.CaseVal(C("DMODE_OPEN")), A.CaseMenu(A.Str("Hello")), A.CaseMenu2(I(3)), A.CaseMenu2(C("M")),
           A.CaseMenu(A.LangStr((("english", "Yes"), ("french", "Oui"))))]  # fmt: skip
    for o in allops:
        chs.append(A.CaseOp(o, I(9), False))
        chs.append(A.CaseOp(o, C("$T"), True))
    for hi, h in enumerate(headers):
        for ci, ch in enumerate(chs):
            other = chs[(ci + 1 + hi) % len(chs)]
            body = (A.Switch(h, (A.Case(ch, (a, A.Ctrl("break"))), A.Case(other, (b,)), A.Case(None, (c,)))), A.Op("d"))
            out.append(("switch", body))
    # assignments, args, contexts
    r2 = Renderer()
    for j in range(16 * 3):
        out.append(("assign", (r2.assignment(j), a)))
    for o in ("=", "-=", "+=", "*=", "/="):
        out.append(("assign", (A.AssignRegular(C("$V"), None, o, I(3), False), a)))
        out.append(("assign", (A.AssignRegular(I(7), None, o, C("$W"), True), a)))
    for j in range(9 * 3):
        out.append(("op", (r2.plain_op(), a)))
    simple = [a, A.AssignRegular(C("$V"), None, "=", I(1), False), A.Ctrl("return"), A.Ctrl("end"), A.Ctrl("hold"),
              A.AssignClear(C("$V")), A.Op("x", (A.Str("s"), A.PosMark("p", 2, 0, 1, 2)))]  # fmt: skip
    for kind in ("actor", "object", "performer"):
        for t in (I(3), C("TARGET")):
            for st in simple:
                out.append(("with", (A.With(A.CtxHeader(kind, t), st), b)))
            out.append(("inline", (A.Op("x", (I(1),), A.CtxHeader(kind, t)), b)))
            out.append(("with", (A.Label("l"), a, A.With(A.CtxHeader(kind, t), A.Jump("l")))))
            out.append(("with", (A.Label("l"), a, A.With(A.CtxHeader(kind, t), A.Call("l")), b)))
    # a block whose ONLY statement is a with-block (or an op with inline context) around a flow-ending op, with another block laid
    # out behind it: the op after a context op does not end the flow of the block, the jump over the next block must stay
    cnd = A.CondOp(C("$V"), "==", I(1), False)
    cnd2 = A.CondOp(C("$W"), ">", I(2), False)
    for ki, kind in enumerate(("actor", "object", "performer")):
        hdr = A.CtxHeader(kind, I(2) if ki % 2 else C("TARGET"))
        for term in ("return", "end", "hold"):
            w = A.With(hdr, A.Ctrl(term))
            out.append(("with-only-body", (A.If((A.IfBranch(False, (cnd,), (w,)),), (b,)), c)))
            out.append(("with-only-body", (A.If((A.IfBranch(False, (cnd,), (a,)), A.IfBranch(False, (cnd2,), (w,))), (b,)), c)))
            out.append(("with-only-body", (A.If((A.IfBranch(True, (cnd,), (w,)), A.IfBranch(False, (cnd2,), (b,))), None), c)))
            out.append(("with-only-body", (A.Switch(A.SwVar(C("$V")), (A.Case(A.CaseVal(I(1)), (w,)), A.Case(A.CaseVal(I(2)), (b, A.Ctrl("break"))), A.Case(None, (c,)))), A.Op("d"))))
            out.append(("with-only-body", (A.If((A.IfBranch(False, (cnd,), (a,)),), (w,)), c)))
            out.append(("with-only-body", (A.While(False, cnd, (w,)), b)))
            out.append(("with-only-body", (A.Forever((A.If((A.IfBranch(False, (cnd,), (w,)),), (A.Ctrl("break_loop"),)), b)), c)))
    for j in range(12):
        out.append(("msg", (r2.message_switch(j), a)))
    out.append(("msg", (A.MessageSwitch("message_SwitchTalk", I(1), (A.Case(None, (), A.Str("only default")),)), a)))
    return out


def _form_programs() -> list:
    progs = []
    for i, (_, body) in enumerate(_forms()):
        hdr = ROUTINE_HEADERS[i % len(ROUTINE_HEADERS)](0, i)
        progs.append(A.Program((), (with_body(hdr, tuple(body)),)))
    # macros: substitution into every position, return inside, labels inside (two expansions), nested macro
    m1 = A.Macro("sub", ("$a", "$b"), (
        A.Op("o", (C("$a"), C("$b"), C("$c"))),
        A.AssignRegular(C("$a"), None, "=", C("$b"), False),
        A.If((A.IfBranch(False, (A.CondOp(C("$a"), ">", C("$b"), False),), (A.Ctrl("return"),)),), None),
        A.With(A.CtxHeader("actor", C("$a")), A.Op("w", (C("$b"),))),
        A.Switch(A.SwVar(C("$a")), (A.Case(A.CaseVal(C("$b")), (A.Op("c1"), A.Ctrl("break"))), A.Case(None, (A.Op("c2"),)))),
        A.Label("inner"), A.Op("l1"), A.If((A.IfBranch(False, (A.CondSpecial(False, "debug"),), (A.Jump("inner"),)),), None),
        A.MessageSwitch("message_SwitchTalk", C("$a"), (A.Case(A.CaseVal(C("$b")), (), A.Str("t")),)),
    ))  # fmt: skip
    m2 = A.Macro("outer", ("$x",), (A.Op("before", (C("$x"),)), A.MacroCall("sub", (C("$x"), I(5))), A.Op("after")))
    for args in ((I(1), I(2)), (C("$G"), A.Str("s")), (A.PosMark("p", 0, 0, 1, 1), A.Dec("1.5"))):
        progs.append(A.Program((), (m1, A.Routine("def", id=0, body=(A.MacroCall("sub", args), A.Op("z"), A.MacroCall("sub", args))))))
    # a macro WITHOUT parameters that contains jumps, expanded several times (directly and through another parameterless macro):
    # every expansion needs its own ops and parameter lists
    m0 = A.Macro("plain", (), (
        A.If((A.IfBranch(False, (A.CondSpecial(False, "debug"),), (A.Op("p1"),)),), (A.Op("p2"),)),
        A.Label("again"), A.Op("p3"), A.If((A.IfBranch(False, (A.CondOp(C("$V"), "==", I(1), False),), (A.Jump("again"),)),), None),
        A.Switch(A.SwVar(C("$V")), (A.Case(A.CaseVal(I(1)), (A.Op("c1"), A.Ctrl("break"))), A.Case(None, (A.Op("c2"),)))),
    ))  # fmt: skip
    m0b = A.Macro("plain2", (), (A.MacroCall("plain", ()), A.Op("between"), A.MacroCall("plain", ())))
    progs.append(A.Program((), (m0, A.Routine("def", id=0, body=(A.MacroCall("plain", ()), A.Op("z"), A.MacroCall("plain", ()))))))
    progs.append(A.Program((), (m0, m0b, A.Routine("def", id=0, body=(A.MacroCall("plain2", ()), A.Op("z"))), A.Routine("def", id=1, body=(A.MacroCall("plain", ()),)))))
    progs.append(A.Program((), (m1, m2, A.Routine("def", id=0, body=(A.MacroCall("outer", (C("$Q"),)), A.Op("z"))))))
    progs.append(A.Program((), (A.Routine("def", id=0, body=(A.MacroCall("outer", (I(3),)), A.Ctrl("hold"))), m2, m1)))
    # routine kinds / aliases / coroutines / cross-routine jumps
    a = A.Op("a")
    progs.append(A.Program((), (A.Routine("def", id=0, body=(a,)), A.Routine("def", id=1, body=None), A.Routine("def", id=2, body=(A.Op("b"),)))))
    progs.append(A.Program((), (A.Routine("def", id=0, target_kind="actor", target=I(2), body=(a,)),
                                A.Routine("def", id=1, target_kind="object", target=C("O"), body=None),
                                A.Routine("def", id=2, target_kind="performer", target=I(0), body=None))))  # fmt: skip
    progs.append(A.Program((), (A.Routine("coro", name="ONE", body=(a, A.Ctrl("return"))), A.Routine("coro", name="TWO", body=None),
                                A.Routine("coro", name="THREE", body=(A.Op("b"), A.Ctrl("end"))))))  # fmt: skip
    progs.append(A.Program((), (A.Routine("def", id=0, body=(a, A.Jump("far"))), A.Routine("def", id=1, body=(A.Op("b"), A.Label("far"), A.Op("c"))))))
    progs.append(A.Program((), (A.Routine("def", id=0, body=(A.Label("near"), a, A.Ctrl("return"))), A.Routine("def", id=1, body=(A.Call("near"), A.Op("c"))))))
    return progs


def _with_label(p: A.Program, where: Optional[str]) -> A.Program:
    """add the definition of a label that is used but not defined: `@x;` in front of the (first) routine body, or
    `@x; tail();` behind it"""
    if where is None:
        return p
    defs, refs = label_uses(p)
    missing = sorted(set(refs) - set(defs))
    if not missing:
        return p
    items = list(p.items)
    for k, it in enumerate(items):
        if isinstance(it, A.Routine) and it.body is not None:
            labs = tuple(A.Label(m) for m in missing)
            body = labs + it.body if where == "front" else it.body + labs + (A.Op("tail"),)
            items[k] = with_body(it, body)
            break
    return A.Program(p.imports, tuple(items))


def rename_labels(sk: Any, suffix: str) -> Any:
    """give the labels of a skeleton a routine-specific name (every pooled body only uses labels of its own)"""
    if isinstance(sk, tuple):
        if len(sk) == 2 and sk[0] in ("lab", "jump", "call") and isinstance(sk[1], str):
            return (sk[0], sk[1] + suffix)
        return tuple(rename_labels(x, suffix) for x in sk)
    return sk


def _body_pool(tier: str) -> list:
    """A diverse pool of single-routine bodies (skeleton blocks) for the routine pair / triple families: bodies that
    START with a jump / call to a label at their own end or middle, bodies that END in an if / switch / loop block, in
    labels, in a flow-ending op, with-blocks around jump / call / return / continue / break, inline contexts, macro
    calls (with and without `return` inside), message switches.  State that the compiler carries from one routine into
    the next must show up in some ordered pair."""
    L, Jl, Cl = ("lab", "l"), ("jump", "l"), ("call", "l")
    M, MR, MSG, IC = ("M",), ("MR",), ("msg",), ("ICTX",)
    W = lambda x: ("W", x)  # noqa: E731
    brk, cont, bl = ("break",), ("continue",), ("break_loop",)

    def iff(body: tuple, neg: bool = False, nc: int = 1) -> tuple:
        return ("if", ((neg, nc, body),), None)

    def ifelse(b1: tuple, b2: tuple, neg: bool = False) -> tuple:
        return ("if", ((neg, 1, b1),), b2)

    def sw(*cases: tuple) -> tuple:
        return ("switch", tuple(cases))

    case, dflt = (lambda *b: (False, b)), (lambda *b: (True, b))
    pool = [
        # start with a jump / call to a label at the own end or middle
        (Jl, P1, L), (Jl, P1, L, P1), (Cl, P1, L), (Cl, P1, T, L, P1), (Jl, L), (P1, Jl, P1, L), (L, P1, Jl),
        (Jl, iff((P1,)), L), (Jl, P1, L, T), (Cl, L), 
        # end in an if / switch / loop block
        (iff((P1,)),), (iff((P1,), True),), (ifelse((P1,), (P1,)),), (iff((T,)),), (ifelse((), (T,)),), (iff(()),),
        (P1, ("if", ((False, 1, (P1,)), (True, 1, (P1,))), None)), 
        (sw(case(P1, brk), case(P1)),), (sw(case(brk)),), (sw(dflt(P1)),), (sw(case(P1), dflt(brk), case(P1)),), (sw(),),
        
        (("forever", (P1,)),), (("forever", (P1, iff((bl,)))),), (("while", (P1,)),), (("whilenot", (P1,)),), (("for", (P1,)),),
        (("while", (bl,)),), (("whilenot", ()),), 
        # end in labels
        (P1, L), (iff((Jl,)), P1, L), (iff((Jl,), True), P1, L), (T, L), (P1, L, ("lab", "m")), 
        (sw(case(P1), case(Jl)), P1, L), 
        # end in a flow-ending op / plain
        (P1,), (T,), (P1, T), (P1, T, P1), (ifelse((T,), (T,)),), (P2,), 
        # with-blocks and inline contexts around jump / call / return / loop and case control
        (W(Jl), L, P1), (W(Jl), P1, L), (W(Jl), L), (W(Cl), L, P1), (W(T),), (P1, W(T), P1), (IC,), (P1, IC),
        (("forever", (P1, W(cont))),), (("forever", (P1, W(bl))),), (sw(case(W(brk)), case(P1)), P1), (iff((W(Jl),)), L, P1),
        (P1, W(Jl), L), 
        # macro calls, message switches
        (M,), (MR,), (M, P1), (iff((MR,)),), (MR, L), (MSG,), (P1, MSG), 
    ]
    if tier == "thorough":
        pool += [
            (Jl, P1, P1, L, ("lab", "m")),
            (Jl, T, L),
            (iff((P1,), False, 2),),
            (iff((T,), True),),
            (sw(case(P1, brk), dflt(T)),),
            (P1, sw(case(), case(P1, brk))),
            (("forever", (P1, iff((cont,), True), P1)),),
            (P1, ("whilenot", (P1, T))),
            (iff((Jl,), False, 2), T, L, P1),
            (("forever", (P1, iff((Jl,)))), L),
            (P2, T),
            (W(P1),),
            (iff((W(T),)),),
            (Jl, M, L),
            (iff((M,), True),),
        ]
        # plus small blocks over a focused alphabet (fixed stride)
        sk = Skeletons(2, 1, leaves=(P1, T, Jl, Cl, L, W(Jl), W(T)), kinds=("if", "switch", "forever", "whilenot"), arms=2,
                       loop_ctrl=(cont, bl, W(bl)), case_ctrl=(brk, W(brk)))  # fmt: skip
        extra = Alt([sk.block(2, 1, (False, False)), sk.block(3, 1, (False, False))])
        seen = set(pool)
        for i in range(0, len(extra), max(1, len(extra) // 300)):
            b = extra[i]
            if b not in seen:
                seen.add(b)
                pool.append(b)
    # only bodies that are valid on their own
    out = []
    for b in pool:
        if valid(make_program([b])):
            out.append(b)
    return out


def space(tier: str) -> list:
    """list of Family for the tier"""
    fams = []
    for name, kw, S, D, where in TIERS[tier]:
        sk = Skeletons(**kw)

        def single(block: tuple, i: int, where: Optional[str] = where) -> A.Program:
            return _with_label(make_program([block], header_variant=-1, rnd=Renderer(phase=i)), where)

        fams.append(Family(name, sk.blocks_upto(S, D), single))

    # several routines, every routine kind, aliases, coroutines; labels may be used across routines
    small = Skeletons(2, 1, leaves=(P1, T, ("lab", "x"), ("jump", "x"), ("call", "x")), kinds=("if",), arms=1)
    one = Alt([small.block(s, 0, (False, False)) for s in range(1, 3)])
    with_alias = Alt([one, Lit(None)])

    def multi(bodies: tuple, i: int) -> A.Program:
        return make_program(list(bodies), header_variant=i % 14, coro=(i % 5 == 4), rnd=Renderer(phase=i))

    fams.append(Family("multi2", Prod(lambda x, y: (x, y), one, with_alias), multi))
    three = Prod(lambda x, y, z: (x, y, z), one, with_alias, one)
    if tier == "thorough":
        fams.append(Family("multi3", three, multi))
    else:
        stride = 17
        fams.append(Family("multi3-sample", Prod(lambda i: three[i * stride], Lit(*range(len(three) // stride))), multi))
    # with-blocks / inline contexts whose single statement is a jump / call / terminator / loop or case control,
    # next to labels (a jump inside a with-block to the label right behind it)
    W = lambda x: ("W", x)  # noqa: E731
    ctx = Skeletons(3, 1, leaves=(P1, W(J), W(("call", "x")), W(T), ("ICTX",), ("lab", "x")), kinds=("if", "switch", "forever"),
                    arms=2, loop_ctrl=(W(("continue",)), W(("break_loop",))), case_ctrl=(W(("break",)), ("break",)))  # fmt: skip

    def ctx_single(block: tuple, i: int) -> A.Program:
        return _with_label(make_program([block], header_variant=-1, rnd=Renderer(phase=i)), ("back", "front")[i % 2])

    fams.append(Family("ctx", ctx.blocks_upto(3 if tier == "quick" else 4, 1 if tier == "quick" else 2), ctx_single))

    # all ordered pairs (and triples of a smaller pool) of a pool of routine bodies: state carried between routines
    pool = _body_pool(tier)
    bodies = Lit(*pool)
    later = Lit(*(pool + [None]))  # `alias previous` only behind another routine

    def tuple_of(bodies_: tuple, i: int) -> A.Program:
        renamed = [None if b is None else rename_labels(b, str(k)) for k, b in enumerate(bodies_)]
        return make_program(renamed, header_variant=(i % 7) * 2, coro=(i % 6 == 5), rnd=Renderer(phase=i))

    fams.append(Family("routine-pairs", Prod(lambda x, y: (x, y), bodies, later), tuple_of))
    n3 = 12 if tier == "quick" else 40
    # triples: a spread of the pool (fixed stride), all ordered triples of it
    sub = [pool[(k * len(pool)) // n3] for k in range(n3)]
    fams.append(Family("routine-triples", Prod(lambda x, y, z: (x, y, z), Lit(*sub), Lit(*(sub + [None])), Lit(*sub)), tuple_of))
    forms = _form_programs()
    fams.append(Family("forms", Lit(*forms), lambda p, i: p))
    return fams


# ======================================================================================= random programs
def random_program(rng: random.Random, max_size: int = 40) -> A.Program:
    budget = [rng.randint(3, max_size)]
    labels: list = []
    rnd = Renderer(start=rng.randint(0, 50))
    rnd.k = {p: rng.randint(0, 20) for p in Renderer.POOLS}

    def block(d: int, in_loop: bool, in_case: bool, maxlen: int = 5) -> tuple:
        out = []
        for _ in range(rng.randint(0, maxlen)):
            if budget[0] <= 0:
                break
            out.append(stmt(d, in_loop, in_case))
        return tuple(out)

    def stmt(d: int, in_loop: bool, in_case: bool) -> tuple:
        budget[0] -= 1
        r = rng.random()
        if d <= 0 or r < 0.45:
            choices = ["P1"] * 6 + ["P2"] * 3 + ["T", "lab", "jump", "jump", "call"]
            if in_loop:
                choices += ["continue", "break_loop"] * 2
            if in_case:
                choices += ["break"] * 4
            c = rng.choice(choices)
            if c == "lab":
                name = f"l{len(labels)}"
                labels.append(name)
                return ("lab", name)
            if c in ("jump", "call"):
                return (c, None)
            return (c,)
        if r < 0.68:
            nb = rng.randint(1, 3)
            branches = []
            for _ in range(nb):
                budget[0] -= 1
                branches.append((rng.random() < 0.4, rng.randint(1, 3), block(d - 1, in_loop, in_case, 3)))
            else_body = block(d - 1, in_loop, in_case, 3) if rng.random() < 0.5 else None
            return ("if", tuple(branches), else_body)
        if r < 0.84:
            nc = rng.randint(0, 4)
            cases = []
            default_at = rng.randint(0, nc) if rng.random() < 0.6 else -1
            for i in range(nc + (1 if default_at >= 0 else 0)):
                budget[0] -= 1
                cases.append((i == default_at, block(d - 1, in_loop, True, 3)))
            if cases and not cases[-1][1]:
                cases[-1] = (cases[-1][0], (("P1",),))
            return ("switch", tuple(cases))
        kind = rng.choice(["forever", "while", "whilenot", "for"])
        return (kind, block(d - 1, True, in_case, 4))

    nroutines = rng.choice([1, 1, 1, 2, 3])
    bodies = []
    for _ in range(nroutines):
        b = block(rng.randint(1, 4), False, False, 6)
        if not b or all(s[0] == "lab" for s in b):
            b = b + (("P1",),)
        bodies.append(b)

    # resolve jump/call targets: a random defined label, or turn the statement into a plain op
    def fix(s: Any) -> Any:
        if isinstance(s, tuple) and s and s[0] in ("jump", "call") and s[1] is None:
            return (s[0], rng.choice(labels)) if labels else ("P1",)
        if isinstance(s, tuple):
            return tuple(fix(x) for x in s)
        return s

    bodies = [fix(b) for b in bodies]
    if sum(skeleton_size(b) for b in bodies) > max_size:
        return random_program(rng, max_size)
    if rng.random() < 0.15 and nroutines > 1:
        bodies[rng.randint(1, nroutines - 1)] = None
    return make_program(bodies, header_variant=rng.randint(0, 13), coro=rng.random() < 0.15, rnd=rnd)


def skeleton_size(block: tuple) -> int:
    """size of a skeleton block as defined in the module docstring"""
    n = 0
    for s in block:
        kind = s[0]
        if kind == "if":
            n += sum(nc + skeleton_size(body) for _, nc, body in s[1])
            if s[2] is not None:
                n += 1 + skeleton_size(s[2])
        elif kind == "switch":
            n += 1 + sum(1 + skeleton_size(body) for _, body in s[1])
        elif kind in ("forever", "while", "whilenot", "for"):
            n += 1 + skeleton_size(s[1])
        else:
            n += 1
    return n


def random_programs(seed: int, n: int, max_size: int = 40) -> Iterator:
    """n seeded random programs; program i depends only on (seed, i)"""
    for i in range(n):
        yield random_indexed(seed, i, max_size)


def random_indexed(seed: int, i: int, max_size: int = 40) -> A.Program:
    rng = random.Random(f"{seed}/{i}")
    while True:
        p = random_program(rng, max_size)
        if valid(p):
            return p


# ======================================================================================= flat programs (C13)
class FlatSkeletons:
    """C13's quantifier: routines = plain statements, if/elseif/else chains and switches with break-terminated cases
    (grouped cases, default anywhere), blocks holding only plain statements, one terminator at the end.

    B: max plain statements in a block; branches: max if/elseif branches; C: max `||` conditions per branch;
    cases: max case/default headers per switch."""

    def __init__(self, B: int, branches: int, C: int, cases: int):
        self.B, self.NB, self.C, self.NC = B, branches, C, cases
        self.plain = Lit(("P1",), ("P2",))
        # block bodies: the kinds of plain statement inside a block do not matter for structuring -> P1 P2 P1 ...
        self.plain_block = Lit(*[tuple((("P1",), ("P2",))[j % 2] for j in range(k)) for k in range(0, B + 1)])

    def branch(self) -> G:
        parts = []
        for nc in range(1, self.C + 1):
            for neg in (False, True):
                parts.append(Prod(lambda b, neg=neg, nc=nc: (neg, nc, b), self.plain_block))
        return Alt(parts)

    def chain(self) -> G:
        br = self.branch()
        els = Alt([Lit(None), self.plain_block])
        parts = []
        for n in range(1, self.NB + 1):
            parts.append(Prod(lambda *xs: ("if", tuple(xs[:-1]), xs[-1]), *([br] * n + [els])))
        return Alt(parts)

    def switch(self) -> G:
        """sequences of <= NC headers (case or default, at most one default); every header either has an empty body
        (grouped with the next one) or a body `plain* break;`; the last one has a body."""
        body = Prod(lambda b: b + (("break",),), self.plain_block)

        def cases(left: int, default_used: bool) -> G:
            parts: list = []
            for is_default in (False, True):
                if is_default and default_used:
                    continue
                du = default_used or is_default
                parts.append(Prod(lambda b, d=is_default: ((d, b),), body))  # last header
                if left > 1:
                    rest = cases(left - 1, du)
                    parts.append(Prod(lambda b, r, d=is_default: ((d, b),) + r, body, rest))
                    parts.append(Prod(lambda r, d=is_default: ((d, ()),) + r, rest))
            return Alt(parts)

        return Prod(lambda cs: ("switch", cs), cases(self.NC, False))

    def item(self) -> G:
        return Alt([self.plain, self.chain(), self.switch()])

    def block_item(self) -> G:
        return Alt([self.chain(), self.switch()])


FLAT_TIERS = {
    # full: block statements alone in a routine (with / without a plain statement before / after);
    # pair: two items in a row from a smaller item set; routines: two routines with one block statement each
    "quick": dict(full=dict(B=1, branches=3, C=2, cases=3), pair=dict(B=1, branches=2, C=1, cases=2),
                  routines=dict(B=1, branches=2, C=1, cases=2), contexts=3, triple=None, or_counts=(3, 3), random=3000),
    "thorough": dict(full=dict(B=2, branches=3, C=2, cases=4), pair=dict(B=1, branches=2, C=2, cases=3),
                     routines=dict(B=1, branches=2, C=1, cases=2), contexts=4, triple=dict(B=1, branches=2, C=1, cases=2),
                     or_counts=(4, 4), random=50000),
}  # fmt: skip
_T = (("T",),)


def flat_space(tier: str, seed: int = 0) -> list:
    t = FLAT_TIERS[tier]
    fams = []

    def single(block: tuple, i: int) -> A.Program:
        return make_program([block], header_variant=(i % 7) * 2, rnd=Renderer(macros=False, avoid_scn_caseop=False, phase=i))

    full = FlatSkeletons(**t["full"]).block_item()
    contexts = [lambda it: (it,) + _T, lambda it: (("P1",), it) + _T, lambda it: (it, ("P2",)) + _T,
                lambda it: (("P2",), it, ("P1",)) + _T][: t["contexts"]]  # fmt: skip
    for k, wrap in enumerate(contexts):
        fams.append(Family(f"flat-one-{k}", Prod(wrap, full), single))
    pair = FlatSkeletons(**t["pair"]).item()
    fams.append(Family("flat-pair", Prod(lambda x, y: (x, y) + _T, pair, pair), single))
    if t["triple"]:
        tr = FlatSkeletons(**t["triple"]).block_item()
        triple = Prod(lambda x, y, z: (x, y, z) + _T, tr, tr, tr)
        # every 3rd triple (fixed stride): the full product does not fit the time budget under load
        fams.append(Family("flat-triple-sample", Prod(lambda i: triple[3 * i + 1], Lit(*range(len(triple) // 3))), single))
    # plain-only routines
    plain = FlatSkeletons(1, 1, 1, 1).plain
    fams.append(Family("flat-plain", Alt([Lit(_T), Prod(lambda x: (x,) + _T, plain), Prod(lambda x, y: (x, y) + _T, plain, plain)]), single))
    rt = FlatSkeletons(**t["routines"]).block_item()

    def multi(bodies: tuple, i: int) -> A.Program:
        return make_program(
            list(bodies), header_variant=(i % 7) * 2, coro=(i % 4 == 3), rnd=Renderer(macros=False, avoid_scn_caseop=False, phase=i)
        )

    routines2 = Prod(lambda x, y: ((x,) + _T, (y,) + _T), rt, rt)
    if tier == "quick":
        fams.append(Family("flat-routines-sample", Prod(lambda i: routines2[4 * i], Lit(*range(len(routines2) // 4))), multi))
    else:
        fams.append(Family("flat-routines", routines2, multi))

    # the NUMBER of `||` conditions per if / elseif header: every combination of 1..K conditions in chains of 2..N
    # branches, with / without else, bodies all empty / all plain / alternating, no / all / alternating `not`, followed by
    # each kind of next item (the structuring passes renumber graph edges while they merge `||` headers)
    def no_cross(block: tuple, i: int) -> A.Program:
        return make_program(
            [block], header_variant=(i % 7) * 2, rnd=Renderer(macros=False, avoid_scn_caseop=False, phase=i, cross_cases=False)
        )

    fams.append(Family("flat-or-counts", Lit(*_or_count_blocks(*t["or_counts"])), no_cross))
    # blocks whose ONLY statement is a context around the flow-ending plain op Destroy, in every position of a chain
    PE, Q = ("PE",), ("P1",)
    ending = []
    for neg in (False, True):
        ending += [
            (("if", ((neg, 1, (PE,)), (False, 1, (Q,))), None), Q) + _T,
            (("if", ((neg, 1, (PE,)),), (Q,)), Q) + _T,
            (("if", ((neg, 1, (Q,)), (False, 1, (PE,))), (Q,)), Q) + _T,
            (("if", ((neg, 2, (PE,)), (neg, 1, (PE,))), (PE,)), Q) + _T,
            (Q, ("if", ((neg, 1, (Q, PE)), (False, 1, (PE, Q))), None)) + _T,
            (("switch", ((False, (PE, ("break",))), (False, (Q, ("break",))), (True, (PE, ("break",))))), Q) + _T,
        ]
    fams.append(Family("flat-context-around-ending-op", Lit(*ending), no_cross))
    # LONG routines (what the exhaustive families cannot reach): an `||` header and an if chain behind ~300 plain statements (graph
    # vertex numbers beyond the small-integer range), and an if followed by many switches (deep walks of the structuring passes)
    long_blocks = [
        tuple(Q for _ in range(300)) + (("if", ((False, 2, (Q,)),), (Q,)), ("if", ((True, 3, (Q, Q)), (False, 1, ())), None)) + _T,
        (("if", ((False, 1, (Q,)),), None),) + tuple(("switch", tuple((False, (Q, Q, ("break",))) for _ in range(8))) for _ in range(70)) + _T,
    ]
    fams.append(Family("flat-long", Lit(*long_blocks), no_cross))
    # seeded random flat programs
    n_random = t["random"]
    fams.append(
        Family("flat-random", Lit(*range(n_random)), lambda i, _i: random_flat_indexed(seed, i))
    )
    return fams


def _or_count_blocks(max_conds: int, max_branches: int) -> list:
    import itertools

    nexts = [
        (),
        (("P1",),),
        (("if", ((False, 1, (("P1",),)),), None),),
        (("if", ((False, 2, (("P1",),)),), (("P2",),)),),
        (("switch", ((False, (("P1",), ("break",))), (True, (("P2",), ("break",))))),),
        (("switch", ((False, (("P1",), ("break",))), (False, (("break",),)))),),
    ]
    out = []
    for n in range(2, max_branches + 1):
        for counts in itertools.product(range(1, max_conds + 1), repeat=n):
            for has_else in (False, True):
                for body_mode in range(3):  # all empty, all plain, alternating
                    for neg_mode in range(2 if max_conds <= 3 else 3):  # none, alternating, all
                        branches = []
                        for k, nc in enumerate(counts):
                            body = () if body_mode == 0 or (body_mode == 2 and k % 2) else ((("P1",), ("P2",))[k % 2],)
                            neg = neg_mode == 2 or (neg_mode == 1 and k % 2 == 0)
                            branches.append((neg, nc, body))
                        else_body = ((("P1",),) if body_mode else ()) if has_else else None
                        chain = ("if", tuple(branches), else_body)
                        for nx in nexts:
                            out.append((chain,) + nx + _T)
    return out


def random_flat_indexed(seed: int, i: int) -> A.Program:
    """seeded random program of C13's flat class (program i depends only on (seed, i)): 1-2 routines, up to 6 top-level
    items, chains <= 4 branches with <= 4 `||` terms, switches with <= 4 headers (grouped cases, default anywhere),
    block bodies of 0..2 plain statements, one terminator"""
    rng = random.Random(f"{seed}/flat/{i}")

    def plains(lo: int, hi: int) -> tuple:
        return tuple((("P1",), ("P2",))[rng.random() < 0.3] for _ in range(rng.randint(lo, hi)))

    def chain() -> tuple:
        branches = tuple((rng.random() < 0.35, rng.randint(1, 4), plains(0, 2)) for _ in range(rng.randint(1, 4)))
        return ("if", branches, plains(0, 2) if rng.random() < 0.5 else None)

    def switch() -> tuple:
        n = rng.randint(1, 4)
        default_at = rng.randrange(n) if rng.random() < 0.6 else -1
        cases = []
        for k in range(n):
            last = k == n - 1
            if not last and rng.random() < 0.35:
                cases.append((k == default_at, ()))  # grouped with the next header
            else:
                cases.append((k == default_at, plains(0, 2) + (("break",),)))
        return ("switch", tuple(cases))

    def routine() -> tuple:
        items = []
        for _ in range(rng.randint(1, 6)):
            r = rng.random()
            items.append(chain() if r < 0.45 else switch() if r < 0.8 else plains(1, 1)[0])
        return tuple(items) + _T

    bodies = [routine() for _ in range(1 if rng.random() < 0.85 else 2)]
    rnd = Renderer(macros=False, avoid_scn_caseop=False, phase=rng.randint(0, 10000), cross_cases=False)
    p = make_program(bodies, header_variant=rng.randint(0, 6) * 2, coro=rng.random() < 0.1, rnd=rnd)
    assert is_flat(p)
    return p


def is_flat(p: A.Program) -> bool:
    """membership in C13's quantifier (used to keep shrinking inside the class)"""
    plain = (A.Op, A.With, A.MessageSwitch) + A.ASSIGNMENTS

    def plain_block(stmts: tuple) -> bool:
        return all(isinstance(s, plain) for s in stmts)

    if p.macros or not p.routines:
        return False
    for r in p.routines:
        if r.body is None or not r.body:
            return False
        *items, last = r.body
        if not (isinstance(last, A.Ctrl) and last.kind in ("return", "end", "hold")):
            return False
        for it in items:
            if isinstance(it, plain):
                continue
            if isinstance(it, A.If):
                if not all(plain_block(br.body) for br in it.branches):
                    return False
                if it.else_body is not None and not plain_block(it.else_body):
                    return False
            elif isinstance(it, A.Switch):
                if not it.cases or sum(1 for c in it.cases if c.header is None) > 1:
                    return False
                for k, c in enumerate(it.cases):
                    if c.text is not None:
                        return False
                    if not c.body:
                        if k == len(it.cases) - 1:
                            return False
                        continue
                    *inner, brk = c.body
                    if not (isinstance(brk, A.Ctrl) and brk.kind == "break" and plain_block(tuple(inner))):
                        return False
            else:
                return False
    return True


def flat_programs(tier: str = "quick", shard: int = 0, nshards: int = 1) -> Iterator:
    """(family, index, program) for every flat program of the tier (C13's quantifier), sharded by index"""
    for fam in flat_space(tier):
        for i in range(shard, len(fam), nshards):
            p = fam[i]
            if p is not None:
                yield fam.name, i, p


def programs(tier: str = "quick", shard: int = 0, nshards: int = 1) -> Iterator:
    """(family, index, program) for every program of the exhaustive space of the tier, sharded by index"""
    for fam in space(tier):
        for i in range(shard, len(fam), nshards):
            p = fam[i]
            if p is not None:
                yield fam.name, i, p


# ======================================================================================= printer
class PrintError(Exception):
    pass


def _s(text: str) -> str:
    if "\\" in text or "\r" in text:
        raise PrintError("string value outside the printer's range")
    return '"' + text.replace('"', '\\"').replace("\n", "\\n") + '"'


def pv(v: Any) -> str:
    if isinstance(v, A.Int):
        return str(v.value)
    if isinstance(v, A.Dec):
        return v.value
    if isinstance(v, A.Const):
        return v.name
    if isinstance(v, A.Str):
        return _s(v.value)
    if isinstance(v, A.LangStr):
        return "{" + ", ".join(f"{lang}={_s(t)}" for lang, t in v.items) + "}"
    if isinstance(v, A.PosMark):
        if "'" in v.name or "\\" in v.name:
            raise PrintError("position mark name outside the printer's range")

        def coord(rel: int, off: int) -> str:
            if off not in (0, 2):
                raise PrintError("position mark offset")
            return f"{rel}.5" if off == 2 else str(rel)

        return f"Position<'{v.name}', {coord(v.x_relative, v.x_offset)}, {coord(v.y_relative, v.y_offset)}>"
    raise PrintError(repr(v))


def _op(o: A.Op) -> str:
    ctx = f"<{o.ctx.kind} {pv(o.ctx.target)}>" if o.ctx is not None else ""
    return f"{o.name}{ctx}({', '.join(pv(a) for a in o.args)})"


def _simple(s: Any) -> str:
    """a simple statement including its `;`"""
    if isinstance(s, A.Op):
        return _op(s) + ";"
    if isinstance(s, A.AssignRegular):
        idx = f"[{s.index}]" if s.index is not None else ""
        val = f"value({pv(s.value)})" if s.value_is_var else pv(s.value)
        return f"{pv(s.var)}{idx} {s.operator} {val};"
    if isinstance(s, A.AssignClear):
        return f"clear {pv(s.var)};"
    if isinstance(s, A.AssignInit):
        return f"init {pv(s.var)};"
    if isinstance(s, A.AssignReset):
        return "reset dungeon_result;" if s.scn_var is None else f"reset scn({pv(s.scn_var)});"
    if isinstance(s, A.AssignAdvLog):
        return f"adventure_log = {pv(s.value)};"
    if isinstance(s, A.AssignDungeonMode):
        return f"dungeon_mode({pv(s.dungeon)}) = {pv(s.value)};"
    if isinstance(s, A.AssignScn):
        return f"{pv(s.var)} = scn[{s.scenario}, {s.level}];"
    if isinstance(s, A.Label):
        return ("§" if s.paragraph else "@") + s.name + ";"
    if isinstance(s, A.Jump):
        return f"jump @{s.name};"
    if isinstance(s, A.Call):
        return f"call @{s.name};"
    if isinstance(s, A.Ctrl):
        return s.kind + ";"
    raise PrintError(f"not a simple statement: {s!r}")


def _cond(c: Any) -> str:
    if isinstance(c, A.CondOp):
        val = f"value({pv(c.value)})" if c.value_is_var else pv(c.value)
        return f"{pv(c.var)} {c.operator} {val}"
    if isinstance(c, A.CondBit):
        return ("not " if c.negated else "") + f"{pv(c.var)}[{c.index}]"
    if isinstance(c, A.CondSpecial):
        return ("not " if c.negated else "") + c.kind
    if isinstance(c, A.CondScn):
        return f"scn({pv(c.var)}) {c.operator} [{c.scenario}, {c.level}]"
    if isinstance(c, A.CondOperation):
        return _op(c.op)
    raise PrintError(repr(c))


def _switch_header(h: Any) -> str:
    if isinstance(h, A.SwVar):
        return pv(h.value)
    if isinstance(h, A.SwOperation):
        return _op(h.op)
    if isinstance(h, A.SwScn):
        return f"scn({pv(h.var)})[{h.index}]"
    if isinstance(h, A.SwRandom):
        return f"random({pv(h.value)})"
    if isinstance(h, A.SwDungeonMode):
        return f"dungeon_mode({pv(h.value)})"
    if isinstance(h, A.SwSector):
        return "sector()"
    raise PrintError(repr(h))


def _case_header(h: Any) -> str:
    if isinstance(h, A.CaseVal):
        return pv(h.value)
    if isinstance(h, A.CaseMenu):
        return f"menu({pv(h.text)})"
    if isinstance(h, A.CaseMenu2):
        return f"menu2({pv(h.value)})"
    if isinstance(h, A.CaseOp):
        return f"{h.operator} " + (f"value({pv(h.value)})" if h.value_is_var else pv(h.value))
    raise PrintError(repr(h))


class _Printer:
    def __init__(self) -> None:
        self.lines: list = []

    def w(self, ind: int, text: str) -> None:
        self.lines.append("    " * ind + text)

    def block(self, stmts: tuple, ind: int) -> None:
        for s in stmts:
            self.stmt(s, ind)

    def cases(self, cases: tuple, ind: int) -> None:
        for c in cases:
            self.w(ind, "default:" if c.header is None else f"case {_case_header(c.header)}:")
            if c.text is not None:
                self.w(ind + 1, pv(c.text))
            self.block(c.body, ind + 1)

    def stmt(self, s: Any, ind: int) -> None:
        if isinstance(s, A.With):
            self.w(ind, f"with ({s.ctx.kind} {pv(s.ctx.target)}) {{")
            self.w(ind + 1, _simple(s.stmt))
            self.w(ind, "}")
        elif isinstance(s, A.If):
            for i, br in enumerate(s.branches):
                kw = "if" if i == 0 else "} elseif"
                self.w(ind, f"{kw}{' not' if br.negated else ''} ({' || '.join(_cond(c) for c in br.conds)}) {{")
                self.block(br.body, ind + 1)
            if s.else_body is not None:
                self.w(ind, "} else {")
                self.block(s.else_body, ind + 1)
            self.w(ind, "}")
        elif isinstance(s, A.Switch):
            self.w(ind, f"switch ({_switch_header(s.header)}) {{")
            self.cases(s.cases, ind + 1)
            self.w(ind, "}")
        elif isinstance(s, A.MessageSwitch):
            self.w(ind, f"{s.kind} ({pv(s.value)}) {{")
            self.cases(s.cases, ind + 1)
            self.w(ind, "}")
        elif isinstance(s, A.Forever):
            self.w(ind, "forever {")
            self.block(s.body, ind + 1)
            self.w(ind, "}")
        elif isinstance(s, A.While):
            self.w(ind, f"while{' not' if s.negated else ''} ({_cond(s.cond)}) {{")
            self.block(s.body, ind + 1)
            self.w(ind, "}")
        elif isinstance(s, A.For):
            self.w(ind, f"for ({_simple(s.init)} {_cond(s.cond)}; {_simple(s.incr)}) {{")
            self.block(s.body, ind + 1)
            self.w(ind, "}")
        elif isinstance(s, A.MacroCall):
            self.w(ind, f"~{s.name}({', '.join(pv(a) for a in s.args)});")
        else:
            self.w(ind, _simple(s))

    def suite(self, body: Optional[tuple]) -> None:
        if body is None:
            self.w(1, "alias previous;")
        else:
            self.block(body, 1)
        self.w(0, "}")

    def program(self, p: A.Program) -> str:
        for imp in p.imports:
            self.w(0, f"import {_s(imp)};")
        for it in p.items:
            if isinstance(it, A.Macro):
                self.w(0, f"macro {it.name}({', '.join(it.params)}) {{")
            elif it.kind == "coro":
                self.w(0, f"coro {it.name} {{")
            elif it.target_kind is None:
                self.w(0, f"def {it.id} {{")
            elif it.legacy_target:
                self.w(0, f"def {it.id} for_{it.target_kind}({pv(it.target)}) {{")
            else:
                self.w(0, f"def {it.id} for {it.target_kind} {pv(it.target)} {{")
            self.suite(it.body)
        return "\n".join(self.lines) + "\n"


def to_text(p: A.Program) -> str:
    return _Printer().program(p)


def stmts_to_text(stmts: tuple) -> str:
    pr = _Printer()
    pr.block(stmts, 0)
    return "\n".join(pr.lines)
