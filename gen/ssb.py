"""Generators of SSB routine sets *as a binary reader delivers them* (used by C02, C06, C07, C09).

Three representations are used:

* **objects**: ``(routine_infos: list[SsbRoutineInfo], routine_ops: list[list[SsbOperation]], named_coroutines:
  list[SsbCoroutine])`` -- what the decompilers take.  Built freshly by :func:`build` for every call, because the
  decompilers mutate / share parameter lists.
* **JSON routine set** (``rs``): ``{"routines": [{"kind", "linked_to", "linked_to_name", "coro", "ops": [[offset, name,
  [param, ...]], ...]}]}`` with parameters encoded by :func:`param_to_json`.  This is what goes into violation records.
* **symbolic routine set** (``sym``): the same without offsets; a jump-carrying op has its target as ``(routine index, op
  index)`` and its parameter list does not contain the target.  All transformations work on this form; :func:`layout`
  numbers the ops (strictly increasing through the file, with optional gaps) and puts the target offset at parameter index
  ``OPS_WITH_JUMP_TO_MEM_OFFSET[name]`` (== the last index: only the documented parameter counts are generated).

Sources: (a) compiler output of generated ExplorerScript programs, renumbered; (b) exhaustive small op lists over an
alphabet of op classes x every in-range jump target; (c) re-layouts of (a); (d) seeded random lists.

`is_well_formed` is exactly the predicate of property C02.
"""
from __future__ import annotations

import itertools
import random
from typing import Any, Iterable, Iterator

from explorerscript.ssb_converting.ssb_data_types import (
    SsbCoroutine,
    SsbOpCode,
    SsbOperation,
    SsbOpParamConstant,
    SsbOpParamConstString,
    SsbOpParamFixedPoint,
    SsbOpParamLanguageString,
    SsbOpParamPositionMarker,
    SsbRoutineInfo,
    SsbRoutineType,
)
from explorerscript.ssb_converting.ssb_special_ops import (
    OPS_BRANCH,
    OPS_CTX,
    OPS_SWITCH_CASE_MAP,
    OPS_SWITCH_TEXT_CASE_MAP,
    OPS_WITH_JUMP_TO_MEM_OFFSET,
)

STOP_OPS = ("Return", "End", "Hold", "JumpCommon", "Destroy")  # flow-ending ops of the machine model (C01)
JUMP = "Jump"
CASE_OPS = ("Case", "CaseMenu", "CaseMenu2", "CaseScenario", "CaseValue", "CaseVariable")
TEXT_CASE_OPS = ("CaseText", "DefaultText")

# ------------------------------------------------------------------------------------------------ parameters <-> JSON


def param_to_json(p: Any) -> Any:
    if isinstance(p, bool):
        raise TypeError("bool parameter")
    if isinstance(p, int):
        return p
    if isinstance(p, SsbOpParamFixedPoint):
        return ["fixed", p.value]
    if isinstance(p, SsbOpParamConstant):
        return ["const", p.name]
    if isinstance(p, SsbOpParamConstString):
        return ["str", p.name]
    if isinstance(p, SsbOpParamLanguageString):
        return ["lang", [[k, v] for k, v in p.strings.items()]]
    if isinstance(p, SsbOpParamPositionMarker):
        return ["pos", p.name, p.x_offset, p.y_offset, p.x_relative, p.y_relative]
    raise TypeError(f"unknown parameter {p!r}")


def param_from_json(j: Any) -> Any:
    if isinstance(j, int):
        return j
    t = j[0]
    if t == "fixed":
        return SsbOpParamFixedPoint.from_str(j[1])
    if t == "const":
        return SsbOpParamConstant(j[1])
    if t == "str":
        return SsbOpParamConstString(j[1])
    if t == "lang":
        return SsbOpParamLanguageString({k: v for k, v in j[1]})
    if t == "pos":
        return SsbOpParamPositionMarker(j[1], j[2], j[3], j[4], j[5])
    raise ValueError(f"unknown parameter json {j!r}")


_KINDS = {
    "GENERIC": SsbRoutineType.GENERIC,
    "ACTOR": SsbRoutineType.ACTOR,
    "OBJECT": SsbRoutineType.OBJECT,
    "PERFORMER": SsbRoutineType.PERFORMER,
    "COROUTINE": SsbRoutineType.COROUTINE,
}
_KIND_NAMES = {v: k for k, v in _KINDS.items()}


def build(rs: dict) -> tuple[list[SsbRoutineInfo], list[list[SsbOperation]], list[SsbCoroutine]]:
    """Fresh objects for a JSON routine set. named_coroutines = SsbCoroutine(routine index, name) per coroutine routine
    (the binary reader's ids of coroutines are their routine indices)."""
    infos, ops, coros = [], [], []
    for ri, r in enumerate(rs["routines"]):
        infos.append(SsbRoutineInfo(_KINDS[r["kind"]], r.get("linked_to", 0), r.get("linked_to_name")))
        ops.append([SsbOperation(o[0], SsbOpCode(o[3] if len(o) > 3 else -1, o[1]), [param_from_json(p) for p in o[2]]) for o in r["ops"]])
        if r["kind"] == "COROUTINE":
            coros.append(SsbCoroutine(ri, r["coro"]))
    return infos, ops, coros


def to_json(routine_infos, routine_ops, named_coroutines) -> dict:
    """JSON routine set of objects. `named_coroutines` may be a list of SsbCoroutine (decompiler input) or the compilers'
    list indexed by routine (str, or [] for non-coroutines)."""
    names: dict[int, str] = {}
    for i, c in enumerate(named_coroutines or []):
        if isinstance(c, SsbCoroutine):
            names[c.id] = c.name
        elif isinstance(c, str):
            names[i] = c
    out = []
    for ri, (info, ops) in enumerate(zip(routine_infos, routine_ops)):
        out.append(
            {
                "kind": _KIND_NAMES.get(info.type, "INVALID") if info is not None else "MISSING",
                "linked_to": info.linked_to if info is not None else None,
                "linked_to_name": info.linked_to_name if info is not None else None,
                "coro": names.get(ri),
                "ops": [[op.offset, op.op_code.name, [param_to_json(p) for p in op.params]] for op in ops],
            }
        )
    return {"routines": out}


# ------------------------------------------------------------------------------------------------ symbolic form
# sym = {"routines": [{"kind","linked_to","linked_to_name","coro","ops":[[name, [params-without-target], target|None]]}]}
# target = [routine index, op index]


def routine_header(kind: str = "GENERIC", idx: int = 0, linked_to: int = 0, linked_to_name: str | None = None, coro: str | None = None) -> dict:
    if kind == "COROUTINE":
        return {"kind": kind, "linked_to": 0, "linked_to_name": None, "coro": coro or f"CORO_{idx}", "ops": []}
    if kind == "GENERIC":
        return {"kind": kind, "linked_to": 0, "linked_to_name": None, "coro": None, "ops": []}
    return {"kind": kind, "linked_to": linked_to, "linked_to_name": linked_to_name, "coro": None, "ops": []}


def header_variant(idx: int, variant: int) -> dict:
    """Deterministic variety of routine kinds (never coroutines: files with coroutines contain only coroutines)."""
    v = variant % 7  # every targeted kind with a numeric and with a named target
    if v == 0:
        return routine_header("GENERIC", idx)
    if v == 1:
        return routine_header("ACTOR", idx, linked_to=2 + idx)
    if v == 2:
        return routine_header("OBJECT", idx, linked_to=-1, linked_to_name=f"OBJECT_{idx}")
    if v == 3:
        return routine_header("PERFORMER", idx, linked_to=idx)
    if v == 4:
        return routine_header("ACTOR", idx, linked_to=-1, linked_to_name=f"ACTOR_N{idx}")
    if v == 5:
        return routine_header("PERFORMER", idx, linked_to=-1, linked_to_name=f"PERFORMER_{idx}")
    return routine_header("OBJECT", idx, linked_to=3 + idx)


def layout(sym: dict, scheme: str = "words", start: int = 0) -> dict:
    """Number the ops as a binary reader does: strictly increasing through the whole file.
    scheme 'dense': consecutive; 'words': an op occupies 1 + (number of parameters) words, a position mark counts 4
    (so there are gaps); 'gap3': every offset a multiple of 3 plus `start`."""
    offs: list[list[int]] = []
    cur = start
    for r in sym["routines"]:
        ro = []
        for name, params, tgt in r["ops"]:
            ro.append(cur)
            if scheme == "dense":
                cur += 1
            elif scheme == "gap3":
                cur += 3
            else:
                n = 1 + len(params) + (1 if tgt is not None else 0)
                n += sum(3 for p in params if isinstance(p, list) and p and p[0] == "pos")
                cur += n
        offs.append(ro)
    out = []
    for ri, r in enumerate(sym["routines"]):
        ops = []
        for oi, (name, params, tgt) in enumerate(r["ops"]):
            ps = list(params)
            if tgt is not None:
                idx = OPS_WITH_JUMP_TO_MEM_OFFSET[name]
                if idx != len(ps):
                    raise ValueError(f"{name}: documented parameter count is {idx} + target, got {len(ps)} + target")
                ps.insert(idx, offs[tgt[0]][tgt[1]])
            elif name in OPS_WITH_JUMP_TO_MEM_OFFSET:
                raise ValueError(f"{name} needs a target")
            ops.append([offs[ri][oi], name, ps])
        out.append({k: v for k, v in r.items() if k != "ops"} | {"ops": ops})
    return {"routines": out}


def to_sym(rs: dict, target_index: str = "table") -> dict:
    """Symbolic form of a JSON routine set. target_index 'last' for compiler output, 'table' for reader-shaped input."""
    pos: dict[int, tuple[int, int]] = {}
    for ri, r in enumerate(rs["routines"]):
        for oi, o in enumerate(r["ops"]):
            pos[o[0]] = (ri, oi)
    out = []
    for r in rs["routines"]:
        ops = []
        for off, name, params in r["ops"]:
            ps = list(params)
            tgt = None
            if name in OPS_WITH_JUMP_TO_MEM_OFFSET:
                idx = len(ps) - 1 if target_index == "last" else OPS_WITH_JUMP_TO_MEM_OFFSET[name]
                t = ps.pop(idx)
                tgt = list(pos[t])
            ops.append([name, ps, tgt])
        out.append({k: v for k, v in r.items() if k != "ops"} | {"ops": ops})
    return {"routines": out}


# ------------------------------------------------------------------------------------------------ well-formedness (C02)


def _flatten(routine_ops) -> tuple[list, dict]:
    flat = []
    for ri, r in enumerate(routine_ops):
        for oi, op in enumerate(r):
            flat.append((ri, oi, op))
    by_off = {}
    for k, (ri, oi, op) in enumerate(flat):
        by_off.setdefault(op.offset, k)
    return flat, by_off


def why_not_well_formed(routine_set) -> str | None:
    """None if the routine set satisfies C02's predicate, else the name of the first clause that fails:
    (1) offsets increase through the file as a binary reader numbers them; (2) each jump targets an op of the set;
    (3) every path ends in a flow-ending op; (4) no cycle consists of Jump ops only.

    Reading of (3): a *path* is an execution path of the machine model of C01 from the first op of a routine (taken and
    not-taken successor of Branch*/Case*/Call, the target of Jump, the next op otherwise); it must never run off the end
    of a routine.  Unreachable ops are not on any path.  A routine without ops (an alias of the previous routine) has no
    path of its own; it is allowed except as the first routine.  (4) is applied to all ops, reachable or not.
    """
    infos, routine_ops, _coros = routine_set
    if len(infos) != len(routine_ops) or not routine_ops:
        return "shape"
    if len(routine_ops[0]) == 0:
        return "first-routine-empty"
    flat, by_off = _flatten(routine_ops)
    prev = None
    for _ri, _oi, op in flat:
        if not isinstance(op.offset, int) or op.offset < 0 or (prev is not None and op.offset <= prev):
            return "offsets-not-increasing"
        prev = op.offset
    succ: list[list[int]] = []
    falls_off: list[bool] = []
    jump_only_succ: dict[int, int] = {}
    for k, (ri, oi, op) in enumerate(flat):
        name = op.op_code.name
        last = oi + 1 >= len(routine_ops[ri])
        s: list[int] = []
        off_end = False
        if name in OPS_WITH_JUMP_TO_MEM_OFFSET:
            idx = OPS_WITH_JUMP_TO_MEM_OFFSET[name]
            if idx >= len(op.params) or not isinstance(op.params[idx], int) or isinstance(op.params[idx], bool):
                return "jump-without-target"
            t = op.params[idx]
            if t not in by_off:
                return "jump-target-not-an-op"
            s.append(by_off[t])
            if name == JUMP:
                jump_only_succ[k] = by_off[t]
            else:
                if last:
                    off_end = True
                else:
                    s.append(k + 1)
        elif name in STOP_OPS:
            pass
        else:
            if last:
                off_end = True
            else:
                s.append(k + 1)
        succ.append(s)
        falls_off.append(off_end)
    # (4) no cycle of Jump ops only
    for k in jump_only_succ:
        seen = set()
        cur = k
        while cur in jump_only_succ:
            if cur in seen:
                return "jump-only-cycle"
            seen.add(cur)
            cur = jump_only_succ[cur]
    # (3) reachable ops never fall off the end
    entries = []
    k = 0
    for r in routine_ops:
        if r:
            entries.append(k)
        k += len(r)
    seen = set()
    stack = list(entries)
    while stack:
        n = stack.pop()
        if n in seen:
            continue
        seen.add(n)
        if falls_off[n]:
            return "path-runs-off-the-end"
        stack.extend(succ[n])
    return None


def is_well_formed(routine_set) -> bool:
    return why_not_well_formed(routine_set) is None


def rs_well_formed(rs: dict) -> bool:
    return is_well_formed(build(rs))


def reachable_mask(rs: dict) -> list[list[bool]]:
    """Per op: reachable from the entry of some routine under the machine model."""
    infos, routine_ops, _ = build(rs)
    flat, by_off = _flatten(routine_ops)
    idx = {(ri, oi): k for k, (ri, oi, _) in enumerate(flat)}
    seen = set()
    stack = [idx[(ri, 0)] for ri, r in enumerate(routine_ops) if r]
    while stack:
        n = stack.pop()
        if n in seen:
            continue
        seen.add(n)
        ri, oi, op = flat[n]
        name = op.op_code.name
        last = oi + 1 >= len(routine_ops[ri])
        if name in OPS_WITH_JUMP_TO_MEM_OFFSET:
            t = op.params[OPS_WITH_JUMP_TO_MEM_OFFSET[name]]
            if t in by_off:
                stack.append(by_off[t])
            if name != JUMP and not last:
                stack.append(n + 1)
        elif name not in STOP_OPS and not last:
            stack.append(n + 1)
    return [[idx[(ri, oi)] in seen for oi in range(len(r))] for ri, r in enumerate(routine_ops)]


def locally_reachable_mask(rs: dict) -> list[list[bool]]:
    """Per op: reachable from the first op of its *own* routine using only successors inside that routine."""
    pos = {o[0]: (ri, oi) for ri, r in enumerate(rs["routines"]) for oi, o in enumerate(r["ops"])}
    out = []
    for ri, r in enumerate(rs["routines"]):
        ops = r["ops"]
        seen: set[int] = set()
        stack = [0] if ops else []
        while stack:
            i = stack.pop()
            if i in seen or i >= len(ops):
                continue
            seen.add(i)
            _off, name, ps = ops[i]
            if name in OPS_WITH_JUMP_TO_MEM_OFFSET:
                t = pos.get(ps[OPS_WITH_JUMP_TO_MEM_OFFSET[name]])
                if t is not None and t[0] == ri:
                    stack.append(t[1])
                if name != JUMP:
                    stack.append(i + 1)
            elif name not in STOP_OPS:
                stack.append(i + 1)
        out.append([i in seen for i in range(len(ops))])
    return out


# ------------------------------------------------------------------------------------------------ op classes (alphabet)

ALPHABET_FULL = ("plain", "flag", "ctx", "branch", "jump", "call", "switch", "case", "msw", "casetext", "deftext", "Return", "End", "Hold")
ALPHABET_TASK = ("plain", "ctx", "branch", "jump", "call", "switch", "case", "msw", "casetext", "deftext", "Return", "End", "Hold")
ALPHABET_CORE = ("plain", "branch", "jump", "switch", "case", "Return", "End")
ALPHABET_JUMPSHAPE = ("plain", "branch", "jump", "call", "case", "Return")
JUMPING_CLASSES = ("branch", "jump", "call", "case", "casescn", "casemenu", "casemenu2", "casedm")

_CMP_OPS = (2, 3, 4, 5, 6, 7, 8, 9, 10, 0, 1)


def _s(text: str, multiline: bool) -> str:
    # (every third text gets an EMPTY line inside: the printers must indent it like the other lines, or the least-indentation rule of
    # the multi-line literal changes every other line when the text is compiled again)
    if multiline and len(text) % 5 == 1:
        # every line begins with a blank character that is not U+0020 (tab, no-break space, ideographic space): the reader's
        # least-indentation rule counts spaces only, these characters belong to the text
        lead = ("\t", "\u00a0", "\u3000")[len(text) % 3]
        return lead + text.replace(" ", "\n" + lead, 1) + "\n" + lead + "last"
    return text.replace(" ", "\n\n" if len(text) % 3 == 0 else "\n", 1) + "\nlast" if multiline else text


def plain_op(v: int, multiline: bool = False) -> list:
    """Plain operation number v: name op_<v>; parameter kinds cycle with v so that all kinds occur."""
    k = v % 8
    if k == 0:
        ps: list = []
    elif k == 1:
        ps = [v]
    elif k == 2:
        ps = [["fixed", f"{v}.5"]]
    elif k == 3:
        ps = [["const", f"CONST_{v}"]]
    elif k == 4:
        ps = [["str", _s(f"text {v}", multiline)]]
    elif k == 5:
        ps = [["lang", [["english", _s(f"hello {v}", multiline)], ["german", _s(f"hallo {v}", False)]]]]
    elif k == 6:
        # coordinates around the values the readers use as "not set yet" (-1) and the half-tile cases of negative tiles
        xs = (v, -1, 0, -2, 1, -1)
        ys = (v + 1, v, -1, -1, -3, 0)
        ps = [["pos", f"m{v}", 2 * (v % 2), 2 * ((v // 2) % 2), xs[(v // 8) % 6], ys[(v // 8) % 6]]]
    else:
        ps = [-v, ["str", _s(f"two {v}", multiline)], ["const", f"$VAR_{v}"], ["pos", f"n{v}", 0, 2, 3 if v % 16 else -1, 4], ["fixed", "-0.25"],
              ["lang", [["english", f"second {v}"]]], ["lang", [["english", f"third {v}"], ["french", "trois"]]]]
    return [f"op_{v}", ps, None]


def flag_op(v: int) -> list:
    k = v % 13
    var = ["const", f"$FLAG_{v}"]
    table = [
        ("flag_Set", [var, v]),
        ("flag_CalcValue", [var, v % 5, v]),
        ("flag_CalcVariable", [var, (v + 1) % 5, ["const", "$OTHER"]]),
        ("flag_CalcBit", [var, v % 8, v % 2]),
        ("flag_Clear", [var]),
        ("flag_Initial", [var]),
        ("flag_ResetDungeonResult", []),
        ("flag_ResetScenario", [["const", f"$SCN_{v}"]]),
        ("flag_SetAdventureLog", [v]),
        ("flag_SetDungeonMode", [v, v % 4]),
        ("flag_SetPerformance", [v, v % 2]),
        ("flag_SetScenario", [var, v % 7, v % 3]),
        ("flag_Set", [var, ["const", f"VALUE_{v}"]]),
    ]
    name, ps = table[k]
    return [name, ps, None]


def ctx_op(v: int) -> list:
    return [OPS_CTX[v % 3], [["const", f"ACTOR_{v}"] if v % 2 == 0 else v], None]


def branch_op(v: int, tgt) -> list:
    var = ["const", f"$V{v}"]
    table = [
        ("Branch", [var, v]),
        ("BranchBit", [var, v % 8]),
        ("BranchValue", [var, _CMP_OPS[v % len(_CMP_OPS)], v]),
        ("BranchDebug", [v % 2]),
        ("BranchVariable", [var, _CMP_OPS[(v + 3) % len(_CMP_OPS)], ["const", "$W"]]),
        ("BranchPerformance", [v, (v // 2) % 2]),
        ("BranchEdit", [(v + 1) % 2]),
        ("BranchScenarioNow", [["const", "$SCENARIO_MAIN"], v, v % 4]),
        ("BranchVariation", [v % 2]),
        ("BranchScenarioNowAfter", [["const", "$SCENARIO_MAIN"], v, 1]),
        ("BranchScenarioNowBefore", [["const", "$SCENARIO_SUB"], v, 2]),
        ("BranchScenarioAfter", [["const", "$SCENARIO_MAIN"], v, 3]),
        ("BranchScenarioBefore", [["const", "$SCENARIO_MAIN"], v, 0]),
        ("BranchExecuteSub", [v]),
        ("BranchSum", [var, 2, v]),
    ]
    name, ps = table[v % len(table)]
    assert OPS_BRANCH[name] == len(ps)
    return [name, ps, list(tgt)]


def switch_op(v: int) -> list:
    table = [
        ("Switch", [["const", f"$S{v}"]]),
        ("SwitchRandom", [v + 2]),
        ("SwitchScenario", [["const", "$SCENARIO_MAIN"]]),
        ("SwitchScenarioLevel", [["const", "$SCENARIO_MAIN"]]),
        ("SwitchSector", []),
        ("ProcessSpecial", [v, 0, 1]),
        ("message_Menu", [v]),
    ]
    name, ps = table[v % len(table)]
    assert name in OPS_SWITCH_CASE_MAP
    return [name, ps, None]


def case_op(v: int, tgt) -> list:
    table = [
        ("Case", [v]),
        ("CaseValue", [_CMP_OPS[v % len(_CMP_OPS)], v]),
        ("CaseVariable", [_CMP_OPS[(v + 1) % len(_CMP_OPS)], ["const", "$CV"]]),
        ("Case", [["const", f"CASE_{v}"]]),
    ]
    name, ps = table[v % len(table)]
    return [name, ps, list(tgt)]


def instantiate(cls: str, v: int, tgt=None, multiline: bool = False) -> list:
    """Concrete symbolic op of class `cls`, number v (v makes the label unique and rotates the kinds)."""
    if cls == "plain":
        return plain_op(v, multiline)
    if cls == "flag":
        return flag_op(v)
    if cls == "ctx":
        return ctx_op(v)
    if cls == "branch":
        return branch_op(v, tgt)
    if cls == "jump":
        return [JUMP, [], list(tgt)]
    if cls == "call":
        return ["Call", [], list(tgt)]
    if cls == "switch":
        return switch_op(v)
    if cls == "case":
        return case_op(v, tgt)
    if cls == "msw":
        return [("message_SwitchTalk", "message_SwitchMonologue")[v % 2], [["const", f"$MV{v}"] if v % 2 else v], None]
    if cls == "casetext":
        return ["CaseText", [v, ["str", _s(f"case {v}", multiline)] if v % 2 else ["lang", [["english", _s(f"case {v}", multiline)]]]], None]
    if cls == "deftext":
        return ["DefaultText", [["lang", [["english", _s(f"default {v}", multiline)]]] if v % 2 else ["str", _s(f"default {v}", multiline)]], None]
    if cls in ("Return", "End", "Hold"):
        return [cls, [], None]
    if cls == "swdm":
        return ["SwitchDungeonMode", [v], None]
    if cls == "casedm":
        return ["Case", [v % 4], list(tgt)]
    if cls == "swscn":
        return ["SwitchScenario", [["const", "$SCENARIO_MAIN"]], None]
    if cls == "casescn":
        return ["CaseScenario", [_CMP_OPS[v % len(_CMP_OPS)], v], list(tgt)]
    if cls == "swmenu":
        return [("message_SwitchMenu", "message_SwitchMenu2")[v % 2], [v, 1], None]
    if cls == "casemenu":
        return ["CaseMenu", [["str", _s(f"choice {v}", multiline)] if v % 2 else ["lang", [["english", _s(f"choice {v}", multiline)]]]], list(tgt)]
    if cls == "casemenu2":
        return ["CaseMenu2", [v], list(tgt)]
    if cls == "JumpCommon":
        return ["JumpCommon", [v], None]
    if cls == "Destroy":
        return ["Destroy", [], None]
    raise ValueError(cls)


def sym_from_classes(routines: list[list[tuple]], salt: int = 0, kinds: str | int = "generic", multiline: bool = False) -> dict:
    """routines: per routine a list of (class,) or (class, (r, i)). kinds: 'generic', 'coro', or an int = header variant
    seed (mix of generic/actor/object/performer with numeric and named targets)."""
    out = []
    n = 0
    for ri, r in enumerate(routines):
        if kinds == "coro":
            h = routine_header("COROUTINE", ri)
        elif kinds == "generic":
            h = routine_header("GENERIC", ri)
        else:
            h = header_variant(ri, int(kinds) + ri)
        for item in r:
            cls = item[0]
            tgt = item[1] if len(item) > 1 else None
            h["ops"].append(instantiate(cls, salt + n, tgt, multiline))
            n += 1
        out.append(h)
    return {"routines": out}


def enum_class_lists(total_ops: int, alphabet: Iterable[str], max_routines: int = 2, allow_alias: bool = True) -> Iterator[list[list[tuple]]]:
    """(b): every list of `total_ops` op classes x every assignment of in-range targets (any op of the set, also in the
    other routine) x every split into 1..max_routines consecutive routines (+ variants with an empty alias routine)."""
    alphabet = tuple(alphabet)
    for classes in itertools.product(alphabet, repeat=total_ops):
        jpos = [i for i, c in enumerate(classes) if c in JUMPING_CLASSES]
        splits: list[tuple[int, ...]] = [()]
        if max_routines >= 2:
            splits += [(s,) for s in range(1, total_ops)]
        if max_routines >= 3:
            splits += [(s, t) for s in range(1, total_ops) for t in range(s + 1, total_ops)]
        for split in splits:
            bounds = [0, *split, total_ops]

            def locate(g: int) -> tuple[int, int]:
                for ri in range(len(bounds) - 1):
                    if bounds[ri] <= g < bounds[ri + 1]:
                        return (ri, g - bounds[ri])
                raise AssertionError

            for tgts in itertools.product(range(total_ops), repeat=len(jpos)):
                tm = dict(zip(jpos, tgts))
                rts = []
                for ri in range(len(bounds) - 1):
                    rts.append([(classes[g], locate(tm[g])) if g in tm else (classes[g],) for g in range(bounds[ri], bounds[ri + 1])])
                yield rts
                if allow_alias and not split and not jpos:
                    yield [rts[0], []]  # alias routine after (only for jump-free lists: keeps the space small)


def count_class_lists(total_ops: int, alphabet: Iterable[str], max_routines: int = 2) -> int:
    return sum(1 for _ in enum_class_lists(total_ops, alphabet, max_routines))


# ------------------------------------------------------------------------------------------------ (c) re-layouts


def _blocks(ops: list, targeted: set[int]) -> list[list[int]]:
    """Basic blocks (lists of op indices) of one symbolic routine. An op after a context op, and a case op directly
    after its switch / previous case, stays glued to its predecessor unless it is itself a jump target."""
    n = len(ops)
    leaders = {0} | {t for t in targeted if t < n}
    for i, (name, _ps, _t) in enumerate(ops[:-1]):
        if name in OPS_WITH_JUMP_TO_MEM_OFFSET or name in STOP_OPS:
            nxt = ops[i + 1][0]
            glued = (name in CASE_OPS and nxt in CASE_OPS) or False
            if not glued:
                leaders.add(i + 1)
    for i in range(1, n):
        if ops[i - 1][0] in OPS_CTX and i in leaders and i not in targeted:
            leaders.discard(i)
    ls = sorted(leaders)
    return [list(range(a, b)) for a, b in zip(ls, ls[1:] + [n])]


def _targets_into(sym: dict, r: int) -> set[int]:
    out = set()
    for rt in sym["routines"]:
        for _n, _p, t in rt["ops"]:
            if t is not None and t[0] == r:
                out.add(t[1])
    return out


def _block_falls_through(ops: list, blk: list[int]) -> bool:
    name = ops[blk[-1]][0]
    return not (name == JUMP or name in STOP_OPS)


def reorder_blocks(sym: dict, r: int, order: list[int] | None = None, rng: random.Random | None = None) -> dict | None:
    """Same flow graph, other layout of routine r: blocks in `order` (a permutation of block indices; random if None),
    explicit Jumps where a fall-through no longer reaches its successor, and a leading Jump if the entry block moved."""
    ops = sym["routines"][r]["ops"]
    if not ops:
        return None
    blocks = _blocks(ops, _targets_into(sym, r))
    nb = len(blocks)
    if order is None:
        assert rng is not None
        order = list(range(nb))
        rng.shuffle(order)
    # a last block that falls off the end (unreachable code) has to stay last
    if _block_falls_through(ops, blocks[-1]) and order[-1] != nb - 1:
        order = [b for b in order if b != nb - 1] + [nb - 1]
    new_ops: list = []
    new_index: dict[int, int] = {}
    pending: list[tuple[int, int]] = []  # (position in new_ops, old target index within r)
    if order[0] != 0:
        new_ops.append([JUMP, [], ("old", 0)])
    for k, b in enumerate(order):
        blk = blocks[b]
        for i in blk:
            new_index[i] = len(new_ops)
            new_ops.append([ops[i][0], list(ops[i][1]), ops[i][2]])
        if _block_falls_through(ops, blk) and b != nb - 1:
            nxt_old = blocks[b + 1][0]
            follows = k + 1 < len(order) and order[k + 1] == b + 1
            if not follows:
                new_ops.append([JUMP, [], ("old", nxt_old)])
    out = {"routines": []}
    for ri, rt in enumerate(sym["routines"]):
        src = new_ops if ri == r else rt["ops"]
        fixed = []
        for name, ps, t in src:
            if isinstance(t, tuple) and t[0] == "old":
                t = [r, new_index[t[1]]]
            elif t is not None and t[0] == r:
                t = [r, new_index[t[1]]]
            fixed.append([name, list(ps), list(t) if t is not None else None])
        out["routines"].append({k: v for k, v in rt.items() if k != "ops"} | {"ops": fixed})
    return out


def split_routine(sym: dict, r: int, at_block: int) -> dict | None:
    """Move the blocks from `at_block` on into a new routine r+1 (cross-routine jumps arise wherever the two parts are
    connected; a fall-through across the cut becomes a Jump)."""
    ops = sym["routines"][r]["ops"]
    if not ops:
        return None
    blocks = _blocks(ops, _targets_into(sym, r))
    if not (1 <= at_block < len(blocks)):
        return None
    cut = blocks[at_block][0]
    first = [[n, list(p), t] for n, p, t in ops[:cut]]
    second = [[n, list(p), t] for n, p, t in ops[cut:]]
    if _block_falls_through(ops, blocks[at_block - 1]):
        first.append([JUMP, [], [r, cut]])
    coro = sym["routines"][r]["kind"] == "COROUTINE"

    def remap(t):
        if t is None:
            return None
        tr, ti = t
        if tr == r:
            return [r + 1, ti - cut] if ti >= cut else [r, ti]
        return [tr + 1, ti] if tr > r else [tr, ti]

    out = {"routines": []}
    for ri, rt in enumerate(sym["routines"]):
        if ri == r:
            out["routines"].append({k: v for k, v in rt.items() if k != "ops"} | {"ops": [[n, p, remap(t)] for n, p, t in first]})
            h = routine_header("COROUTINE", coro=f"SPLIT_{r}") if coro else routine_header("GENERIC")
            h["ops"] = [[n, p, remap(t)] for n, p, t in second]
            out["routines"].append(h)
        else:
            out["routines"].append({k: v for k, v in rt.items() if k != "ops"} | {"ops": [[n, list(p), remap(t)] for n, p, t in rt["ops"]]})
    return out


def insert_ops(sym: dict, r: int, at: int, new_ops: list) -> dict:
    """Insert symbolic ops before index `at` of routine r (targets of new_ops refer to the *old* numbering)."""
    k = len(new_ops)

    def remap(t):
        if t is None:
            return None
        if t[0] == r and t[1] >= at:
            return [r, t[1] + k]
        return list(t)

    out = {"routines": []}
    for ri, rt in enumerate(sym["routines"]):
        ops = [[n, list(p), remap(t)] for n, p, t in rt["ops"]]
        if ri == r:
            ops[at:at] = [[n, list(p), remap(t)] for n, p, t in new_ops]
        out["routines"].append({k2: v for k2, v in rt.items() if k2 != "ops"} | {"ops": ops})
    return out


def add_unreachable(sym: dict, r: int, variant: int) -> dict | None:
    """Insert unreachable ops after an op that never falls through (Jump / flow-ending op)."""
    ops = sym["routines"][r]["ops"]
    spots = [i + 1 for i, (n, _p, _t) in enumerate(ops) if n == JUMP or n in STOP_OPS]
    if not spots:
        return None
    at = spots[variant % len(spots)]
    v = 900 + variant
    kind = (variant // max(1, len(spots))) % 4
    if kind == 0:
        new = [plain_op(v), ["Return", [], None]]
    elif kind == 1:
        new = [plain_op(v), [JUMP, [], [r, 0]]]
    elif kind == 2:
        new = [branch_op(v, [r, max(0, at - 1)]), ["End", [], None]]
    else:
        new = [["Hold", [], None]] if at < len(ops) else [plain_op(v)]
    return insert_ops(sym, r, at, new)


def leading_jump(sym: dict, r: int) -> dict | None:
    """Routine r gets a first op `Jump` to its old first op."""
    if not sym["routines"][r]["ops"]:
        return None
    return insert_ops(sym, r, 0, [[JUMP, [], [r, 0]]])


def entry_block_last(sym: dict, r: int) -> dict | None:
    """Rotate the entry block to the end: the routine starts with a Jump over all other blocks."""
    ops = sym["routines"][r]["ops"]
    if not ops:
        return None
    nb = len(_blocks(ops, _targets_into(sym, r)))
    if nb < 2:
        return leading_jump(sym, r)
    return reorder_blocks(sym, r, list(range(1, nb)) + [0])


def relayouts(sym: dict, rng: random.Random, per_kind: int = 1) -> Iterator[tuple[str, dict]]:
    """(c): named re-layouts of a symbolic routine set."""
    nr = len(sym["routines"])
    for r in range(nr):
        ops = sym["routines"][r]["ops"]
        if not ops:
            continue
        x = leading_jump(sym, r)
        if x:
            yield "leading-jump", x
        x = entry_block_last(sym, r)
        if x:
            yield "entry-block-last", x
        nb = len(_blocks(ops, _targets_into(sym, r)))
        if nb >= 2:
            x = reorder_blocks(sym, r, list(reversed(range(nb))))
            if x:
                yield "blocks-reversed", x
            for _ in range(per_kind):
                x = reorder_blocks(sym, r, None, rng)
                if x:
                    yield "blocks-shuffled", x
            for _ in range(per_kind):
                x = split_routine(sym, r, rng.randrange(1, nb))
                if x:
                    yield "routine-split", x
        for _ in range(per_kind):
            x = add_unreachable(sym, r, rng.randrange(0, 64))
            if x:
                yield "unreachable-ops", x


# ------------------------------------------------------------------------------------------------ (d) random lists

_RANDOM_WEIGHTS = (
    ("plain", 10), ("flag", 3), ("ctx", 2), ("branch", 6), ("jump", 4), ("call", 1), ("switch", 2), ("case", 4),
    ("msw", 1), ("casetext", 2), ("deftext", 1), ("Return", 2), ("End", 1), ("Hold", 1),
)


def random_class_lists(rng: random.Random, max_ops: int = 30, max_routines: int = 3, well_formed_repair: bool = True, call_free: bool = False) -> list[list[tuple]]:
    """(d): a random class list. With `well_formed_repair` the last op of every routine is made flow-ending / a jump
    (the caller still has to filter with is_well_formed: jump-only cycles, paths into another routine's tail)."""
    names = [n for n, _w in _RANDOM_WEIGHTS if not (call_free and n == "call")]
    weights = [w for n, w in _RANDOM_WEIGHTS if not (call_free and n == "call")]
    nr = rng.randint(1, max_routines)
    total = rng.randint(nr, max_ops)
    cuts = sorted(rng.sample(range(1, total), nr - 1)) if nr > 1 else []
    bounds = [0, *cuts, total]
    sizes = [b - a for a, b in zip(bounds, bounds[1:])]
    routines: list[list[tuple]] = []
    for ri, size in enumerate(sizes):
        r: list[tuple] = []
        i = 0
        while i < size:
            cls = rng.choices(names, weights)[0]
            if cls in JUMPING_CLASSES:
                if rng.random() < 0.15 and nr > 1:
                    tr = rng.randrange(nr)
                else:
                    tr = ri
                # forward targets are more likely (compiler-like), backward ones make loops
                if tr == ri and rng.random() < 0.7:
                    ti = rng.randrange(min(i + 1, size - 1), size) if size > 1 else 0
                else:
                    ti = rng.randrange(sizes[tr])
                r.append((cls, (tr, ti)))
            elif cls == "switch" and i + 2 < size:
                r.append((cls,))
                ncase = rng.randint(1, min(3, size - i - 2))
                for _ in range(ncase):
                    r.append(("case", (ri, rng.randrange(min(i + ncase + 1, size - 1), size))))
                i += ncase
            elif cls == "msw" and i + 2 < size:
                r.append((cls,))
                ncase = rng.randint(1, min(3, size - i - 2))
                for c in range(ncase):
                    r.append(("deftext",) if c == ncase - 1 and rng.random() < 0.5 else ("casetext",))
                i += ncase
            else:
                r.append((cls,))
            i += 1
        r = r[:size]
        if well_formed_repair:
            last = r[-1][0]
            if last not in ("Return", "End", "Hold", "jump"):
                r[-1] = (rng.choice(("Return", "End", "Hold")),)
        routines.append(r)
    return routines


# ------------------------------------------------------------------------------------------------ hand-made shapes
# aimed at what the structuring passes do not handle (C06) and at the scouted suspicions (C02)


def aimed_shapes() -> list[tuple[str, list[list[tuple]]]]:
    R, E, H = ("Return",), ("End",), ("Hold",)
    pl, sw, ms, ct, dt, cx, fl = ("plain",), ("switch",), ("msw",), ("casetext",), ("deftext",), ("ctx",), ("flag",)

    def br(t, r=0):
        return ("branch", (r, t))

    def jp(t, r=0):
        return ("jump", (r, t))

    def ca(t, r=0):
        return ("case", (r, t))

    def cl(t, r=0):
        return ("call", (r, t))

    shapes: list[tuple[str, list[list[tuple]]]] = [
        # --- first op is a Jump (leading while loop as the compiler lays it out)
        ("leading-while", [[jp(2), pl, br(1), R]]),
        ("leading-while-2", [[jp(3), pl, pl, br(1), pl, E]]),
        ("leading-jump-fwd", [[jp(2), pl, pl, R]]),
        ("leading-jump-next", [[jp(1), pl, R]]),
        ("leading-jump-self-loop-body", [[jp(1), pl, jp(1)]]),
        # --- plain structures
        ("if", [[br(2), pl, pl, R]]),
        ("if-else", [[br(3), pl, jp(4), pl, pl, R]]),
        ("if-elseif-else", [[br(4), br(6), pl, jp(7), pl, jp(7), pl, pl, R]]),
        ("if-or", [[br(3), br(3), jp(4), pl, pl, R]]),
        ("forever", [[pl, jp(0)]]),
        ("forever-break", [[pl, br(3), jp(0), R]]),
        ("while-compiler", [[pl, jp(3), pl, br(2), R]]),
        ("for-compiler", [[fl, jp(4), pl, fl, br(2), R]]),
        ("switch-2", [[sw, ca(4), ca(6), pl, pl, jp(7), pl, pl, R]]),
        ("switch-fallthrough", [[sw, ca(4), ca(5), jp(6), pl, pl, pl, R]]),
        ("switch-default-fall", [[sw, ca(3), pl, pl, R]]),
        ("msw", [[ms, ct, ct, dt, pl, R]]),
        ("ctx-plain", [[cx, pl, R]]),
        ("ctx-flag", [[cx, fl, R]]),
        ("ctx-return", [[cx, R, pl, R]]),
        ("ctx-hold", [[cx, H]]),
        # --- C06 aims
        ("irreducible-loop", [[br(3), pl, jp(4), pl, br(1), R]]),          # two entries into the cycle {1..4}
        ("irreducible-loop-2", [[br(2), pl, pl, br(1), R]]),
        ("jump-into-if-block", [[br(3), br(4), R, pl, pl, R]]),
        ("jump-into-loop-body", [[br(2), pl, pl, br(1), E]]),
        ("jump-into-switch-case", [[br(5), sw, ca(5), pl, R, pl, pl, R]]),
        ("routine-only-cross-jump", [[jp(0, 1)], [pl, R]]),
        ("routine-only-cross-jump-back", [[pl, R], [jp(0, 0)]]),
        ("routine-only-cross-jump-mid", [[pl, pl, R], [jp(1, 0)]]),
        ("cross-routine-branch", [[br(0, 1), pl, R], [pl, E]]),
        ("cross-routine-shared-tail", [[pl, jp(1, 1)], [pl, pl, R]]),
        ("shared-case-bodies", [[sw, ca(4), ca(4), jp(5), pl, pl, R]]),
        ("shared-case-body-default", [[sw, ca(3), ca(3), pl, R]]),
        ("switch-without-cases", [[sw, pl, R]]),
        ("switch-without-cases-end", [[sw, R]]),
        ("case-without-switch", [[pl, ca(3), pl, pl, R]]),
        ("case-first-op", [[ca(2), pl, R]]),
        ("casetext-without-msw", [[pl, ct, R]]),
        ("deftext-without-msw", [[dt, R]]),
        ("msw-without-cases", [[ms, pl, R]]),
        ("msw-then-return", [[ms, R]]),
        ("nested-loops-multi-exit", [[pl, br(7), pl, br(6), br(2), jp(0), E, R]]),
        ("nested-loops-multi-exit-2", [[pl, pl, br(8), br(6), jp(1), H, br(0), E, R]]),
        ("loop-with-two-backedges", [[pl, br(0), pl, br(0), R]]),
        ("loop-continue", [[pl, br(0), pl, jp(0)]]),
        ("self-loop-branch", [[br(0), R]]),
        ("branch-to-next", [[br(1), R]]),
        ("branch-both-same", [[br(1), pl, R]]),
        ("ctx-jump", [[cx, jp(2), R]]),
        ("ctx-branch", [[cx, br(2), R]]),
        ("ctx-switch", [[cx, sw, ca(3), R]]),
        ("ctx-ctx", [[cx, cx, pl, R]]),
        ("ctx-msw", [[cx, ms, ct, R]]),
        ("ctx-last-reachable-target", [[br(2), R, cx, pl, E]]),
        ("call", [[cl(2), R, pl, R]]),
        ("call-cross", [[cl(0, 1), R], [pl, R]]),
        ("call-self", [[pl, cl(0), R]]),
        ("call-then-unreachable", [[cl(3), pl, R, pl, R]]),
        # a subroutine that nothing but a call leads to, stored behind the closing jump of a loop / behind a terminator, in the
        # same and in another routine (the call must be recorded as a use of the label like a jump)
        ("call-only-target-behind-loop-cross", [[pl, cl(3, 1), R], [pl, pl, jp(0, 1), pl, R]]),
        ("call-only-target-behind-loop", [[cl(4), pl, br(1), R, pl, R]]),
        ("call-only-target-behind-loop-2", [[pl, cl(4), jp(0), R, pl, R]]),
        ("call-only-target-behind-return-cross", [[cl(2, 1), E], [pl, R, pl, pl, R]]),
        ("call-only-target-in-earlier-routine", [[pl, jp(0, 0), pl, R], [cl(2, 0), R]]),
        # a call as the LAST statement of an else / if / elseif block that has another block laid out behind it (a call does not
        # end the flow: the jump over the following block must be there when the text is compiled again)
        # the same switch with a non-contiguous case group (cases 1 and 3 share a body) in several routines: the re-entry labels the
        # decompiler writes for the shared body must not collide between routines
        ("switch-noncontiguous-case-group-in-3-routines", [[sw, ca(5, r), ca(7, r), ca(5, r), jp(9, r), pl, jp(9, r), pl, jp(9, r), R] for r in (0, 1, 2)]),
        ("switch-noncontiguous-case-group-in-2-routines", [[pl, R]] + [[sw, ca(4, r), ca(6, r), ca(4, r), pl, jp(7, r), pl, R] for r in (1, 2)]),
        ("else-block-is-one-call-into-if-block", [[pl, br(4), cl(5), jp(7), pl, pl, R, pl, E]]),
        ("else-block-is-one-call", [[br(3), cl(6), jp(4), pl, pl, R, pl, R]]),
        ("else-block-ends-in-call", [[br(4), pl, cl(7), jp(5), pl, pl, R, pl, R]]),
        ("if-block-ends-in-call-before-elseif", [[br(4), br(7), pl, jp(9), pl, cl(10), jp(9), pl, jp(9), pl, R, pl, R]]),
        ("hold-then-return", [[pl, H, R]]),
        ("hold-then-plain", [[pl, H, pl, R]]),
        ("hold-mid-targeted", [[br(3), pl, H, R]]),
        ("unreachable-tail", [[pl, R, pl, R]]),
        ("unreachable-tail-no-end", [[pl, R, pl]]),
        ("unreachable-loop", [[R, pl, jp(1)]]),
        ("unreachable-targeted", [[R, br(1), E]]),
        ("two-ifs-shared-join", [[br(2), pl, br(4), pl, pl, R]]),
        ("if-in-loop-break-continue", [[pl, br(4), pl, jp(0), br(0), R]]),
        ("switch-in-loop", [[sw, ca(4), ca(5), jp(0), pl, pl, br(0), R]]),
        ("loop-in-switch-case", [[sw, ca(3), R, pl, br(3), E]]),
        ("switch-case-backward", [[pl, sw, ca(0), R]]),
        ("alias-after", [[pl, R], []]),
        ("alias-between", [[pl, R], [], [pl, E]]),
        ("jump-over-alias", [[jp(0, 2)], [], [pl, E]]),
        ("jumpcommon", [[pl, ("JumpCommon",)]]),
        ("destroy", [[br(2), ("Destroy",), R]]),
        ("if-end-else-return", [[br(2), E, R]]),
        ("branch-chain-same-target-far", [[br(4), pl, br(4), pl, R]]),
        ("msw-in-if", [[br(4), ms, ct, dt, R]]),
        ("case-jumps-into-own-switch", [[sw, ca(0), R]]),
        ("two-switches-shared-case-body", [[sw, ca(5), sw, ca(5), R, pl, R]]),
        # op 0's "previous op" is read as rtn[-1]: an unreachable trailing context op makes the flow run through a leading Return
        ("last-op-is-unreachable-ctx", [[R, pl, cx]]),
        ("last-op-is-unreachable-ctx-2", [[H, pl, R, cx]]),
        # the join of an `if` in the default body lies inside a sibling case body (found by a random list, seed 0)
        ("if-join-in-sibling-case-body", [[sw, ca(9), ca(9), ca(7), jp(6), cx, br(8), fl, pl, H]]),
        ("if-join-in-sibling-case-body-2", [[sw, ca(8), ca(8), ca(6), jp(5), br(7), fl, pl, H]]),
        # compiler-shaped nested ifs (else part first): the inner if sits in the else part of the outer one, one of its sides jumps
        # into code already written in the outer if part, the other continues at the shared tail written there as well
        ("inner-if-in-else-part-joins-tail-of-if-part", [[br(7), pl, br(5), pl, jp(10), pl, jp(9), pl, br(12), pl, pl, E, pl, E]]),
        ("switch-scenario-casescenario", [[("swscn",), ("casescn", (0, 3)), R, pl, R]]),
        ("switch-menu", [[("swmenu",), ("casemenu", (0, 4)), ("casemenu2", (0, 6)), R, pl, jp(7), pl, R]]),
        ("switch-menu-default", [[("swmenu",), ("casemenu", (0, 3)), pl, pl, R]]),
        ("switch-dungeon-mode", [[("swdm",), ("casedm", (0, 5)), ("casedm", (0, 7)), ("casedm", (0, 7)), ("casedm", (0, 9)), pl, jp(10), pl, jp(10), pl, R]]),
    ]
    return shapes


# ------------------------------------------------------------------------------------------------ (a) programs


class ProgGen:
    """Modest self-contained generator of ExplorerScript programs (text). Every routine ends with return/end/hold so that
    the compiled routine set is well formed (C02's predicate is checked on the result anyway)."""

    def __init__(self, rng: random.Random, multiline: bool = False):
        self.rng = rng
        self.n = 0
        self.labels = 0
        self.multiline = multiline

    def fresh(self) -> int:
        self.n += 1
        return self.n

    def string(self, indent: int) -> str:
        v = self.fresh()
        if self.multiline and self.rng.random() < 0.7:
            pad = "    " * (indent + 1)
            return f"'''\n{pad}line {v}\n{pad}second\n{'    ' * indent}'''"
        return f"'text {v}'"

    def lang(self, indent: int) -> str:
        v = self.fresh()
        if self.multiline and self.rng.random() < 0.7:
            pad = "    " * (indent + 2)
            inner = f'"""\n{pad}multi {v}\n{pad}b\n{"    " * (indent + 1)}"""'
        else:
            inner = f'"hello {v}"'
        return "{\n" + "    " * (indent + 1) + f"english={inner},\n" + "    " * (indent + 1) + f'german="hallo {v}",\n' + "    " * indent + "}"

    def arg(self, indent: int) -> str:
        k = self.rng.randrange(7)
        v = self.fresh()
        if k == 0:
            return str(v)
        if k == 1:
            return f"{v}.5"
        if k == 2:
            return f"CONST_{v}"
        if k == 3:
            return f"$VAR_{v}"
        if k == 4:
            return self.string(indent)
        if k == 5:
            return self.lang(indent)
        return f"Position<'m{v}', {v}, {v}.5>"

    def op(self, indent: int, allow_ctx: bool = True) -> str:
        v = self.fresh()
        args = ", ".join(self.arg(indent) for _ in range(self.rng.choice((0, 1, 1, 2, 3))))
        ctx = ""
        if allow_ctx and self.rng.random() < 0.15:
            ctx = "<" + self.rng.choice(("actor", "object", "performer")) + f" ACTOR_{v}>"
        return f"op_{v}{ctx}({args});"

    def assignment(self) -> str:
        v = self.fresh()
        return self.rng.choice(
            (
                f"$F{v} = {v};", f"$F{v} += {v};", f"$F{v} -= value($G);", f"$F{v}[3] = 1;", f"clear $F{v};", f"init $F{v};",
                "reset dungeon_result;", f"reset scn($SCENARIO_MAIN);", f"adventure_log = {v};", f"dungeon_mode({v}) = DMC_OPEN;",
                f"$PPL[{v % 8}] = 1;", f"$F{v} = scn[{v}, 2];", f"$F{v} *= 2;", f"$F{v} /= 3;",
            )
        )

    def cond(self) -> str:
        v = self.fresh()
        return self.rng.choice(
            (
                f"$V{v} == {v}", f"$V{v} > {v}", f"$V{v} <= value($W)", f"$V{v}[2]", f"$V{v}[1]", "debug", "not edit", "variation",
                f"scn($SCENARIO_MAIN) == [{v}, 1]", f"scn($SCENARIO_MAIN) < [{v}, 0]", f"$PPL[{v % 8}]", f"not $PPL[{v % 8}]",
                f"$V{v} & {v}", f"$V{v} != {v}", f"BranchExecuteSub({v})",
            )
        )

    def header(self) -> str:
        c = self.cond()
        n = self.rng.random()
        if n < 0.2:
            c = c + " || " + self.cond()
        neg = "not " if self.rng.random() < 0.25 else ""
        return f"{neg}( {c} )"

    def body(self, depth: int, indent: int, in_loop: bool, in_switch: bool, lo: int = 0, hi: int = 3) -> list[str]:
        out: list[str] = []
        for _ in range(self.rng.randint(lo, hi)):
            out += self.stmt(depth, indent, in_loop, in_switch)
        return out

    def block(self, head: str, body: list[str], indent: int) -> list[str]:
        pad = "    " * indent
        return [pad + head + " {"] + body + [pad + "}"]

    def stmt(self, depth: int, indent: int, in_loop: bool, in_switch: bool) -> list[str]:
        pad = "    " * indent
        rng = self.rng
        choices = ["op"] * 5 + ["assign", "with", "term"]
        if depth > 0:
            choices += ["if", "if", "ifelse", "ifchain", "switch", "switch", "msw", "forever", "while", "for", "labeljump", "call"]
        if in_loop:
            choices += ["continue", "break_loop"]
        k = rng.choice(choices)
        if k == "op":
            return [pad + self.op(indent)]
        if k == "assign":
            return [pad + self.assignment()]
        if k == "with":
            v = self.fresh()
            inner = self.rng.choice((self.op(indent + 1, False), self.assignment(), "hold;"))
            return [pad + f"with ({rng.choice(('actor', 'object', 'performer'))} ACTOR_{v}) {{", pad + "    " + inner, pad + "}"]
        if k == "term":
            return [pad + rng.choice(("return;", "end;", "hold;"))]
        if k == "continue":
            return [pad + "continue;"]
        if k == "break_loop":
            return [pad + "break_loop;"]
        if k == "if":
            return self.block("if " + self.header(), self.body(depth - 1, indent + 1, in_loop, in_switch), indent)
        if k == "ifelse":
            a = self.block("if " + self.header(), self.body(depth - 1, indent + 1, in_loop, in_switch), indent)
            b = self.body(depth - 1, indent + 1, in_loop, in_switch)
            a[-1] = pad + "} else {"
            return a + b + [pad + "}"]
        if k == "ifchain":
            a = self.block("if " + self.header(), self.body(depth - 1, indent + 1, in_loop, in_switch), indent)
            for _ in range(rng.randint(1, 2)):
                a[-1] = pad + "} elseif " + self.header() + " {"
                a += self.body(depth - 1, indent + 1, in_loop, in_switch) + [pad + "}"]
            if rng.random() < 0.6:
                a[-1] = pad + "} else {"
                a += self.body(depth - 1, indent + 1, in_loop, in_switch) + [pad + "}"]
            return a
        if k == "switch":
            v = self.fresh()
            head = rng.choice((f"$S{v}", f"random({v})", "sector()", f"scn($SCENARIO_MAIN)[0]", f"scn($SCENARIO_MAIN)[1]", f"dungeon_mode({v})", f"ProcessSpecial({v}, 0, 0)", f"message_Menu({v})"))
            lines = [pad + f"switch ( {head} ) {{"]
            ncase = rng.randint(0, 3)
            default_at = rng.choice((None, None, ncase, rng.randint(0, ncase)))
            for c in range(ncase + 1):
                if default_at == c:
                    lines.append(pad + "    default:")
                    lines += self.body(depth - 1, indent + 2, in_loop, True, 0, 2)
                    if rng.random() < 0.5:
                        lines.append(pad + "        break;")
                if c == ncase:
                    break
                cv = self.fresh()
                ch = rng.choice((str(cv), f"== {cv}", f"> {cv}", f"<= value($CV)", f"CASE_{cv}"))
                if head.startswith("dungeon_mode"):
                    ch = ("DMC_CLOSE", "DMC_OPEN", "DMC_REQUEST", "DMC_OPENREQ")[c % 4]
                lines.append(pad + f"    case {ch}:")
                if rng.random() < 0.25:
                    continue  # grouped case headers
                lines += self.body(depth - 1, indent + 2, in_loop, True, 0, 2)
                if rng.random() < 0.6:
                    lines.append(pad + "        break;")
            lines.append(pad + "}")
            return lines
        if k == "msw":
            v = self.fresh()
            lines = [pad + f"{rng.choice(('message_SwitchTalk', 'message_SwitchMonologue'))} ( $MV{v} ) {{"]
            for c in range(rng.randint(1, 3)):
                lines.append(pad + f"    case {c}:")
                lines.append(pad + "        " + (self.string(indent + 2) if rng.random() < 0.5 else self.lang(indent + 2)))
            if rng.random() < 0.6:
                lines.append(pad + "    default:")
                lines.append(pad + "        " + self.string(indent + 2))
            lines.append(pad + "}")
            return lines
        if k == "forever":
            return self.block("forever", self.body(depth - 1, indent + 1, True, False, 1, 3), indent)
        if k == "while":
            return self.block("while " + ("not " if rng.random() < 0.3 else "") + f"( {self.cond()} )", self.body(depth - 1, indent + 1, True, False), indent)
        if k == "for":
            v = self.fresh()
            return self.block(f"for ($I{v} = 0; $I{v} < {v}; $I{v} += 1;)", self.body(depth - 1, indent + 1, True, False), indent)
        if k == "labeljump":
            self.labels += 1
            lab = f"lab{self.labels}"
            if rng.random() < 0.5:  # backward jump under a condition (loop), label first
                return [pad + f"@{lab};"] + self.body(0, indent, in_loop, in_switch, 1, 2) + self.block("if " + self.header(), [pad + f"    jump @{lab};"], indent)
            # forward jump
            return self.block("if " + self.header(), [pad + f"    jump @{lab};"], indent) + self.body(0, indent, in_loop, in_switch, 1, 2) + [pad + f"@{lab};"] + [pad + self.op(indent)]
        if k == "call":
            self.labels += 1
            lab = f"sub{self.labels}"
            self.pending_subs.append(lab)
            return [pad + f"call @{lab};"]
        raise AssertionError(k)

    pending_subs: list[str]

    def routine(self, head: str, depth: int, size: tuple[int, int]) -> list[str]:
        self.pending_subs = []
        body = self.body(depth, 1, False, False, *size)
        body.append("    " + self.rng.choice(("return;", "end;", "hold;", "return;")))
        for lab in self.pending_subs:
            body += [f"    @{lab};", "    " + self.op(1, False), "    return;"]
        return [head + " {"] + body + ["}"]

    def program(self, depth: int = 2, coroutines: bool | None = None, size: tuple[int, int] = (1, 4)) -> str:
        rng = self.rng
        coro = rng.random() < 0.2 if coroutines is None else coroutines
        lines: list[str] = []
        nr = rng.randint(1, 3)
        prev_nonempty = False
        for i in range(nr):
            if coro:
                head = f"coro CORO_{i}"
            else:
                k = rng.randrange(5)
                head = (f"def {i}", f"def {i} for actor {i + 2}", f"def {i} for object OBJECT_{i}", f"def {i} for performer {i}", f"def {i} for actor ACTOR_N{i}")[k]
            if prev_nonempty and rng.random() < 0.15:
                lines += [head + " {", "    alias previous;", "}"]
            else:
                lines += self.routine(head, depth, size)
                prev_nonempty = True
            lines.append("")
        return "\n".join(lines) + "\n"


DMC_VALUES = {"DMC_CLOSE": 0, "DMC_OPEN": 1, "DMC_REQUEST": 2, "DMC_OPENREQ": 3}  # names used by the checks' DungeonModeConstants

FIXED_PROGRAMS = [
    # leading while (routine starts with a Jump)
    "def 0 {\n    while ( $A == 1 ) {\n        foo(1);\n    }\n    return;\n}\n",
    "def 0 {\n    while not ( $A > 2 ) {\n        foo(1);\n        if ( debug ) {\n            break_loop;\n        }\n    }\n    bar();\n    end;\n}\n",
    "def 0 {\n    for ($i = 0; $i < 3; $i += 1;) {\n        foo(1);\n    }\n    hold;\n}\n",
    "coro A {\n    forever {\n        a();\n        if ( edit ) {\n            break_loop;\n        }\n        if ( $X > 2 ) {\n            continue;\n        }\n        b();\n    }\n    end;\n}\ncoro B {\n    alias previous;\n}\n",
    "def 0 {\n    if ( $A == 1 || $B == 2 ) {\n        a();\n    } elseif not ( debug ) {\n        b();\n    } else {\n        c();\n    }\n    d();\n    return;\n}\n",
    "def 0 {\n    switch ( $C ) {\n        case 1:\n            x();\n        case 2:\n            y();\n            break;\n        case 3:\n        case 4:\n            w();\n            break;\n        default:\n            z();\n    }\n    return;\n}\n",
    "def 0 for actor 3 {\n    switch ( random(4) ) {\n        default:\n            z();\n        case 1:\n            x();\n            break;\n    }\n    message_SwitchTalk ( $M ) {\n        case 0:\n            'a'\n        case 1:\n            {\n                english=\"e\",\n            }\n        default:\n            'd'\n    }\n    with (actor PLAYER) {\n        Move(Position<'m', 1, 2.5>);\n    }\n    Turn<object 3>(2);\n    hold;\n}\n",
    "def 0 {\n    @top;\n    a();\n    if ( $A == 1 ) {\n        jump @top;\n    }\n    call @sub;\n    b();\n    return;\n    @sub;\n    c();\n    return;\n}\ndef 1 for performer 2 {\n    jump @top;\n}\n",
    "def 0 {\n    if ( $A == 1 ) {\n        return;\n    }\n    if not ( $B < 1 ) {\n        end;\n    } else {\n        hold;\n    }\n}\n",
    "def 0 {\n    forever {\n        forever {\n            a();\n            if ( debug ) {\n                break_loop;\n            }\n        }\n        b();\n        if ( edit ) {\n            break_loop;\n        }\n    }\n    return;\n}\n",
    # an if / elseif chain WITHOUT else inside a loop, every block of the chain leaving or repeating the loop, and code behind the
    # chain that only the "no condition holds" path reaches
    "def 0 {\n    op1(1);\n    forever {\n        op2(2);\n        op3(3);\n        op4(4);\n        if ( scn($S) >= [1, 2] ) {\n            while ( debug ) {\n                op5(5);\n                op6(6);\n            }\n        } elseif ( $A != 3 ) {\n        }\n        op7(7);\n    }\n    return;\n}\n",
    "def 0 {\n    forever {\n        a();\n        if ( $A == 1 ) {\n            continue;\n        } elseif ( $B == 2 ) {\n            break_loop;\n        } elseif ( debug ) {\n            continue;\n        }\n        b();\n    }\n    c();\n    end;\n}\n",
    "def 0 {\n    while ( $A == 1 ) {\n        a();\n        if ( $B == 2 ) {\n            for ($i = 0; $i < 2; $i += 1;) {\n                x();\n            }\n        } elseif ( edit ) {\n        } elseif ( $C > 1 ) {\n            break_loop;\n        }\n        b();\n    }\n    return;\n}\n",
    "def 0 {\n    $A = 1;\n    $B += 2;\n    $C[1] = 0;\n    clear $D;\n    init $E;\n    reset dungeon_result;\n    reset scn($S);\n    adventure_log = 3;\n    dungeon_mode(2) = DMC_REQUEST;\n    $PPL[2] = 1;\n    $F = scn[2, 3];\n    $G -= value($H);\n    return;\n}\n",
]


def compile_program(text: str) -> dict | None:
    """JSON routine set of the compiler's output, *renumbered* as a binary reader would deliver it (compiler output keeps
    construction-order offsets that are neither dense nor increasing). None if the compiler rejects the text."""
    from explorerscript.ssb_converting.ssb_compiler import ExplorerScriptSsbCompiler

    try:
        c = ExplorerScriptSsbCompiler("$PPL").compile(text, "/nonexistent/verif.exps")
    except Exception:
        return None
    assert c.routine_ops is not None and c.routine_infos is not None
    if any(i is None for i in c.routine_infos):
        return None
    raw = to_json(c.routine_infos, c.routine_ops, c.named_coroutines)
    try:
        sym = to_sym(raw, target_index="last")
    except KeyError:
        return None
    for r in sym["routines"]:
        in_dm = False
        for op in r["ops"]:
            name, ps, tgt = op
            if tgt is not None and OPS_WITH_JUMP_TO_MEM_OFFSET[name] != len(ps):
                return None  # not the documented parameter count: a reader would not deliver this
            # a reader delivers dungeon-mode values as integers (the decompiler is specified to turn them into the caller's constants)
            if name == "flag_SetDungeonMode" and len(ps) == 2 and isinstance(ps[1], list) and ps[1][0] == "const" and ps[1][1] in DMC_VALUES:
                ps[1] = DMC_VALUES[ps[1][1]]
            if name == "SwitchDungeonMode":
                in_dm = True
            elif in_dm and name == "Case":
                if isinstance(ps[0], list) and ps[0][0] == "const" and ps[0][1] in DMC_VALUES:
                    ps[0] = DMC_VALUES[ps[0][1]]
            elif not (in_dm and name in CASE_OPS):
                in_dm = False
    return sym


def program_syms(rng: random.Random, n_random: int, multiline: bool = False, depth: int = 2) -> Iterator[tuple[str, dict]]:
    """(a): symbolic routine sets = compiler output of the fixed corpus and of n_random generated programs."""
    for i, p in enumerate(FIXED_PROGRAMS):
        s = compile_program(p)
        if s is not None:
            yield f"fixed-{i}", s
    made = 0
    attempts = 0
    while made < n_random and attempts < 4 * n_random + 20:
        attempts += 1
        text = ProgGen(rng, multiline).program(depth=depth if attempts % 3 else 1)
        s = compile_program(text)
        if s is None:
            continue
        made += 1
        yield f"random-{made}", s


def small_programs() -> Iterator[str]:
    """Exhaustive small statement trees (size <= 3 statements, depth <= 2) over a fixed set of constructs."""
    ctr = itertools.count(1)

    def L():
        return f"op_{next(ctr)}({next(ctr)});"

    conds = ["$A == 1", "$B[2]", "not debug"]

    def render(tree) -> list[str]:
        out = []
        for t in tree:
            if t == "@L":
                out.append(L())
            elif isinstance(t, str):
                out.append(t)
            else:
                kind, *rest = t
                if kind == "if":
                    out += [f"if ( {rest[0]} ) {{"] + render(rest[1]) + ["}"]
                elif kind == "ifnot":
                    out += [f"if not ( {rest[0]} ) {{"] + render(rest[1]) + ["}"]
                elif kind == "ifelse":
                    out += [f"if ( {rest[0]} ) {{"] + render(rest[1]) + ["} else {"] + render(rest[2]) + ["}"]
                elif kind == "ifelif":
                    out += [f"if ( {rest[0]} ) {{"] + render(rest[1]) + ["} elseif ( edit ) {"] + render(rest[2]) + ["} else {"] + render(rest[3]) + ["}"]
                elif kind == "forever":
                    out += ["forever {"] + render(rest[0]) + ["}"]
                elif kind == "while":
                    out += [f"while ( {rest[0]} ) {{"] + render(rest[1]) + ["}"]
                elif kind == "for":
                    out += ["for ($i = 0; $i < 3; $i += 1;) {"] + render(rest[0]) + ["}"]
                elif kind == "switch":
                    out += ["switch ( $S ) {"]
                    for ci, (cb, brk) in enumerate(rest[0]):
                        out += [f"case {ci}:"] + render(cb) + (["break;"] if brk else [])
                    if rest[1] is not None:
                        out += ["default:"] + render(rest[1])
                    out += ["}"]
        return out

    inner_simple = [[], ["@L"], ["return;"], ["@L", "end;"]]
    loop_inner = [["@L"], ["@L", ("if", "debug", ["break_loop;"])], [("if", "debug", ["continue;"]), "@L"], ["@L", ("if", "$A == 1", ["break_loop;"]), "@L"], ["break_loop;"]]
    stmts: list = []
    for c in conds:
        for b in inner_simple:
            stmts.append(("if", c, b))
        stmts.append(("ifnot", c, ["@L"]))
    for b1 in inner_simple:
        for b2 in inner_simple:
            stmts.append(("ifelse", "$A == 1", b1, b2))
    stmts.append(("ifelif", "$A == 1", ["@L"], ["@L"], ["@L"]))
    stmts.append(("ifelif", "$A == 1", ["return;"], ["@L"], []))
    for b in loop_inner:
        stmts.append(("forever", b))
        stmts.append(("while", "$A == 1", b))
        stmts.append(("for", b))
    case_bodies = [([], False), (["@L"], False), (["@L"], True), (["return;"], False)]
    for c1 in case_bodies:
        for c2 in case_bodies:
            for d in (None, ["@L"], []):
                stmts.append(("switch", [c1, c2], d))
    stmts.append(("switch", [], None))
    stmts.append(("switch", [], ["@L"]))
    # nesting depth 2: a control statement inside an if / loop / case
    nested = []
    for s in stmts[:: max(1, len(stmts) // 40)]:
        nested.append(("if", "$N == 1", [s]))
        nested.append(("ifelse", "$N == 1", [s], ["@L"]))
        nested.append(("forever", [s, ("if", "edit", ["break_loop;"])]))
        nested.append(("switch", [([s], True), (["@L"], False)], ["@L"]))
    all_stmts = stmts + nested
    for s in all_stmts:
        for pre in (False, True):
            for post in ("return;", "@L+end"):
                tree = (["@L"] if pre else []) + [s] + (["return;"] if post == "return;" else ["@L", "end;"])
                yield "def 0 {\n" + "\n".join(render(tree)) + "\n}\n"
    # two control statements in sequence
    for s1 in stmts[::7]:
        for s2 in stmts[3::11]:
            yield "def 0 {\n" + "\n".join(render([s1, s2, "hold;"])) + "\n}\n"


# ------------------------------------------------------------------------------------------------ features of an input


def features(rs: dict) -> dict:
    """Decidable shape features of a JSON routine set, used for violation signatures and for non-triviality counts."""
    pos = {}
    for ri, r in enumerate(rs["routines"]):
        for oi, o in enumerate(r["ops"]):
            pos[o[0]] = (ri, oi)
    f = {
        "jumps": 0, "cross": False, "back": False, "first-jump": False, "call": False, "ctx": False, "switch": False, "case": False,
        "msw": False, "hold": False, "alias": False, "coro": False, "unreachable": False, "multiline": False, "routines": len(rs["routines"]),
        "ops": sum(len(r["ops"]) for r in rs["routines"]),
    }
    try:
        mask = reachable_mask(rs)
        f["unreachable"] = any(not all(m) for m in mask)
    except Exception:
        pass
    for ri, r in enumerate(rs["routines"]):
        if not r["ops"]:
            f["alias"] = True
        if r["kind"] == "COROUTINE":
            f["coro"] = True
        for oi, (off, name, ps) in enumerate(r["ops"]):
            if name in OPS_WITH_JUMP_TO_MEM_OFFSET:
                f["jumps"] += 1
                idx = OPS_WITH_JUMP_TO_MEM_OFFSET[name]
                if idx < len(ps) and ps[idx] in pos:
                    tr, ti = pos[ps[idx]]
                    if tr != ri:
                        f["cross"] = True
                    elif ti <= oi:
                        f["back"] = True
                if name == JUMP and oi == 0:
                    f["first-jump"] = True
                if name == "Call":
                    f["call"] = True
                if name in CASE_OPS:
                    f["case"] = True
            if name in OPS_CTX:
                f["ctx"] = True
            if name in OPS_SWITCH_CASE_MAP:
                f["switch"] = True
            if name in OPS_SWITCH_TEXT_CASE_MAP or name in TEXT_CASE_OPS:
                f["msw"] = True
            if name == "Hold":
                f["hold"] = True
            for p in ps:
                if isinstance(p, list) and ((p[0] == "str" and "\n" in p[1]) or (p[0] == "lang" and any("\n" in v for _k, v in p[1]))):
                    f["multiline"] = True
    return f


def rs_hash(rs: dict) -> str:
    import hashlib
    import json

    return hashlib.sha1(json.dumps(rs, sort_keys=True).encode()).hexdigest()
