"""Data model shared by the driver and the per-property modules (props/Cxx.py).

A property module exposes

    def run(ctx: Ctx) -> PropResult
    def replay(record: dict, ctx: Ctx) -> bool      # True iff the recorded failure still reproduces

Nothing in here knows about a particular property.
"""
from __future__ import annotations

import dataclasses
import os
from dataclasses import dataclass, field
from typing import Any, Callable

REPO = os.environ.get("VERIF_REPO", "/repo")
VERIF = os.path.dirname(os.path.dirname(os.path.abspath(__file__)))


@dataclass
class Ctx:
    tier: str = "quick"
    seed: int = 0
    jobs: int = 16
    repo: str = REPO
    verif: str = VERIF
    prop: str = ""

    @property
    def thorough(self) -> bool:
        return self.tier == "thorough"


# ---------------------------------------------------------------- T1 obligations
HELD, VIOLATED, UNDECIDED = "held", "violated", "undecided"


@dataclass
class Obligation:
    name: str  # e.g. SourceMap.rewrite_offsets#loop0.preserve[2]
    function: str  # qualified name of the real function (or lemma) it belongs to
    clause: str  # the contract clause in words / source
    status: str  # HELD / VIOLATED / UNDECIDED
    backend: str = "z3"
    ms: float = 0.0
    model: Any = None  # solver model (text) when refuted
    reason: str = ""  # unknown / timeout / unsupported:...
    canary: bool = False  # canaries are *expected* to be refuted

    def as_json(self) -> dict:
        d = dataclasses.asdict(self)
        if d["model"] is not None and not isinstance(d["model"], (str, dict, list)):
            d["model"] = str(d["model"])
        return d


# ---------------------------------------------------------------- violations
@dataclass
class Violation:
    """One failure of a contract.

    signature: short, stable string naming *what* fails, narrow enough that a different failure of the same property
               gets a different signature (input class + symptom, or obligation name).  known_findings.json matches on it.
    what:      human readable one-liner.
    input:     JSON-able failing input (None if the verifier produced no realisable input).
    obligation: name of the failed T1 obligation if this comes from the deductive layer.
    """

    signature: str
    what: str
    input: Any = None
    obligation: str | None = None
    contract: str = ""
    observed: Any = None
    solver_output: Any = None
    failing_input_found: bool = True
    tier: str = "T3"
    extra: dict = field(default_factory=dict)

    def record(self, prop: str) -> dict:
        d = dataclasses.asdict(self)
        d["property"] = prop
        return d


@dataclass
class StandIn:
    """A bounded stand-in (T2/T3) for a contract; never counted as proved."""

    contract: str
    tier: str  # T2 / T3
    bound: str
    evaluations: int
    distinct_nontrivial: int = 0
    exhaustive: bool = False
    samples: list = field(default_factory=list)
    notes: str = ""


@dataclass
class PropResult:
    prop: str
    level: str  # exploration | proof | ...
    obligations: list[Obligation] = field(default_factory=list)
    standins: list[StandIn] = field(default_factory=list)
    violations: list[Violation] = field(default_factory=list)
    assumptions: list[str] = field(default_factory=list)
    trusted_base: list[str] = field(default_factory=list)
    functions_under_contract: list[dict] = field(default_factory=list)
    functions_not_under_contract: list[dict] = field(default_factory=list)
    rule: str = ""
    samples: list = field(default_factory=list)
    extra: dict = field(default_factory=dict)
    # problems of the checker itself (monitor never exercised, canary survived, ...) -> exit 3
    self_check_failures: list[str] = field(default_factory=list)
    solver_s: float = 0.0
    checker_cmd: str = ""

    def merge(self, other: "PropResult") -> None:
        self.obligations += other.obligations
        self.standins += other.standins
        self.violations += other.violations
        self.assumptions += [a for a in other.assumptions if a not in self.assumptions]
        self.trusted_base += [a for a in other.trusted_base if a not in self.trusted_base]
        self.functions_under_contract += other.functions_under_contract
        self.functions_not_under_contract += other.functions_not_under_contract
        self.samples += other.samples
        self.self_check_failures += other.self_check_failures
        self.solver_s += other.solver_s
        self.extra.update(other.extra)
