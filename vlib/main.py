"""./check <ID> [--tier quick|thorough] [--replay <file>]

exit 0  property held on everything explored (KNOWN-FINDING lines for listed findings that still reproduce)
exit 1  at least one `VIOLATION property=<id> replay=<path>` line (a violation not listed in known_findings.json)
exit 3  the checker itself is broken (traceback in /verif code, canary survived, monitor never exercised)
"""
from __future__ import annotations

import argparse
import hashlib
import importlib
import json
import os
import re
import sys
import time
import traceback

from vlib.result import Ctx, PropResult, Violation, HELD, VIOLATED, UNDECIDED, VERIF


def load_known_findings(prop: str) -> list[dict]:
    path = os.path.join(VERIF, "known_findings.json")
    if not os.path.exists(path):
        return []
    with open(path) as fh:
        data = json.load(fh)
    return [e for e in data.get("entries", []) if e.get("property") == prop and e.get("kind") == "finding"]


def finding_matches(entry: dict, v: Violation, tier: str = "quick") -> bool:
    """A listed finding suppresses a violation only if the failure class (signature) matches AND, where the check reports
    the failing inputs of the class (`extra.members`), every one of them is an input the finding lists for this tier.
    Anything else of the same class (a new failing input, a class that grew) is reported as a violation."""
    m = entry.get("match", {})
    if "signature" in m and m["signature"] != v.signature:
        return False
    if "signature_regex" in m and not re.fullmatch(m["signature_regex"], v.signature):
        return False
    if "obligation" in m and m["obligation"] != v.obligation:
        return False
    if not m:
        return False
    allowed = m.get("members_" + tier, m.get("members"))
    if allowed is not None:
        members = (v.extra or {}).get("members")
        if members is None:
            return False
        new = [x for x in members if x not in set(allowed)]
        if new or (v.extra or {}).get("count", len(members)) > len(members):
            v.what = f"[outside the listed known finding: {len(new)} new failing input(s), e.g. {new[:3]}] " + v.what
            return False
    if "max_count_" + tier in m and (v.extra or {}).get("count", 1) > m["max_count_" + tier]:
        v.what = f"[known finding class grew beyond {m['max_count_' + tier]} inputs] " + v.what
        return False
    return True


def out_root() -> str:
    """Where evidence/ and replay/ go: /verif, unless VERIF_OUT names another directory (used by tools/try_mutant.py, so that
    a run against a deliberately changed tree never overwrites the evidence of the registered checks)."""
    return os.environ.get("VERIF_OUT") or VERIF


def write_replay(prop: str, v: Violation) -> str:
    d = os.path.join(out_root(), "replay", prop)
    os.makedirs(d, exist_ok=True)
    rec = v.record(prop)
    blob = json.dumps(rec, sort_keys=True, default=str)
    name = re.sub(r"[^A-Za-z0-9_.-]+", "_", v.signature)[:80] + "-" + hashlib.sha1(blob.encode()).hexdigest()[:10]
    path = os.path.join(d, name + ".json")
    with open(path, "w") as fh:
        json.dump(rec, fh, indent=1, sort_keys=True, default=str)
    return os.path.relpath(path, VERIF) if out_root() == VERIF else path


def write_evidence(res: PropResult, ctx: Ctx, wall: float, n_viol: int, known_lines: list[str]) -> None:
    real = [o for o in res.obligations if not o.canary]
    canaries = [o for o in res.obligations if o.canary]
    evaluations = sum(s.evaluations for s in res.standins)
    distinct = sum(s.distinct_nontrivial for s in res.standins)
    samples = list(res.samples)
    for s in res.standins:
        samples += s.samples[:2]
    if not samples:
        samples = [o.name + " :: " + o.clause for o in real[:5]]
    coverage: dict = {
        "rule": res.rule,
        "samples": samples[:12],
        "obligations": len(real),
        "discharged": sum(1 for o in real if o.status == HELD),
        "undecided": sum(1 for o in real if o.status == UNDECIDED),
        "refuted": sum(1 for o in real if o.status == VIOLATED),
        "checker_cmd": res.checker_cmd or f"./check {res.prop} --tier {ctx.tier}",
        "trusted_base": res.trusted_base,
        "exhaustive": bool(res.standins) and all(s.exhaustive for s in res.standins),
        "solver_s": round(res.solver_s, 3),
        "canaries_refuted": sum(1 for o in canaries if o.status == VIOLATED),
        "canaries_total": len(canaries),
        "functions_under_contract": res.functions_under_contract,
        "functions_not_under_contract": res.functions_not_under_contract,
        "obligation_list": [
            {k: v for k, v in o.as_json().items() if k in ("name", "function", "clause", "status", "backend", "ms", "reason")}
            for o in real
        ],
        "bounded_standins": [
            {
                "contract": s.contract,
                "tier": s.tier,
                "bound": s.bound,
                "evaluations": s.evaluations,
                "distinct_nontrivial": s.distinct_nontrivial,
                "exhaustive": s.exhaustive,
                "notes": s.notes,
                "labelled": "bounded (never counted as proved)",
            }
            for s in res.standins
        ],
        "known_findings_rewitnessed": known_lines,
        "self_check_failures": res.self_check_failures,
    }
    if res.standins or res.level in ("exploration", "fault_enumeration"):
        coverage["evaluations"] = evaluations
        coverage["distinct_nontrivial"] = distinct
    coverage.update(res.extra)
    ev = {
        "property_id": res.prop,
        "tier": ctx.tier,
        "seed": ctx.seed,
        "level": res.level,
        "coverage": coverage,
        "assumptions": res.assumptions,
        "wall_s": round(wall, 2),
        "violations": n_viol,
    }
    os.makedirs(os.path.join(out_root(), "evidence"), exist_ok=True)
    path = os.path.join(out_root(), "evidence", f"{res.prop}.json")
    tmp = path + ".tmp"
    with open(tmp, "w") as fh:
        json.dump(ev, fh, indent=1, default=str)
    os.replace(tmp, path)


def main(argv: list[str]) -> int:
    ap = argparse.ArgumentParser()
    ap.add_argument("prop")
    ap.add_argument("--tier", default=os.environ.get("VERIF_TIER", "quick"), choices=["quick", "thorough"])
    ap.add_argument("--replay", default=None)
    ap.add_argument("--jobs", type=int, default=int(os.environ.get("VERIF_JOBS", "16")))
    args = ap.parse_args(argv)
    seed = int(os.environ.get("VERIF_SEED", "0") or 0)
    ctx = Ctx(tier=args.tier, seed=seed, jobs=args.jobs, prop=args.prop)
    if not re.fullmatch(r"C\d{2,3}", args.prop):
        print(f"unknown property id {args.prop}", file=sys.stderr)
        return 3
    try:
        mod = importlib.import_module(f"props.{args.prop}")
    except ModuleNotFoundError as e:
        if e.name == f"props.{args.prop}":
            print(f"no check for {args.prop}", file=sys.stderr)
            return 3
        raise

    if args.replay:
        with open(args.replay) as fh:
            rec = json.load(fh)
        from props._t1 import replay_if_t1

        still = replay_if_t1(rec)
        if still is None:
            still = mod.replay(rec, ctx)
        print(("REPRODUCED" if still else "NOT-REPRODUCED") + f" property={args.prop} replay={args.replay}")
        return 1 if still else 0

    t0 = time.time()
    # the deductive layer (own process pool) runs concurrently with the bounded stand-ins
    from concurrent.futures import ThreadPoolExecutor

    from props._t1 import T1_PROPS, add_t1

    with ThreadPoolExecutor(1) as ex:
        fut = ex.submit(add_t1, PropResult(prop=args.prop, level="exploration"), args.prop, ctx) if args.prop in T1_PROPS else None
        res: PropResult = mod.run(ctx)
        if fut is not None and not res.extra.get("t1_included"):
            t1 = fut.result()
            level = res.level
            res.merge(t1)
            res.level = level
            res.extra["t1_included"] = True
    wall = time.time() - t0

    findings = load_known_findings(args.prop)
    known_hit: dict[int, int] = {}
    new: list[Violation] = []
    for v in res.violations:
        for i, e in enumerate(findings):
            if finding_matches(e, v, ctx.tier):
                known_hit[i] = known_hit.get(i, 0) + 1
                break
        else:
            new.append(v)

    known_lines = []
    for i, e in enumerate(findings):
        if i in known_hit:
            line = f"KNOWN-FINDING: property={args.prop} {e['what']} [{known_hit[i]} witness(es) this run]"
            known_lines.append(line)
            print(line)
    # one VIOLATION line per distinct signature (first witness), all witnesses counted
    seen: dict[str, int] = {}
    lines = []
    for v in new:
        seen[v.signature] = seen.get(v.signature, 0) + 1
        if seen[v.signature] > 1:
            continue
        if len(lines) >= 40:
            continue
        path = write_replay(args.prop, v)
        tail = "" if v.failing_input_found else " no-failing-input-found"
        lines.append(f"VIOLATION property={args.prop} replay={path}{tail}")
        print(f"  -- {v.what[:600]}")
    write_evidence(res, ctx, wall, len(new), known_lines)
    for ln in lines:
        print(ln)
    real = [o for o in res.obligations if not o.canary]
    print(
        f"{args.prop} [{ctx.tier}] level={res.level} obligations={len(real)} "
        f"discharged={sum(1 for o in real if o.status == HELD)} undecided={sum(1 for o in real if o.status == UNDECIDED)} "
        f"standin_evaluations={sum(s.evaluations for s in res.standins)} violations={len(new)} "
        f"known={sum(known_hit.values())} wall={wall:.1f}s"
    )
    for s in res.self_check_failures:
        print("SELF-CHECK FAILURE: " + s, file=sys.stderr)
    if new:
        return 1
    if res.self_check_failures:
        return 3
    return 0


if __name__ == "__main__":
    try:
        sys.exit(main(sys.argv[1:]))
    except SystemExit:
        raise
    except BaseException:
        traceback.print_exc()
        print("checker crashed (exit 3): this is a defect of the check, not a finding", file=sys.stderr)
        sys.exit(3)
