"""Sidecar contracts for explorerscript/macro.py helpers (C05: parameter substitution; labels private per expansion)."""
from pyvc.spec import Registry

M = "explorerscript.macro"


def register(reg: Registry) -> None:
    reg.load_module("explorerscript.ssb_converting.ssb_data_types")
    reg.load_module("explorerscript.ssb_converting.ssb_special_ops")
    reg.load_module("explorerscript.ssb_converting.compiler.utils")
    reg.fields({"SsbOpParamConstant.name": "str", "Counter.count": "int", "SsbLabel.id": "int", "SsbLabel.debugging_note": "Any",
                "MacroStartSsbLabel.length_of_macro": "int", "MacroStartSsbLabel.parameter_mapping": "Any"})
    # C05: "parameters substituted by the call's arguments": a constant naming a macro variable is replaced by the argument,
    # every other parameter is kept (same object, same position)
    reg.contract(
        M + ":ExplorerScriptMacro._process_parameters",
        types={"self": "ExplorerScriptMacro", "original_params": "list[Any]", "macro_params": "dict[str, Any]"}, returns="list[Any]",
        ensures=[
            "fresh(result)", "len(result) == len(original_params)",
            "all_int(lambda j: implies(0 <= j and j < len(original_params), result[j] is ite(isinstance(original_params[j], SsbOpParamConstant) and typed(original_params[j], 'SsbOpParamConstant').name in macro_params, macro_params[typed(original_params[j], 'SsbOpParamConstant').name], original_params[j])))",
            "unchanged_list(original_params)",
        ],
        modifies=["alloc"],
        loops={0: dict(invariants=[
            "fresh(new_params)", "len(new_params) == it_i",
            "all_int(lambda j: implies(0 <= j and j < it_i, new_params[j] is ite(isinstance(original_params[j], SsbOpParamConstant) and typed(original_params[j], 'SsbOpParamConstant').name in macro_params, macro_params[typed(original_params[j], 'SsbOpParamConstant').name], original_params[j])))"])},
        canaries=["all_int(lambda j: implies(0 <= j and j < len(original_params), result[j] is original_params[j]))"],
        properties=["C05"])
    # C05: "the body's labels private to each expansion": every copied label gets a fresh id from the label counter
    reg.contract(
        M + ":ExplorerScriptMacro._copy_blueprint_label",
        types={"self": "ExplorerScriptMacro", "lbl_idx_counter": "Counter", "blueprint_op": "Sub[SsbLabel]"}, returns="Sub[SsbLabel]",
        ensures=["fresh(result)", "result.id == old(lbl_idx_counter.count) + 1", "lbl_idx_counter.count == old(lbl_idx_counter.count) + 1",
                 "result.routine_id == -1",
                 # the copy has the class of the blueprint label (macro start / end labels stay what they are)
                 "isinstance(result, MacroStartSsbLabel) == isinstance(blueprint_op, MacroStartSsbLabel)",
                 "isinstance(result, MacroEndSsbLabel) == isinstance(blueprint_op, MacroEndSsbLabel)",
                 "implies(isinstance(blueprint_op, MacroStartSsbLabel), typed(result, 'MacroStartSsbLabel').length_of_macro == typed(blueprint_op, 'MacroStartSsbLabel').length_of_macro)"],
        modifies=["lbl_idx_counter.count", "alloc"],
        canaries=["result.id == old(lbl_idx_counter.count)"], properties=["C05", "C08"])
    register_build_op(reg)


def register_build_op(reg: Registry) -> None:
    SMM = "explorerscript.source_map"
    reg.load_module(SMM)
    reg.fields({"ExplorerScriptMacro.source_map": "SourceMap", "ExplorerScriptMacro.name": "str", "ExplorerScriptMacro.included__relative_path": "str | None",
                "SourceMap._mappings": "dict[int, SourceMapping]", "SourceMap._mappings_macros": "dict[int, MacroSourceMapping]",
                "MacroSourceMapping.relpath_included_file": "str | None", "MacroSourceMapping.macro_name": "str", "MacroSourceMapping.called_in": "tuple[str | None, int, int] | None",
                "SourceMapping.line": "int", "SourceMapping.column": "int",
                "SourceMapBuilder._mappings_macros": "dict[int, MacroSourceMapping]", "SourceMapBuilder._macro_context__stack": "list[tuple[int, Any]]",
                "SsbOperation.offset": "int", "SsbOperation.params": "list[Any]", "SsbOperation.op_code": "SsbOpCode"})
    reg.contract(SMM + ":SourceMap.get_op_line_and_col__macros", types={"self": "SourceMap", "op_offset": "int"}, returns="MacroSourceMapping | None",
                 ensures=["result is ite(op_offset in self._mappings_macros, self._mappings_macros[op_offset], None)"], modifies=[], properties=["C08"],
                 canaries=["is_none(result)"])
    reg.contract(SMM + ":SourceMap.get_op_line_and_col__direct", types={"self": "SourceMap", "op_offset": "int"}, returns="SourceMapping | None",
                 ensures=["result is ite(op_offset in self._mappings, self._mappings[op_offset], None)"], modifies=[], properties=["C08"],
                 canaries=["is_none(result)"])
    E = "smb._mappings_macros[result.offset]"
    RELAY = "old(blueprint_op.offset in self.source_map._mappings_macros)"
    SRC = "old(self.source_map._mappings_macros[blueprint_op.offset])"
    reg.contract(
        M + ":ExplorerScriptMacro._build_op",
        types={"self": "ExplorerScriptMacro", "op_idx_counter": "Counter", "blueprint_op": "Sub[SsbOperation]", "smb": "SourceMapBuilder", "params": "dict[str, Any]"},
        returns="SsbOperation",
        requires=[
            "len(smb._macro_context__stack) >= 1",
            # every blueprint op has an entry in the macro's own source map (direct, or relayed from a nested macro)
            "blueprint_op.offset in self.source_map._mappings_macros or blueprint_op.offset in self.source_map._mappings",
            "smb._mappings_macros is not self.source_map._mappings_macros",
        ],
        ensures=[
            "fresh(result)", "type_is(result, SsbOperation)", "result.op_code is blueprint_op.op_code",
            # C03/C08: exactly one new op number per built op
            "result.offset == old(op_idx_counter.count) + 1", "op_idx_counter.count == old(op_idx_counter.count) + 1",
            "fresh(result.params) and len(result.params) == len(blueprint_op.params)",
            # C08: macro entry under the new number; it takes the return address on top of the macro context stack
            f"result.offset in smb._mappings_macros and fresh({E})",
            f"{E}.return_addr is old(smb._macro_context__stack[len(smb._macro_context__stack) - 1][0])",
            # op written in this macro: this macro's file, name and the position recorded for the blueprint op
            f"implies(not {RELAY}, {E}.relpath_included_file is self.included__relative_path and {E}.macro_name == self.name and {E}.line == old(self.source_map._mappings[blueprint_op.offset].line) and {E}.column == old(self.source_map._mappings[blueprint_op.offset].column))",
            # op relayed from a nested macro: that macro's name and position; a None file means 'the file of this macro'
            f"implies({RELAY}, {E}.macro_name == {SRC}.macro_name and {E}.line == {SRC}.line and {E}.column == {SRC}.column and {E}.relpath_included_file is ite(is_none({SRC}.relpath_included_file), self.included__relative_path, {SRC}.relpath_included_file))",
        ],
        modifies=["op_idx_counter.count", "dict(smb._mappings_macros)", "smb._next_macro_called_in", "alloc"],
        canaries=[f"{E}.macro_name == self.name"],
        properties=["C08", "C05", "C03"])
