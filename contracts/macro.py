"""Sidecar contracts for explorerscript/macro.py helpers (C05: parameter substitution; labels private per expansion)."""
from pyvc.spec import Registry

M = "explorerscript.macro"


def register(reg: Registry) -> None:
    reg.load_module("explorerscript.ssb_converting.ssb_data_types")
    reg.load_module("explorerscript.ssb_converting.ssb_special_ops")
    reg.load_module("explorerscript.ssb_converting.compiler.utils")
    reg.fields({"SsbOpParamConstant.name": "str", "Counter.count": "int", "SsbLabel.id": "int", "SsbLabel.debugging_note": "Any",
                "MacroStartSsbLabel.length_of_macro": "int", "MacroStartSsbLabel.parameter_mapping": "Any"})
    # C05: "parameters substituted by the call's arguments": a constant naming a macro variable is replaced by the argument,
    # every other parameter is kept (same object, same position)
    reg.contract(
        M + ":ExplorerScriptMacro._process_parameters",
        types={"self": "ExplorerScriptMacro", "original_params": "list[Any]", "macro_params": "dict[str, Any]"}, returns="list[Any]",
        ensures=[
            "fresh(result)", "len(result) == len(original_params)",
            "all_int(lambda j: implies(0 <= j and j < len(original_params), result[j] is ite(isinstance(original_params[j], SsbOpParamConstant) and typed(original_params[j], 'SsbOpParamConstant').name in macro_params, macro_params[typed(original_params[j], 'SsbOpParamConstant').name], original_params[j])))",
            "unchanged_list(original_params)",
        ],
        modifies=["alloc"],
        loops={0: dict(invariants=[
            "fresh(new_params)", "len(new_params) == it_i",
            "all_int(lambda j: implies(0 <= j and j < it_i, new_params[j] is ite(isinstance(original_params[j], SsbOpParamConstant) and typed(original_params[j], 'SsbOpParamConstant').name in macro_params, macro_params[typed(original_params[j], 'SsbOpParamConstant').name], original_params[j])))"])},
        canaries=["all_int(lambda j: implies(0 <= j and j < len(original_params), result[j] is original_params[j]))"],
        # C03: `fresh(result)` is why every expansion owns its parameter list - OpsLabelJumpToRemover appends the jump target to it
        # in place, so a shared list would carry the targets of all expansions and the op's own target would not be the last one
        properties=["C05", "C03"])
    # C05: "the body's labels private to each expansion": every copied label gets a fresh id from the label counter
    reg.contract(
        M + ":ExplorerScriptMacro._copy_blueprint_label",
        types={"self": "ExplorerScriptMacro", "lbl_idx_counter": "Counter", "blueprint_op": "Sub[SsbLabel]"}, returns="Sub[SsbLabel]",
        ensures=["fresh(result)", "result.id == old(lbl_idx_counter.count) + 1", "lbl_idx_counter.count == old(lbl_idx_counter.count) + 1",
                 "result.routine_id == -1",
                 # the copy has the class of the blueprint label (macro start / end labels stay what they are)
                 "isinstance(result, MacroStartSsbLabel) == isinstance(blueprint_op, MacroStartSsbLabel)",
                 "isinstance(result, MacroEndSsbLabel) == isinstance(blueprint_op, MacroEndSsbLabel)",
                 "implies(isinstance(blueprint_op, MacroStartSsbLabel), typed(result, 'MacroStartSsbLabel').length_of_macro == typed(blueprint_op, 'MacroStartSsbLabel').length_of_macro)"],
        modifies=["lbl_idx_counter.count", "alloc"],
        canaries=["result.id == old(lbl_idx_counter.count)"], properties=["C05", "C08"])
    register_build_op(reg)
    import os

    if os.environ.get("PYVC_EXPERIMENTAL"):
        register_build(reg)  # ExplorerScriptMacro.build: draft, 191/206 obligations discharged; not part of the checks yet


def register_build_op(reg: Registry) -> None:
    SMM = "explorerscript.source_map"
    reg.load_module(SMM)
    reg.fields({"ExplorerScriptMacro.source_map": "SourceMap", "ExplorerScriptMacro.name": "str", "ExplorerScriptMacro.included__relative_path": "str | None",
                "SourceMap._mappings": "dict[int, SourceMapping]", "SourceMap._mappings_macros": "dict[int, MacroSourceMapping]",
                "MacroSourceMapping.relpath_included_file": "str | None", "MacroSourceMapping.macro_name": "str", "MacroSourceMapping.called_in": "tuple[str | None, int, int] | None",
                "SourceMapping.line": "int", "SourceMapping.column": "int",
                "SourceMapBuilder._mappings_macros": "dict[int, MacroSourceMapping]", "SourceMapBuilder._macro_context__stack": "list[tuple[int, Any]]",
                "SsbOperation.offset": "int", "SsbOperation.params": "list[Any]", "SsbOperation.op_code": "SsbOpCode"})
    reg.contract(SMM + ":SourceMap.get_op_line_and_col__macros", types={"self": "SourceMap", "op_offset": "int"}, returns="MacroSourceMapping | None",
                 ensures=["result is ite(op_offset in self._mappings_macros, self._mappings_macros[op_offset], None)"], modifies=[], properties=["C08"],
                 canaries=["is_none(result)"])
    reg.contract(SMM + ":SourceMap.get_op_line_and_col__direct", types={"self": "SourceMap", "op_offset": "int"}, returns="SourceMapping | None",
                 ensures=["result is ite(op_offset in self._mappings, self._mappings[op_offset], None)"], modifies=[], properties=["C08"],
                 canaries=["is_none(result)"])
    E = "smb._mappings_macros[result.offset]"
    RELAY = "old(blueprint_op.offset in self.source_map._mappings_macros)"
    SRC = "old(self.source_map._mappings_macros[blueprint_op.offset])"
    reg.contract(
        M + ":ExplorerScriptMacro._build_op",
        types={"self": "ExplorerScriptMacro", "op_idx_counter": "Counter", "blueprint_op": "Sub[SsbOperation]", "smb": "SourceMapBuilder", "params": "dict[str, Any]"},
        returns="SsbOperation",
        requires=[
            "len(smb._macro_context__stack) >= 1",
            # every blueprint op has an entry in the macro's own source map (direct, or relayed from a nested macro)
            "blueprint_op.offset in self.source_map._mappings_macros or blueprint_op.offset in self.source_map._mappings",
            "smb._mappings_macros is not self.source_map._mappings_macros",
        ],
        ensures=[
            "fresh(result)", "type_is(result, SsbOperation)", "result.op_code is blueprint_op.op_code",
            # C03/C08: exactly one new op number per built op
            "result.offset == old(op_idx_counter.count) + 1", "op_idx_counter.count == old(op_idx_counter.count) + 1",
            "fresh(result.params) and len(result.params) == len(blueprint_op.params)",
            # C08: macro entry under the new number; it takes the return address on top of the macro context stack
            f"result.offset in smb._mappings_macros and fresh({E})",
            f"{E}.return_addr is old(smb._macro_context__stack[len(smb._macro_context__stack) - 1][0])",
            # the other macro entries are kept
            "all_val(lambda k: implies(old(k in smb._mappings_macros) and k != result.offset, k in smb._mappings_macros and smb._mappings_macros[k] is old(smb._mappings_macros[k])))",
            # op written in this macro: this macro's file, name and the position recorded for the blueprint op
            f"implies(not {RELAY}, {E}.relpath_included_file is self.included__relative_path and {E}.macro_name == self.name and {E}.line == old(self.source_map._mappings[blueprint_op.offset].line) and {E}.column == old(self.source_map._mappings[blueprint_op.offset].column))",
            # op relayed from a nested macro: that macro's name and position; a None file means 'the file of this macro'
            f"implies({RELAY}, {E}.macro_name == {SRC}.macro_name and {E}.line == {SRC}.line and {E}.column == {SRC}.column and {E}.relpath_included_file is ite(is_none({SRC}.relpath_included_file), self.included__relative_path, {SRC}.relpath_included_file))",
        ],
        modifies=["op_idx_counter.count", "dict(smb._mappings_macros)", "smb._next_macro_called_in", "alloc"],
        canaries=[f"{E}.macro_name == self.name"],
        properties=["C08", "C05", "C03"])


def register_build(reg: Registry) -> None:
    SMM = "explorerscript.source_map"
    reg.fields({"ExplorerScriptMacro.variables": "list[str]", "ExplorerScriptMacro.blueprints": "list[Sub[SsbOperation]]",
                "SsbLabelJump._root": "SsbOperation | None", "SsbLabelJump.label": "Sub[SsbLabel] | None", "SsbLabelJump.markers": "list[Any]", "SsbLabel.markers": "list[Any]",
                "SourceMap._position_marks": "list[SourceMapPositionMark]", "SourceMap._position_marks_macro": "list[tuple[str | None, str, SourceMapPositionMark]]",
                "SourceMapBuilder._pos_marks_macros": "list[Any]", "SsbNamedId.name": "str"})
    reg.contract(M + ":ExplorerScriptMacro._create_parameter_mapping", types={"self": "ExplorerScriptMacro", "parameters": "dict[str, Any]"}, returns="dict[str, str]",
                 ensures=["fresh(result)"], modifies=["alloc"], trusted=False, properties=["C08"], canaries=["not fresh(result)"])
    reg.contract(M + ":ExplorerScriptMacro._replace_in_param_mapping", types={"self": "ExplorerScriptMacro", "parameter_mapping": "dict[str, str]", "our_parameters": "dict[str, Any]"},
                 returns="dict[str, str]", ensures=["fresh(result)"], modifies=["alloc"], properties=["C08"], canaries=["not fresh(result)"],
                 loops={0: dict(invariants=["fresh(new_dict)"])})
    reg.contract(SMM + ":SourceMapBuilder.add_macro_position_mark", types={"self": "SourceMapBuilder", "if_incl_rel_path": "str | None", "macro_name": "str", "position_mark": "SourceMapPositionMark"},
                 returns="SourceMapBuilder",
                 ensures=["result is self", "len(self._pos_marks_macros) == old(len(self._pos_marks_macros)) + 1",
                          "typed(self._pos_marks_macros[len(self._pos_marks_macros) - 1], 'tuple[Any, str, Any]')[2] is position_mark"],
                 modifies=["list(self._pos_marks_macros)", "alloc"], properties=["C08"], canaries=["len(self._pos_marks_macros) == old(len(self._pos_marks_macros))"])
    NL = "count_not_inst(self.blueprints, {n}, SsbLabel)"
    DEPTH = "count_inst(self.blueprints, {n}, MacroStartSsbLabel) - count_inst(self.blueprints, {n}, MacroEndSsbLabel)"
    HAS_ENTRY = "(o.offset in self.source_map._mappings_macros or o.offset in self.source_map._mappings)"
    reg.spec_fn("bp_root", ["o"], "ite(isinstance(o, SsbLabelJump), typed(o, 'SsbLabelJump')._root, o)")
    reg.contract(
        M + ":ExplorerScriptMacro.build",
        types={"self": "ExplorerScriptMacro", "op_idx_counter": "Counter", "lbl_idx_counter": "Counter", "parameters": "dict[str, Any]", "smb": "SourceMapBuilder"},
        returns="list[Sub[SsbOperation]]",
        requires=[
            "op_idx_counter is not lbl_idx_counter",
            "smb._mappings_macros is not self.source_map._mappings_macros",
            "smb._pos_marks_macros is not self.source_map._position_marks_macro and smb._pos_marks_macros is not self.source_map._position_marks",
            "smb._macro_context__stack is not self.blueprints and smb._pos_marks_macros is not self.blueprints and smb._macro_context__stack is not smb._pos_marks_macros",
            "smb._macro_context__stack is not self.variables and smb._pos_marks_macros is not self.variables",
            # complete label jumps; every real op of the body has an entry in the macro's own source map
            "all_int(lambda i: implies(0 <= i and i < len(self.blueprints) and isinstance(self.blueprints[i], SsbLabelJump), not is_none(typed(self.blueprints[i], 'SsbLabelJump')._root) and not is_none(typed(self.blueprints[i], 'SsbLabelJump').label)))",
            "all_int(lambda i: implies(0 <= i and i < len(self.blueprints) and not isinstance(self.blueprints[i], SsbLabel), bp_root(self.blueprints[i]).offset in self.source_map._mappings_macros or bp_root(self.blueprints[i]).offset in self.source_map._mappings))",
            # nested expansions inside the body are well bracketed (every prefix opens at least as many as it closes)
            f"all_int(lambda i: implies(0 <= i and i <= len(self.blueprints), {DEPTH.format(n='i')} >= 0))",
        ],
        raises=[("ValueError", "any_int(lambda j: 0 <= j and j < len(self.variables) and self.variables[j] not in parameters)", True)],
        ensures=[
            # C03/C08: exactly one op number per real blueprint op
            f"op_idx_counter.count == old(op_idx_counter.count) + {NL.format(n='len(self.blueprints)')}",
            # the macro context stack is back where nested expansions leave it
            f"len(smb._macro_context__stack) == old(len(smb._macro_context__stack)) + {DEPTH.format(n='len(self.blueprints)')}",
            "fresh(result)", "len(result) == len(self.blueprints) + 2",
            # expansion = start label (carrying 1 + number of real ops), body, end label as LAST element
            f"type_is(result[0], MacroStartSsbLabel) and fresh(result[0]) and typed(result[0], 'MacroStartSsbLabel').length_of_macro == {NL.format(n='len(self.blueprints)')} + 1",
            "type_is(result[len(result) - 1], MacroEndSsbLabel) and fresh(result[len(result) - 1])",
            # every op built for this expansion has a macro source-map entry
            "all_int(lambda k: implies(old(op_idx_counter.count) < k and k <= op_idx_counter.count, k in smb._mappings_macros))",
        ],
        modifies=["op_idx_counter.count", "lbl_idx_counter.count", "dict(smb._mappings_macros)", "smb._next_macro_called_in", "list(smb._macro_context__stack)", "list(smb._pos_marks_macros)", "*markers", "alloc"],
        loops={
            0: dict(invariants=["all_int(lambda j: implies(0 <= j and j < it_i, self.variables[j] in parameters))"]),
            1: dict(invariants=[
                f"op_idx_counter.count == old(op_idx_counter.count) + {NL.format(n='it_i')}",
                f"len(smb._macro_context__stack) == old(len(smb._macro_context__stack)) + 1 + {DEPTH.format(n='it_i')}",
                "fresh(out_ops) and len(out_ops) == it_i + 1 and type_is(out_ops[0], MacroStartSsbLabel) and fresh(out_ops[0])",
                f"typed(out_ops[0], 'MacroStartSsbLabel').length_of_macro == {NL.format(n='len(self.blueprints)')} + 1",
                "fresh(end_label) and type_is(end_label, MacroEndSsbLabel)",
                "fresh(new_labels)",
                "unchanged_list(self.blueprints) and unchanged_list(self.variables)",
                "all_int(lambda k: implies(old(op_idx_counter.count) < k and k <= op_idx_counter.count, k in smb._mappings_macros))",
                "unchanged_dict(self.source_map._mappings_macros) and unchanged_dict(self.source_map._mappings)",
                "all_ref(lambda r: implies(r is not op_idx_counter and r is not lbl_idx_counter and old_allocated(r), r.count == old(r.count)), 'Counter')",
                "all_ref(lambda r: implies(r is not smb and old_allocated(r), r._next_macro_called_in is old(r._next_macro_called_in)), 'SourceMapBuilder')",
            ]),
            2: dict(invariants=[]),
            3: dict(invariants=[]),
        },
        canaries=[f"typed(result[0], 'MacroStartSsbLabel').length_of_macro == {NL.format(n='len(self.blueprints)')}"],
        properties=["C08", "C05", "C03"])
