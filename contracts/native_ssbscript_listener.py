"""Native monitor for SsbScriptCompilerListener._enlarge_routine_info (run-time form of the contract in
contracts/ssbscript_listener.py; exitLabel / exitOperation need ANTLR contexts and are exercised by C07's T3 instead)."""
import random

from explorerscript.error import SsbCompilerError
from explorerscript.ssb_converting.ssb_data_types import SsbRoutineInfo, SsbRoutineType
from explorerscript.ssb_script.ssb_converting.compiler.compiler_listener import SsbScriptCompilerListener

L = "explorerscript.ssb_script.ssb_converting.compiler.compiler_listener"


def gen(rng: random.Random):
    n = rng.randint(0, 4)
    infos = [rng.choice([None, SsbRoutineInfo(SsbRoutineType.GENERIC, 0)]) for _ in range(n)]
    return {"infos": infos, "active": rng.randint(-2, n + 3)}


def monitor(args):
    if "self" in args:  # a solver counterexample realised as objects
        lis = args["self"]
        infos = list(lis.routine_infos)
        if not (len(lis.routine_infos) == len(lis.routine_ops) == len(lis.named_coroutines)):
            return None  # outside requires
        a = lis._active_routine_id
    else:
        lis = SsbScriptCompilerListener()
        infos = list(args["infos"])
        lis.routine_infos = list(infos)
        lis.routine_ops = [[] for _ in infos]
        lis.named_coroutines = [[] for _ in infos]
        lis._active_routine_id = a = args["active"]
    ops_before = list(lis.routine_ops)
    should_raise = a < 0 or (a < len(infos) and infos[a] is not None)
    try:
        lis._enlarge_routine_info()
    except SsbCompilerError:
        return None if should_raise else f"SsbCompilerError for id {a} with {len(infos)} routines, slot free"
    if should_raise:
        return f"no SsbCompilerError for routine id {a} (negative or already used)"
    if not (len(lis.routine_infos) == len(lis.routine_ops) == len(lis.named_coroutines)):
        return "the three tables have different lengths"
    if len(lis.routine_infos) != max(len(infos), a + 1):
        return f"tables have length {len(lis.routine_infos)}, expected {max(len(infos), a + 1)}"
    if any(x is not y for x, y in zip(lis.routine_infos, infos)) or any(x is not y for x, y in zip(lis.routine_ops, ops_before)):
        return "existing entries were replaced"
    for j in range(len(infos), len(lis.routine_infos)):
        if lis.routine_infos[j] is not None or lis.routine_ops[j] != []:
            return "a new entry is not empty"
    return None


def rep(args):
    return repr(([None if x is None else "info" for x in args["infos"]], args["active"]))


NATIVE = {L + ":SsbScriptCompilerListener._enlarge_routine_info": {"gen": gen, "monitor": monitor, "repr": rep}}
