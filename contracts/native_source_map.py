"""Native (run-time) monitors and input generators for the source_map contracts.

monitor(args) calls the REAL function from /repo on args and checks the contract natively; returns None or a message.
Used (a) to replay solver counterexamples, (b) as CPython cross-check of contract + encoding on random inputs,
(c) as the bounded stand-in for clauses not within the deductive layer.
"""
from __future__ import annotations

import copy
import json
import random

from explorerscript.source_map import MacroSourceMapping, SourceMap, SourceMapping, SourceMapPositionMark, SourceMapBuilder

SM = "explorerscript.source_map"
PM_FIELDS = ["line_number", "column_number", "end_line_number", "end_column_number", "name", "x_offset", "y_offset", "x_relative", "y_relative"]
MM_FIELDS = ["relpath_included_file", "macro_name", "line", "column", "called_in", "return_addr", "parameter_mapping"]


# ------------------------------------------------------------------ generators
def g_str(rng: random.Random) -> str:
    return rng.choice(["", "a", "mark", "m 1", 'q"x', "ünï", "a\nb", "0"])


def g_pm(rng) -> SourceMapPositionMark:
    return SourceMapPositionMark(rng.randint(0, 50), rng.randint(0, 80), rng.randint(0, 50), rng.randint(0, 80), g_str(rng), rng.choice([0, 1, 2, 3, 4]), rng.choice([0, 2, 4]), rng.randint(-5, 60), rng.randint(-5, 60))


def g_mapping(rng) -> SourceMapping:
    return SourceMapping(rng.randint(0, 99), rng.randint(0, 99))


def g_macro(rng, offsets_hi: int = 12) -> MacroSourceMapping:
    called = rng.choice([None, (None, rng.randint(0, 9), rng.randint(0, 9)), ("inc/x.exps", rng.randint(0, 9), 0)])
    ra = rng.choice([None, 0, rng.randint(1, offsets_hi + 3), rng.randint(1, offsets_hi + 3)])
    pm = {g_str(rng) or "p": rng.choice([1, "x", "'s'"]) for _ in range(rng.randint(0, 2))}
    return MacroSourceMapping(rng.choice([None, "a.exps", "../b/c.exps"]), g_str(rng) or "m", rng.randint(0, 99), rng.randint(0, 99), called, ra, pm)


def g_map(rng, hi: int = 12) -> SourceMap:
    keys = rng.sample(range(0, hi), rng.randint(0, min(6, hi)))
    rest = [k for k in range(0, hi) if k not in keys]
    mkeys = rng.sample(rest, rng.randint(0, min(5, len(rest))))
    return SourceMap(
        {k: g_mapping(rng) for k in keys},
        [g_pm(rng) for _ in range(rng.randint(0, 3))],
        {k: g_macro(rng, hi) for k in mkeys},
        [(rng.choice([None, "f.exps"]), g_str(rng) or "m", g_pm(rng)) for _ in range(rng.randint(0, 2))],
    )


def g_offset_mapping(rng, hi: int = 12) -> dict[int, int]:
    olds = rng.sample(range(0, hi + 2), rng.randint(0, hi))
    news = rng.sample(range(0, 3 * hi), len(olds))  # injective, not monotone in general
    if rng.random() < 0.3:
        news = sorted(news)
        olds = sorted(olds)
    return dict(zip(olds, news))


# ------------------------------------------------------------------ field views
def pm_view(p: SourceMapPositionMark):
    return [getattr(p, f) for f in PM_FIELDS]


def seq(x):
    return list(x) if isinstance(x, (list, tuple)) else x


def mm_view(m: MacroSourceMapping):
    return [m.relpath_included_file, m.macro_name, m.line, m.column, seq(m.called_in), m.return_addr, dict(m.parameter_mapping)]


def map_view(sm: SourceMap):
    return {
        "map": {k: [v.line, v.column] for k, v in sm._mappings.items()},
        "pos": [pm_view(p) for p in sm._position_marks],
        "mmap": {k: mm_view(v) for k, v in sm._mappings_macros.items()},
        "mpos": [[a, b, pm_view(p)] for a, b, p in sm._position_marks_macro],
    }


# ------------------------------------------------------------------ monitors
def mon_leaf_serialize(cls, fields):
    def monitor(args):
        x = args["self"]
        before = [getattr(x, f) for f in fields]
        r = x.serialize()
        if not isinstance(r, list) or len(r) != len(fields):
            return f"serialize returned {r!r}"
        for i, f in enumerate(fields):
            if r[i] is not before[i]:
                return f"result[{i}] is not self.{f}"
        if [getattr(x, f) for f in fields] != before:
            return "serialize changed self"
        return None

    return monitor


def mon_leaf_deserialize(cls, fields):
    def monitor(args):
        dl = args["data_list"]
        if len(dl) < len(fields):
            return None  # outside requires
        snapshot = list(dl)
        r = cls.deserialize(dl)
        if type(r) is not cls:
            return f"deserialize returned a {type(r).__name__}"
        for i, f in enumerate(fields):
            if getattr(r, f) is not snapshot[i]:
                return f"result.{f} is not data_list[{i}]"
        if list(dl) != snapshot:
            return "deserialize changed its argument"
        return None

    return monitor


def expected_ra(a, nm: dict):
    """C14's rule for a return address (reference implementation, from the property text)."""
    if a is None or a == 0:
        return a
    later = [k for k in nm if k >= a]
    if later:
        return nm[min(later)]
    return a


def mon_rewrite(args):
    sm: SourceMap = args["self"]
    nm: dict = args["new_mapping"]
    # requires
    if len(set(nm.values())) != len(nm) or not all(isinstance(k, int) and not isinstance(k, bool) for k in nm):
        return None
    objs = list(sm._mappings_macros.values())
    if len({id(o) for o in objs}) != len(objs):
        return None
    old_map = dict(sm._mappings)
    old_mm = dict(sm._mappings_macros)
    old_ra = {k: v.return_addr for k, v in old_mm.items()}
    old_pos = list(sm._position_marks), list(sm._position_marks_macro)
    nm_before = dict(nm)
    sm.rewrite_offsets(nm)
    if nm != nm_before:
        return "rewrite_offsets changed the offset mapping it was given"
    exp_map = {nm[k]: v for k, v in old_map.items() if k in nm}
    if set(sm._mappings) != set(exp_map) or any(sm._mappings[k] is not exp_map[k] for k in exp_map):
        return f"op table is {sorted(sm._mappings)}; expected entries {sorted(exp_map)} (each old entry at the new offset of its op)"
    exp_mm = {nm[k]: v for k, v in old_mm.items() if k in nm}
    if set(sm._mappings_macros) != set(exp_mm) or any(sm._mappings_macros[k] is not exp_mm[k] for k in exp_mm):
        return f"macro table is {sorted(sm._mappings_macros)}; expected {sorted(exp_mm)}"
    for k, m in old_mm.items():
        if k in nm:
            e = expected_ra(old_ra[k], nm)
            if m.return_addr != e or (e is None) != (m.return_addr is None):
                return f"macro entry of old offset {k}: return address {old_ra[k]} became {m.return_addr}, expected {e} (mapping {nm})"
        elif m.return_addr != old_ra[k]:
            return f"dropped macro entry {k} had its return address changed"
    if (list(sm._position_marks), list(sm._position_marks_macro)) != old_pos:
        return "position marks changed"
    return None


def mon_roundtrip(args):
    sm: SourceMap = args["self"]
    before = copy.deepcopy(map_view(sm))
    text = sm.serialize()
    if map_view(sm) != before:
        return "serialize changed the map"
    back = SourceMap.deserialize(text)
    v = map_view(back)
    if v != before:
        for part in ("map", "pos", "mmap", "mpos"):
            if v[part] != before[part]:
                return f"round trip differs in {part}: {before[part]!r} -> {v[part]!r}"
    for table in (back._mappings, back._mappings_macros):
        if not all(isinstance(k, int) and not isinstance(k, bool) for k in table):
            return "keys are not restored as int"
    if not (back == sm):
        return "deserialize(serialize(m)) does not compare equal to m (SourceMap.__eq__)"
    if not (sm == back):
        return "m does not compare equal to deserialize(serialize(m))"
    text2 = back.serialize()
    if text2 != text:
        return "serialising again gives a different text"
    # pretty form decodes to the same
    if map_view(SourceMap.deserialize(sm.serialize(pretty=True))) != before:
        return "pretty serialisation does not round-trip"
    json.loads(text)
    return None


def rep_map(args):
    out = {}
    for k, v in args.items():
        out[k] = map_view(v) if isinstance(v, SourceMap) else (pm_view(v) if isinstance(v, SourceMapPositionMark) else (mm_view(v) if isinstance(v, MacroSourceMapping) else ([v.line, v.column] if isinstance(v, SourceMapping) else v)))
    return json.dumps(out, sort_keys=True, default=str)


def mon_pm_eq(args):
    x, o = args["self"], args["other"]
    r = x.__eq__(o)
    if not isinstance(o, SourceMapPositionMark):
        return None if r is False else f"__eq__ with a non-mark returned {r!r}"
    want = all(getattr(x, f) == getattr(o, f) for f in PM_FIELDS)
    return None if r is want else f"__eq__ returned {r!r}, field-wise equality is {want!r}"


def g_pm_pair(rng):
    a = g_pm(rng)
    k = rng.randint(0, 11)
    if k == 10:
        return {"self": a, "other": rng.choice([None, 3, "x", pm_view(a)])}
    b = SourceMapPositionMark(*[getattr(a, f) for f in PM_FIELDS])
    if k < 9:  # differ in exactly one field
        f = PM_FIELDS[k]
        setattr(b, f, (getattr(a, f) + "z") if f == "name" else getattr(a, f) + 1)
    return {"self": a, "other": b}


def mon_is_empty(args):
    x = args["self"]
    r = x.is_empty
    return None if r is (len(x._mappings) == 0) else f"is_empty returned {r!r} for {len(x._mappings)} op entries"


def g_maybe_empty_map(rng):
    m = g_map(rng)
    if rng.randint(0, 2) == 0:
        m._mappings = {}
    return {"self": m}


def mon_add_macro_pm(args):
    from explorerscript.source_map import SourceMapBuilder
    b = args.get("self")
    if not isinstance(b, SourceMapBuilder):
        b = SourceMapBuilder()
        for i in range(args.get("n_before", 0)):
            b.add_macro_position_mark(None, f"m{i}", SourceMapPositionMark(i, 0, i, 1, "p", 0, 0, i, i))
    before = list(b._pos_marks_macros)
    r = b.add_macro_position_mark(args["if_incl_rel_path"], args["macro_name"], args["position_mark"])
    if r is not b:
        return "result is not self"
    after = b._pos_marks_macros
    if len(after) != len(before) + 1 or any(x is not y for x, y in zip(after, before)):
        return "earlier macro position marks were not kept in place"
    last = after[-1]
    if not (isinstance(last, tuple) and len(last) == 3 and last[0] is args["if_incl_rel_path"] and last[1] is args["macro_name"] and last[2] is args["position_mark"]):
        return f"last entry is {last!r}"
    return None


def mon_mm_eq(args):
    x, o = args["self"], args["other"]
    r = x.__eq__(o)
    if not isinstance(o, MacroSourceMapping):
        return None if r is False else f"__eq__ with a non-macro-mapping returned {r!r}"
    want = mm_view(x) == mm_view(o)
    return None if r is want else f"__eq__ returned {r!r}, field-wise equality is {want!r}"


def g_mm_pair(rng):
    a = g_macro(rng)
    k = rng.randint(0, 9)
    if k == 9:
        return {"self": a, "other": rng.choice([None, 3, SourceMapping(a.line, a.column)])}
    b = MacroSourceMapping.deserialize(json.loads(json.dumps(a.serialize())))
    if k == 0:
        b.line += 1
    elif k == 1:
        b.column += 1
    elif k == 2:
        b.relpath_included_file = "other.exps" if b.relpath_included_file != "other.exps" else None
    elif k == 3:
        b.macro_name = b.macro_name + "_"
    elif k == 4:
        b.called_in = None if b.called_in is not None else ("f", 1, 2)
    elif k == 5:
        b.return_addr = (b.return_addr or 0) + 1
    elif k == 6:
        b.parameter_mapping = dict(b.parameter_mapping, zz=1)
    return {"self": a, "other": b}


def mon_sm_eq(args):
    x, o = args["self"], args["other"]
    r = x.__eq__(o)
    want = isinstance(o, SourceMapping) and type(o) is type(x) and (o.line, o.column) == (x.line, x.column)
    if isinstance(x, MacroSourceMapping):
        return None  # MacroSourceMapping.__eq__ has its own contract
    return None if r is want else f"__eq__ returned {r!r}, same class and position is {want!r}"


def g_sm_pair(rng):
    a = g_mapping(rng)
    k = rng.randint(0, 5)
    if k == 0:
        return {"self": a, "other": a}
    if k == 1:
        return {"self": a, "other": SourceMapping(a.line, a.column)}
    if k == 2:
        return {"self": a, "other": SourceMapping(a.line + 1, a.column)}
    if k == 3:
        return {"self": a, "other": SourceMapping(a.line, a.column + 1)}
    if k == 4:
        return {"self": a, "other": MacroSourceMapping(None, "m", a.line, a.column, None, None, {})}
    return {"self": a, "other": rng.choice([None, 1, [a.line, a.column]])}


NATIVE = {
    SM + ":SourceMapPositionMark.serialize": {"gen": lambda r: {"self": g_pm(r)}, "monitor": mon_leaf_serialize(SourceMapPositionMark, PM_FIELDS), "repr": rep_map},
    SM + ":SourceMapPositionMark.deserialize": {"gen": lambda r: {"data_list": pm_view(g_pm(r))}, "monitor": mon_leaf_deserialize(SourceMapPositionMark, PM_FIELDS), "repr": rep_map},
    SM + ":SourceMapping.serialize": {"gen": lambda r: {"self": g_mapping(r)}, "monitor": mon_leaf_serialize(SourceMapping, ["line", "column"]), "repr": rep_map},
    SM + ":SourceMapping.deserialize": {"gen": lambda r: {"data_list": [r.randint(0, 9), r.randint(0, 9)]}, "monitor": mon_leaf_deserialize(SourceMapping, ["line", "column"]), "repr": rep_map},
    SM + ":MacroSourceMapping.serialize": {"gen": lambda r: {"self": g_macro(r)}, "monitor": mon_leaf_serialize(MacroSourceMapping, MM_FIELDS), "repr": rep_map},
    SM + ":MacroSourceMapping.deserialize": {"gen": lambda r: {"data_list": g_macro(r).serialize()}, "monitor": mon_leaf_deserialize(MacroSourceMapping, MM_FIELDS), "repr": rep_map},
    SM + ":SourceMap.rewrite_offsets": {"gen": lambda r: {"self": g_map(r), "new_mapping": g_offset_mapping(r)}, "monitor": mon_rewrite, "repr": rep_map},
    SM + ":SourceMap.serialize": {"gen": lambda r: {"self": g_map(r)}, "monitor": mon_roundtrip, "repr": rep_map},
    SM + ":SourceMapPositionMark.__eq__": {"gen": g_pm_pair, "monitor": mon_pm_eq, "repr": rep_map},
    SM + ":SourceMapBuilder.add_macro_position_mark": {"gen": lambda r: {"n_before": r.randint(0, 3), "if_incl_rel_path": r.choice([None, "a.exps"]), "macro_name": g_str(r), "position_mark": g_pm(r)}, "monitor": mon_add_macro_pm, "repr": rep_map},
    SM + ":MacroSourceMapping.__eq__": {"gen": g_mm_pair, "monitor": mon_mm_eq, "repr": rep_map},
    SM + ":SourceMapping.__eq__": {"gen": g_sm_pair, "monitor": mon_sm_eq, "repr": rep_map},
}
