"""Sidecar contracts for the SsbScript compiler listener's label/offset bookkeeping (C07, C03).

C07: "labels bound to next op", "several labels on one op", "every jump parameter denoting the corresponding op":
exitLabel queues the label, exitOperation numbers the op and gives every queued label that number.
"""
from pyvc.spec import Registry

L = "explorerscript.ssb_script.ssb_converting.compiler.compiler_listener"
SMM = "explorerscript.source_map"


def register(reg: Registry) -> None:
    reg.load_module("explorerscript.ssb_converting.ssb_special_ops")
    reg.load_module("explorerscript.ssb_converting.ssb_data_types")
    reg.load_module(SMM)
    reg.opaque_class("Token", {"line": "int", "column": "int"})
    reg.opaque_class("LabelContext", {}, {"IDENTIFIER": "Any"})
    reg.opaque_class("OperationContext", {"start": "Token", "stop": "Token"}, {"IDENTIFIER": "Any", "inline_ctx": "Any"})
    reg.fields({
        "SsbScriptCompilerListener._collected_labels": "dict[str, Sub[SsbLabel]]", "SsbScriptCompilerListener._label_increment_id": "int",
        "SsbScriptCompilerListener._collected_ops": "list[Sub[SsbOperation]]", "SsbScriptCompilerListener._labels_before_op": "list[Sub[SsbLabel]]",
        "SsbScriptCompilerListener._total_number_collected_ops": "int", "SsbScriptCompilerListener._collected_params": "list[Any]",
        "SsbScriptCompilerListener._turn_next_op_into_label_jump_for": "Sub[SsbLabel] | None", "SsbScriptCompilerListener.label_offsets": "dict[int, int]",
        "SsbScriptCompilerListener.source_map_builder": "SourceMapBuilder", "SsbScriptCompilerListener._last_op_line": "int",
        "SsbScriptCompilerListener._op_idx_in_current_line": "int",
        "SsbLabel.id": "int", "SsbOperation.offset": "int", "SsbOperation.params": "list[Any]", "SsbOperation.op_code": "SsbOpCode",
        "SsbLabelJump._root": "SsbOperation | None", "SsbLabelJump.label": "Sub[SsbLabel] | None",
        "SourceMapBuilder._pos_marks": "list[SourceMapPositionMark]",
    })
    reg.contract(SMM + ":SourceMapBuilder.add_position_mark", types={"self": "SourceMapBuilder", "position_mark": "SourceMapPositionMark"}, returns="SourceMapBuilder",
                 ensures=["result is self", "len(self._pos_marks) == old(len(self._pos_marks)) + 1", "self._pos_marks[len(self._pos_marks) - 1] is position_mark"],
                 modifies=["list(self._pos_marks)"], canaries=["len(self._pos_marks) == old(len(self._pos_marks))"], properties=["C07", "C08"])
    SEP = ["self._collected_ops is not self._labels_before_op", "self._collected_params is not self._collected_ops and self._collected_params is not self._labels_before_op",
           "self.source_map_builder._pos_marks is not self._collected_ops and self.source_map_builder._pos_marks is not self._labels_before_op and self.source_map_builder._pos_marks is not self._collected_params"]
    reg.contract(
        L + ":SsbScriptCompilerListener.exitLabel", types={"self": "SsbScriptCompilerListener", "ctx": "LabelContext"},
        requires=SEP[:1] + ["dict_wf(self._collected_labels)"],
        ensures=[
            # the label is queued for the next operation and put into the routine at this position
            "len(self._collected_ops) == old(len(self._collected_ops)) + 1 and len(self._labels_before_op) == old(len(self._labels_before_op)) + 1",
            "self._collected_ops[len(self._collected_ops) - 1] is self._labels_before_op[len(self._labels_before_op) - 1]",
            "isinstance(self._collected_ops[len(self._collected_ops) - 1], SsbLabel)",
            "all_int(lambda j: implies(0 <= j and j < old(len(self._labels_before_op)), self._labels_before_op[j] is old(self._labels_before_op[j])))",
            "all_int(lambda j: implies(0 <= j and j < old(len(self._collected_ops)), self._collected_ops[j] is old(self._collected_ops[j])))",
            # one label object per name: an already known name gives the known label, a new name a fresh label with a new id
            "all_val(lambda k: implies(old(k in self._collected_labels), k in self._collected_labels and self._collected_labels[k] is old(self._collected_labels[k])))",
            "self._label_increment_id >= old(self._label_increment_id)",
            "implies(fresh(self._collected_ops[len(self._collected_ops) - 1]), self._label_increment_id == old(self._label_increment_id) + 1 and typed(self._collected_ops[len(self._collected_ops) - 1], 'Sub[SsbLabel]').id == self._label_increment_id)",
            "implies(not fresh(self._collected_ops[len(self._collected_ops) - 1]), self._label_increment_id == old(self._label_increment_id))",
        ],
        modifies=["list(self._collected_ops)", "list(self._labels_before_op)", "dict(self._collected_labels)", "self._label_increment_id", "alloc"],
        canaries=["len(self._labels_before_op) == old(len(self._labels_before_op))"], properties=["C07", "C03"])
    NEWOP = "self._collected_ops[len(self._collected_ops) - 1]"
    reg.contract(
        L + ":SsbScriptCompilerListener.exitOperation", types={"self": "SsbScriptCompilerListener", "ctx": "OperationContext"},
        requires=SEP + ["dict_wf(self.label_offsets)", "self.label_offsets is not self.source_map_builder._mappings"],
        raises=[("SsbCompilerError", "True", False)],  # operations with an inline context are rejected (what ctx.inline_ctx() returns is opaque)
        ensures=[
            "self._total_number_collected_ops == old(self._total_number_collected_ops) + 1",
            "len(self._collected_ops) == old(len(self._collected_ops)) + 1",
            "all_int(lambda j: implies(0 <= j and j < old(len(self._collected_ops)), self._collected_ops[j] is old(self._collected_ops[j])))",
            # the op is numbered with the running count; a pending jump marker turns it into a label jump to that label
            f"fresh({NEWOP}) and {NEWOP}.offset == self._total_number_collected_ops",
            f"implies(is_none(old(self._turn_next_op_into_label_jump_for)), type_is({NEWOP}, SsbOperation) and {NEWOP}.params is old(self._collected_params))",
            f"implies(not is_none(old(self._turn_next_op_into_label_jump_for)), type_is({NEWOP}, SsbLabelJump) and typed({NEWOP}, 'SsbLabelJump').label is old(self._turn_next_op_into_label_jump_for) "
            f"and typed({NEWOP}, 'SsbLabelJump')._root.offset == self._total_number_collected_ops and typed({NEWOP}, 'SsbLabelJump')._root.params is old(self._collected_params))",
            "is_none(self._turn_next_op_into_label_jump_for)", "fresh(self._collected_params) and len(self._collected_params) == 0",
            # every label queued in front of this op (several are possible) gets the number of this op
            "len(self._labels_before_op) == 0",
            "all_int(lambda j: implies(0 <= j and j < old(len(self._labels_before_op)), old(self._labels_before_op[j]).id in self.label_offsets and self.label_offsets[old(self._labels_before_op[j]).id] == self._total_number_collected_ops))",
            "all_val(lambda k: implies(old(k in self.label_offsets) and not any_int(lambda j: 0 <= j and j < old(len(self._labels_before_op)) and old(self._labels_before_op[j]).id == k), k in self.label_offsets and self.label_offsets[k] == old(self.label_offsets[k])))",
            # source map entry of the op
            "self._total_number_collected_ops in self.source_map_builder._mappings and self.source_map_builder._mappings[self._total_number_collected_ops].line == ctx.start.line - 1 and self.source_map_builder._mappings[self._total_number_collected_ops].column == ctx.start.column",
        ],
        modifies=["list(self._collected_ops)", "list(self._labels_before_op)", "dict(self.label_offsets)", "self._total_number_collected_ops", "self._collected_params",
                  "self._turn_next_op_into_label_jump_for", "self._last_op_line", "self._op_idx_in_current_line",
                  "dict(self.source_map_builder._mappings)", "list(self.source_map_builder._pos_marks)", "alloc"],
        loops={
            0: dict(invariants=[
                "len(self._labels_before_op) <= old(len(self._labels_before_op))",
                "all_int(lambda j: implies(0 <= j and j < len(self._labels_before_op), self._labels_before_op[j] is old(self._labels_before_op[j])))",
                "all_int(lambda j: implies(len(self._labels_before_op) <= j and j < old(len(self._labels_before_op)), old(self._labels_before_op[j]).id in self.label_offsets and self.label_offsets[old(self._labels_before_op[j]).id] == self._total_number_collected_ops))",
                "all_val(lambda k: implies(old(k in self.label_offsets) and not any_int(lambda j: 0 <= j and j < old(len(self._labels_before_op)) and old(self._labels_before_op[j]).id == k), k in self.label_offsets and self.label_offsets[k] == old(self.label_offsets[k])))",
                "unchanged_list(old(self._collected_params))",
                # popping the queued labels touches neither the routine being collected nor the fresh parameter list
                "len(self._collected_ops) == at_loop_entry(len(self._collected_ops))",
                "all_int(lambda j: implies(0 <= j and j < len(self._collected_ops), self._collected_ops[j] is at_loop_entry(self._collected_ops[j])))",
                "fresh(self._collected_params) and len(self._collected_params) == 0",
            ], decreases="len(self._labels_before_op)"),
            1: dict(invariants=[
                # registering position marks only touches the source map builder's list
                "len(self._collected_ops) == at_loop_entry(len(self._collected_ops))",
                "all_int(lambda j: implies(0 <= j and j < len(self._collected_ops), self._collected_ops[j] is at_loop_entry(self._collected_ops[j])))",
                "len(self._labels_before_op) == 0",
                "fresh(self._collected_params) and len(self._collected_params) == 0",
                "unchanged_list(collected_params)",
                "all_int(lambda j: implies(0 <= j and j < old(len(self._labels_before_op)), old(self._labels_before_op[j]).id in self.label_offsets and self.label_offsets[old(self._labels_before_op[j]).id] == self._total_number_collected_ops))",
            ]),
        },
        canaries=[f"{NEWOP}.offset == old(self._total_number_collected_ops)"], properties=["C07", "C03"])
    register_enlarge(reg)


def register_enlarge(reg: Registry) -> None:
    """C03 "the routine info, coroutine-name and op tables have the same length, indexed by routine id"; C10/C03: a negative or an
    already used routine id is rejected (the second routine would silently replace the first, /repo e280de3)."""
    reg.fields({"SsbScriptCompilerListener.routine_infos": "list[Any]", "SsbScriptCompilerListener.routine_ops": "list[Any]",
                "SsbScriptCompilerListener.named_coroutines": "list[Any]", "SsbScriptCompilerListener._active_routine_id": "int"})
    T3 = "len(self.routine_infos) == len(self.routine_ops) and len(self.routine_ops) == len(self.named_coroutines)"
    reg.contract(
        L + ":SsbScriptCompilerListener._enlarge_routine_info", types={"self": "SsbScriptCompilerListener"},
        requires=[T3,
                  "self.routine_infos is not self.routine_ops and self.routine_infos is not self.named_coroutines and self.routine_ops is not self.named_coroutines"],
        raises=[("SsbCompilerError", "self._active_routine_id < 0 or (self._active_routine_id < len(self.routine_infos) and not is_none(self.routine_infos[self._active_routine_id]))", True)],
        ensures=[
            T3,
            # the three tables reach the active id, entries that were there are kept, new entries are empty
            "len(self.routine_infos) == ite(old(len(self.routine_infos)) > self._active_routine_id, old(len(self.routine_infos)), self._active_routine_id + 1)",
            "all_int(lambda j: implies(0 <= j and j < old(len(self.routine_infos)), self.routine_infos[j] is old(self.routine_infos[j]) and self.routine_ops[j] is old(self.routine_ops[j]) and self.named_coroutines[j] is old(self.named_coroutines[j])))",
            "all_int(lambda j: implies(old(len(self.routine_infos)) <= j and j < len(self.routine_infos), is_none(self.routine_infos[j]) and fresh(self.routine_ops[j]) and len(typed(self.routine_ops[j], 'list[Any]')) == 0))",
            "is_none(self.routine_infos[self._active_routine_id])",
        ],
        modifies=["list(self.routine_infos)", "list(self.routine_ops)", "list(self.named_coroutines)", "alloc"],
        loops={0: dict(invariants=[
            T3, "len(self.routine_infos) == at_loop_entry(len(self.routine_infos)) + it_i",
            "all_int(lambda j: implies(0 <= j and j < at_loop_entry(len(self.routine_infos)), self.routine_infos[j] is at_loop_entry(self.routine_infos[j]) and self.routine_ops[j] is at_loop_entry(self.routine_ops[j]) and self.named_coroutines[j] is at_loop_entry(self.named_coroutines[j])))",
            "all_int(lambda j: implies(at_loop_entry(len(self.routine_infos)) <= j and j < len(self.routine_infos), is_none(self.routine_infos[j]) and fresh(self.routine_ops[j]) and len(typed(self.routine_ops[j], 'list[Any]')) == 0))",
        ])},
        canaries=["len(self.routine_infos) == old(len(self.routine_infos))"],
        properties=["C03", "C10"])

    # the ExplorerScript routine visitor has the same helper (without the duplicate-id clause: ascending ids are enforced before)
    RV = "explorerscript.ssb_converting.compiler.compiler_visitor.routine_visitor"
    reg.load_module(RV)
    reg.fields({"RoutineVisitor.routine_infos": "list[Any]", "RoutineVisitor.routine_ops": "list[Any]",
                "RoutineVisitor.named_coroutines": "list[Any]", "RoutineVisitor._active_routine_id": "int"})
    reg.contract(
        RV + ":RoutineVisitor._enlarge_routine_info", types={"self": "RoutineVisitor"},
        requires=[T3,
                  "self.routine_infos is not self.routine_ops and self.routine_infos is not self.named_coroutines and self.routine_ops is not self.named_coroutines"],
        raises=[("SsbCompilerError", "self._active_routine_id < 0", True)],
        ensures=[
            T3,
            "len(self.routine_infos) == ite(old(len(self.routine_infos)) > self._active_routine_id, old(len(self.routine_infos)), self._active_routine_id + 1)",
            "all_int(lambda j: implies(0 <= j and j < old(len(self.routine_infos)), self.routine_infos[j] is old(self.routine_infos[j]) and self.routine_ops[j] is old(self.routine_ops[j]) and self.named_coroutines[j] is old(self.named_coroutines[j])))",
            "all_int(lambda j: implies(old(len(self.routine_infos)) <= j and j < len(self.routine_infos), is_none(self.routine_infos[j]) and fresh(self.routine_ops[j]) and len(typed(self.routine_ops[j], 'list[Any]')) == 0))",
        ],
        modifies=["list(self.routine_infos)", "list(self.routine_ops)", "list(self.named_coroutines)", "alloc"],
        loops={0: dict(invariants=[
            T3, "len(self.routine_infos) == at_loop_entry(len(self.routine_infos)) + it_i",
            "all_int(lambda j: implies(0 <= j and j < at_loop_entry(len(self.routine_infos)), self.routine_infos[j] is at_loop_entry(self.routine_infos[j]) and self.routine_ops[j] is at_loop_entry(self.routine_ops[j]) and self.named_coroutines[j] is at_loop_entry(self.named_coroutines[j])))",
            "all_int(lambda j: implies(at_loop_entry(len(self.routine_infos)) <= j and j < len(self.routine_infos), is_none(self.routine_infos[j]) and fresh(self.routine_ops[j]) and len(typed(self.routine_ops[j], 'list[Any]')) == 0))",
        ])},
        canaries=["len(self.routine_infos) == old(len(self.routine_infos))"],
        properties=["C03", "C10"])
