"""Sidecar contract for explorerscript/cli/compile.py build_ops (C15).

C15: "each jump parameter in [the JSON] equals the 1-based position of its target op counted across all routines" —
build_ops prints, for an op of a jump-carrying kind, op_positions[target offset] as the last parameter and every
other integer parameter verbatim; opcode names and parameter counts are kept; op order is kept.
"""
from pyvc.spec import Registry

CC = "explorerscript.cli.compile"

# what is printed for integer parameter i of op `o`
INT_OUT = ("ite(not is_none(pos) and o.op_code.name in OPS_WITH_JUMP_TO_MEM_OFFSET and i == len(o.params) - 1, "
           "typed(pos, 'dict[int, int]')[o.params[i]], o.params[i])")
PARAM_OK = f"implies(is_int(o.params[i]), plist[i] == {INT_OUT})"


def register(reg: Registry) -> None:
    reg.load_module("explorerscript.ssb_converting.ssb_special_ops")
    reg.load_module("explorerscript.ssb_converting.ssb_data_types")
    reg.fields({"SsbOperation.offset": "int", "SsbOperation.params": "list[Any]", "SsbOperation.op_code": "SsbOpCode", "SsbNamedId.name": "str",
                "SsbOpParamFixedPoint.value": "str", "SsbOpParamConstant.name": "str", "SsbOpParamConstString.name": "str",
                "SsbOpParamLanguageString.strings": "Any", "SsbOpParamPositionMarker.name": "str",
                "SsbOpParamPositionMarker.x_offset": "int", "SsbOpParamPositionMarker.y_offset": "int",
                "SsbOpParamPositionMarker.x_relative": "int", "SsbOpParamPositionMarker.y_relative": "int"})
    reg.spec_fn("known_kind", ["p"], "is_int(p) or isinstance(p, SsbOpParamFixedPoint) or isinstance(p, SsbOpParamConstant) or isinstance(p, SsbOpParamConstString) or isinstance(p, SsbOpParamLanguageString) or isinstance(p, SsbOpParamPositionMarker)")
    reg.spec_fn("param_ok", ["o", "plist", "i", "pos"], PARAM_OK)
    # JSON object printed for op o
    reg.spec_fn("op_ok", ["o", "d", "pos"],
                "'opcode' in d and d['opcode'] == o.op_code.name and 'params' in d and len(typed(d['params'], 'list[Any]')) == len(o.params) "
                "and all_int(lambda i: implies(0 <= i and i < len(o.params), param_ok(o, typed(d['params'], 'list[Any]'), i, pos)))")
    reg.contract(
        CC + ":build_ops",
        types={"ops": "list[SsbOperation]", "op_positions": "dict[int, int] | None"}, returns="list[dict[str, Any]]",
        requires=[
            # closedness of compiler output (C03): every jump target is the offset of an op, hence has a position
            "implies(not is_none(op_positions), all_int(lambda k: implies(0 <= k and k < len(ops) and ops[k].op_code.name in OPS_WITH_JUMP_TO_MEM_OFFSET and len(ops[k].params) >= 1 and is_int(ops[k].params[len(ops[k].params) - 1]), ops[k].params[len(ops[k].params) - 1] in typed(op_positions, 'dict[int, int]'))))",
            # parameters are of the kinds a compiler emits (bool is not one of them)
            "all_int(lambda k, i: implies(0 <= k and k < len(ops) and 0 <= i and i < len(ops[k].params), not isinstance(ops[k].params[i], bool)))",
        ],
        raises=[("ValueError", "any_int(lambda k, i: 0 <= k and k < len(ops) and 0 <= i and i < len(ops[k].params) and not known_kind(ops[k].params[i]))", True)],
        ensures=[
            "fresh(result)", "len(result) == len(ops)",
            "all_int(lambda k: implies(0 <= k and k < len(ops), op_ok(ops[k], result[k], op_positions)))",
        ],
        modifies=["alloc"],
        loops={
            0: dict(invariants=[
                "fresh(out_ops)", "len(out_ops) == it_i",
                "all_int(lambda k: implies(0 <= k and k < it_i, fresh(out_ops[k]) and fresh(out_ops[k]['params']) and out_ops[k]['params'] is not out_ops and op_ok(ops[k], out_ops[k], op_positions)))",
                "all_int(lambda k, i: implies(0 <= k and k < it_i and 0 <= i and i < len(ops[k].params), known_kind(ops[k].params[i])))",
            ]),
            1: dict(invariants=[
                "fresh(out_ops)", "len(out_ops) == at_loop_entry(len(out_ops))",
                "fresh(out_op) and 'opcode' in out_op and out_op['opcode'] == op.op_code.name and 'params' in out_op and fresh(out_op['params']) and out_op['params'] is not out_ops",
                "all_int(lambda k: implies(0 <= k and k < len(out_ops), fresh(out_ops[k]) and out_ops[k] is not out_op and fresh(out_ops[k]['params']) and out_ops[k]['params'] is not out_op['params'] and out_ops[k]['params'] is not out_ops and op_ok(ops[k], out_ops[k], op_positions)))",
                "len(typed(out_op['params'], 'list[Any]')) == it_i",
                "all_int(lambda i: implies(0 <= i and i < it_i, param_ok(op, typed(out_op['params'], 'list[Any]'), i, op_positions) and known_kind(op.params[i])))",
            ]),
        },
        canaries=["all_int(lambda k, i: implies(0 <= k and k < len(ops) and 0 <= i and i < len(ops[k].params) and is_int(ops[k].params[i]), typed(result[k]['params'], 'list[Any]')[i] == ops[k].params[i]))"],
        properties=["C15"],
    )
