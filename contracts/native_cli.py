"""Native monitor for cli/compile.py build_ops."""
import random

from explorerscript.cli.compile import build_ops
from explorerscript.ssb_converting.ssb_data_types import (
    SsbOpCode, SsbOperation, SsbOpParamConstant, SsbOpParamConstString, SsbOpParamFixedPoint, SsbOpParamLanguageString, SsbOpParamPositionMarker,
)
from explorerscript.ssb_converting.ssb_special_ops import OPS_WITH_JUMP_TO_MEM_OFFSET

CC = "explorerscript.cli.compile"


def gen(rng: random.Random):
    n = rng.randint(0, 5)
    offsets = sorted(rng.sample(range(1, 30), n))
    ops = []
    for off in offsets:
        name = rng.choice(sorted(OPS_WITH_JUMP_TO_MEM_OFFSET)[:6] + ["op", "Wait", "Return"])
        params = []
        for _ in range(rng.randint(0, 3)):
            params.append(rng.choice([rng.randint(0, 40), SsbOpParamConstant("C"), SsbOpParamConstString("a\nb"), SsbOpParamFixedPoint(1, "5"),
                                      SsbOpParamLanguageString({"english": "x"}), SsbOpParamPositionMarker("m", 0, 2, 1, 2)]))
        if name in OPS_WITH_JUMP_TO_MEM_OFFSET:
            params.append(rng.choice(offsets))
        ops.append(SsbOperation(off, SsbOpCode(-1, name), params))
    pos = {o: i + 1 for i, o in enumerate(offsets)} if rng.random() < 0.8 else None
    return {"ops": ops, "op_positions": pos}


def monitor(args):
    ops, pos = args["ops"], args["op_positions"]
    snapshot = [(o.op_code.name, list(o.params)) for o in ops]
    res = build_ops(ops, pos)
    if [(o.op_code.name, list(o.params)) for o in ops] != snapshot:
        return "build_ops changed its input"
    if len(res) != len(ops):
        return f"{len(res)} ops printed for {len(ops)}"
    for o, d in zip(ops, res):
        if d.get("opcode") != o.op_code.name or len(d.get("params", [])) != len(o.params):
            return f"op {o.op_code.name}@{o.offset} printed as {d}"
        for i, (p, q) in enumerate(zip(o.params, d["params"])):
            if isinstance(p, int):
                want = pos[p] if (pos is not None and o.op_code.name in OPS_WITH_JUMP_TO_MEM_OFFSET and i == len(o.params) - 1) else p
                if q != want:
                    return f"integer parameter {i} of {o.op_code.name}@{o.offset} printed as {q}, expected {want} (the 1-based position of the op with offset {p})" if want != p else f"integer parameter {i} printed as {q}, expected {p}"
            elif not (isinstance(q, dict) and "type" in q and "value" in q):
                return f"parameter {i} printed as {q!r}"
    return None


def rep(args):
    return repr(([(o.offset, o.op_code.name, [str(p) for p in o.params]) for o in args["ops"]], args["op_positions"]))


NATIVE = {CC + ":build_ops": {"gen": gen, "monitor": monitor, "repr": rep}}
