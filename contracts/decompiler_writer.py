"""Sidecar contracts for the decompilers' hand-advanced line counter (C09).

Representation invariant of both writer classes:   self._line_number == 1 + number of newlines in self._output
so that `source_map_add_opcode(o)` followed by `write_stmnt(s)` records the zero-based index of the line on which s starts.
"""
from pyvc.spec import Registry

D = "explorerscript.ssb_converting.ssb_decompiler"
S = "explorerscript.ssb_script.ssb_converting.ssb_decompiler"
INV = "self._line_number == 1 + count_nl(self._output)"


def register(reg: Registry) -> None:
    reg.load_module("explorerscript.source_map")
    reg.load_module("explorerscript.ssb_converting.ssb_data_types")
    for cls in ("ExplorerScriptSsbDecompiler", "SsbScriptSsbDecompiler"):
        reg.fields({f"{cls}._line_number": "int", f"{cls}._output": "str", f"{cls}.indent": "int"})
    reg.fields({"ExplorerScriptSsbDecompiler._jump_waiting_for_source_map": "int | None", "ExplorerScriptSsbDecompiler.smb": "SourceMapBuilder | None", "SsbScriptSsbDecompiler._source_map_builder": "SourceMapBuilder | None"})
    for mod, cls, wl in ((D, "ExplorerScriptSsbDecompiler", "write_line"), (S, "SsbScriptSsbDecompiler", "_write_line")):
        reg.contract(
            f"{mod}:{cls}.{wl}", types={"self": cls},
            requires=[INV], ensures=[INV, "self._line_number == old(self._line_number) + 1", "count_nl(self._output) == old(count_nl(self._output)) + 1"],
            modifies=["self._line_number", "self._output"], canaries=["self._line_number == old(self._line_number)"], properties=["C09"])
        reg.contract(
            f"{mod}:{cls}.write_stmnt", types={"self": cls, "stmnt": "str", "line": "bool"},
            requires=[INV],
            ensures=[INV,
                     "self._line_number == old(self._line_number) + ite(line, 1, 0) + count_nl(stmnt)",
                     # the statement text is appended verbatim at the end of the output
                     "any_val(lambda pre: is_str(pre) and self._output == typed(pre, 'str') + stmnt and count_nl(typed(pre, 'str')) == old(count_nl(self._output)) + ite(line, 1, 0))"]
            # a Jump op that was passed without a statement of its own can only be mapped to the statement written NEXT: once any
            # statement has been written it is forgotten (otherwise a later, unrelated `jump @label;` would get its entry)
            + (["is_none(self._jump_waiting_for_source_map)"] if cls == "ExplorerScriptSsbDecompiler" else []),
            modifies=["self._line_number", "self._output"] + (["self._jump_waiting_for_source_map"] if cls == "ExplorerScriptSsbDecompiler" else []),
            canaries=["self._line_number == old(self._line_number) + 1"], properties=["C09"])
    reg.contract(
        f"{D}:ExplorerScriptSsbDecompiler.source_map_add_opcode", types={"self": "ExplorerScriptSsbDecompiler", "op_offset": "int"},
        requires=["not is_none(self.smb)"],
        ensures=["op_offset in typed(self.smb, 'SourceMapBuilder')._mappings",
                 "typed(self.smb, 'SourceMapBuilder')._mappings[op_offset].line == self._line_number",
                 "typed(self.smb, 'SourceMapBuilder')._mappings[op_offset].column == self.indent * 4",
                 "self._line_number == old(self._line_number)"],
        modifies=["dict(typed(self.smb, 'SourceMapBuilder')._mappings)", "alloc"],
        canaries=["typed(self.smb, 'SourceMapBuilder')._mappings[op_offset].line == self._line_number + 1"], properties=["C09"])
    reg.lemma("explorerscript_decompiler_records_statement_line", """
def lemma(d: ExplorerScriptSsbDecompiler, op_offset: int, stmnt: str):
    before = d._output.count("\\n")
    d.source_map_add_opcode(op_offset)
    d.write_stmnt(stmnt)
    # the entry's line is the zero-based index of the line on which the statement text starts:
    # all newlines of the old output plus the one write_line() adds precede it
    assert d.smb._mappings[op_offset].line == before + 1
    assert d.smb._mappings[op_offset].column == d.indent * 4
""", types={"d": "ExplorerScriptSsbDecompiler", "op_offset": "int", "stmnt": "str", "__module__": D},
              requires=["d._line_number == 1 + count_nl(d._output)", "not is_none(d.smb)"],
              modifies=["d._line_number", "d._output", "d._jump_waiting_for_source_map", "dict(typed(d.smb, 'SourceMapBuilder')._mappings)", "alloc"], properties=["C09"],
              note="source_map_add_opcode(o); write_stmnt(s) records (line index where s starts, indent*4)")
