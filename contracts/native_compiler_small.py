"""Native monitors for small compiler helpers (run-time form of contracts/compiler_small.py)."""
import random

from explorerscript.ssb_converting.compiler.utils import does_op_end_control_flow, routine_op_offsets_are_ordered
from explorerscript.ssb_converting.ssb_data_types import DungeonModeConstants, SsbOpCode, SsbOperation
from explorerscript.ssb_converting.ssb_special_ops import OPS_CTX, OPS_THAT_END_CONTROL_FLOW, SsbLabel, SsbLabelJump

U = "explorerscript.ssb_converting.compiler.utils"
DT = "explorerscript.ssb_converting.ssb_data_types"
NAMES = ["op", "Return", "End", "Hold", "Jump", "JumpCommon", "Destroy", "lives", "object", "performer", "Branch", "Call"]


def _op(rng, off=0):
    o = SsbOperation(off, SsbOpCode(-1, rng.choice(NAMES)), [])
    if rng.random() < 0.3:
        return SsbLabelJump(SsbOperation(off, SsbOpCode(-1, rng.choice(["Jump", "Branch", "Call", "Return"])), []), SsbLabel(1, 0))
    return o


def mon_ends(args):
    op, prev = args["op"], args["previous_op"]
    r = does_op_end_control_flow(op, prev)
    name = op.root.op_code.name if isinstance(op, SsbLabelJump) else op.op_code.name
    want = False if (prev is not None and prev.op_code.name in OPS_CTX) else (name in OPS_THAT_END_CONTROL_FLOW)
    if r is not want:
        return f"does_op_end_control_flow({name}, previous {None if prev is None else prev.op_code.name}) = {r}, expected {want}"
    return None


def mon_dmc(args):
    d, idx = args["self"], args["idx"]
    r = d.get_explorerscript_constant_for(idx)
    want = {0: d.close_constant, 1: d.open_constant, 2: d.request_constant, 3: d.open_and_request_constant}.get(idx, str(idx))
    if r != want:
        return f"dungeon mode {idx} is printed as {r!r}, expected {want!r}"
    return None


def g_ctx(rng):
    from explorerscript.source_map import SourceMapBuilder
    from explorerscript.ssb_converting.compiler.utils import CompilerCtx, Counter

    c = CompilerCtx(Counter(), SourceMapBuilder(), {}, Counter(), "n/a", {})
    c._loops = [object() for _ in range(rng.randint(0, 3))]
    c._switch_cases = [object() for _ in range(rng.randint(0, 3))]
    return c


def mon_stack(field, add):
    def monitor(args):
        c = args["self"]
        before = list(getattr(c, field))
        other = "_switch_cases" if field == "_loops" else "_loops"
        other_before = list(getattr(c, other))
        if add:
            h = args.get("h", object())
            getattr(c, "add_loop" if field == "_loops" else "add_switch_case")(h)
            now = getattr(c, field)
            if len(now) != len(before) + 1 or now[-1] is not h or any(a is not b for a, b in zip(now, before)):
                return f"{field}: the handler is not pushed on top of the unchanged stack"
        else:
            try:
                getattr(c, "remove_loop" if field == "_loops" else "remove_switch_case")()
            except IndexError:
                return None if not before else "IndexError although the stack is not empty"
            if not before:
                return "no IndexError on an empty stack"
            now = getattr(c, field)
            if len(now) != len(before) - 1 or any(a is not b for a, b in zip(now, before)):
                return f"{field}: not exactly the top entry was removed"
        if list(getattr(c, other)) != other_before:
            return f"{other} was touched"
        return None

    return monitor


def g_routines(rng):
    rs = []
    off = rng.randint(0, 3)
    for _ in range(rng.randint(0, 3)):
        r = []
        for _ in range(rng.randint(0, 4)):
            off = max(0, off + (rng.choice([1, 1, 2, 0, -1]) if rng.random() < 0.25 else 1))  # real ops: offsets >= 0 (-1 = label)
            r.append(SsbOperation(off, SsbOpCode(-1, "op"), []))
        rs.append(r)
    return rs


def mon_ordered(args):
    rs = args["routine_ops"]
    flat = [op.offset for r in rs for op in r]
    want = all(a < b for a, b in zip(flat, flat[1:]))
    r = routine_op_offsets_are_ordered(rs)
    if bool(r) is not want:
        return f"routine_op_offsets_are_ordered({flat}) = {r}, expected {want}"
    return None


def rep(args):
    def d(v):
        if isinstance(v, SsbLabelJump):
            return f"J({v.root.op_code.name})"
        if isinstance(v, SsbOperation):
            return f"{v.op_code.name}@{v.offset}"
        if isinstance(v, list):
            return [d(x) for x in v]
        if isinstance(v, DungeonModeConstants):
            return "DMC"
        return v

    return repr({k: d(v) for k, v in args.items()})


NATIVE = {
    U + ":CompilerCtx.add_loop": {"gen": lambda r: {"self": g_ctx(r), "h": object()}, "monitor": mon_stack("_loops", True), "repr": lambda a: repr((len(a["self"]._loops), len(a["self"]._switch_cases)))},
    U + ":CompilerCtx.remove_loop": {"gen": lambda r: {"self": g_ctx(r)}, "monitor": mon_stack("_loops", False), "repr": lambda a: repr((len(a["self"]._loops), len(a["self"]._switch_cases)))},
    U + ":CompilerCtx.add_switch_case": {"gen": lambda r: {"self": g_ctx(r), "h": object()}, "monitor": mon_stack("_switch_cases", True), "repr": lambda a: repr((len(a["self"]._loops), len(a["self"]._switch_cases)))},
    U + ":CompilerCtx.remove_switch_case": {"gen": lambda r: {"self": g_ctx(r)}, "monitor": mon_stack("_switch_cases", False), "repr": lambda a: repr((len(a["self"]._loops), len(a["self"]._switch_cases)))},
    U + ":does_op_end_control_flow": {"gen": lambda r: {"op": _op(r), "previous_op": r.choice([None, _op(r), SsbOperation(0, SsbOpCode(-1, r.choice(OPS_CTX)), [])])}, "monitor": mon_ends, "repr": rep},
    DT + ":DungeonModeConstants.get_explorerscript_constant_for": {"gen": lambda r: {"self": DungeonModeConstants("C", "O", "R", "OR"), "idx": r.randint(-6, 8)}, "monitor": mon_dmc, "repr": rep},
    U + ":routine_op_offsets_are_ordered": {"gen": lambda r: {"routine_ops": g_routines(r)}, "monitor": mon_ordered, "repr": rep},
}
