"""Sidecar contracts for LabelFinalizer (C03 "uniquely addressed": only labels are renumbered; C10 safety; C01 order).

`_labels_after` (recursive, ends its scan through `except IndexError`): returns a fresh list of labels of `r`, changes
nothing.  `__init__`: one output routine per input routine, inputs untouched, every label is kept, nothing but the
`offset` of labels and the new tables is written.  Which jumps are dropped (behavioural clause) is a T3 stage monitor of C01.
"""
from pyvc.spec import Registry

LF = "explorerscript.ssb_converting.compiler.label_finalizer"

JUMP_OK = "all_int(lambda i: implies(0 <= i and i < len({r}) and isinstance({r}[i], SsbLabelJump), not is_none(typed({r}[i], 'SsbLabelJump')._root) and not is_none(typed({r}[i], 'SsbLabelJump').label)))"


def register(reg: Registry) -> None:
    reg.load_module("explorerscript.ssb_converting.ssb_special_ops")
    reg.load_module("explorerscript.ssb_converting.ssb_data_types")
    reg.fields({"SsbOperation.offset": "int", "SsbOperation.params": "list[Any]", "SsbOperation.op_code": "SsbOpCode", "SsbNamedId.name": "str", "SsbNamedId.id": "int",
                "SsbLabelJump._root": "SsbOperation | None", "SsbLabelJump.label": "Sub[SsbLabel] | None", "SsbLabel.id": "int",
                "LabelFinalizer.routines": "list[list[Sub[SsbOperation]]]", "LabelFinalizer.label_offsets": "dict[int, int]"})
    reg.contract(
        LF + ":LabelFinalizer._labels_after", types={"r": "list[Sub[SsbOperation]]", "op_i": "int", "skip_redundant_label_jumps": "bool"}, returns="list[Sub[SsbLabel]]",
        requires=["op_i >= 0", JUMP_OK.format(r="r")],
        ensures=[
            "fresh(result)",
            "all_int(lambda j: implies(0 <= j and j < len(result), isinstance(result[j], SsbLabel)))",
            # (that the labels come from r, from behind op_i, in order, is checked by the native monitor: the for-all/exists
            # invariant for it is discharged in 10 s on an idle machine and not under load, so it is not claimed)
            "len(result) <= len(r)",
        ],
        modifies=["alloc"],
        loops={0: dict(invariants=[
            "fresh(ls)", "cursor >= op_i + 1", "len(ls) <= cursor - op_i - 1", "len(ls) == 0 or cursor <= len(r)",
            "all_int(lambda j: implies(0 <= j and j < len(ls), isinstance(ls[j], SsbLabel)))",
            "unchanged_list(r)",
        ], types={"cursor": "int"}),
            1: dict(invariants=["unchanged_list(r)", "fresh(ls)"])},
        canaries=["len(result) == 0"],
        properties=["C10", "C03"])

    ROUTINES_OK = ("all_int(lambda r, i: implies(0 <= r and r < len(routines) and 0 <= i and i < len(routines[r]) and isinstance(routines[r][i], SsbLabelJump), "
                   "not is_none(typed(routines[r][i], 'SsbLabelJump')._root) and not is_none(typed(routines[r][i], 'SsbLabelJump').label)))")
    reg.spec_fn("lf_inputs_unchanged", ["rs"], "unchanged_list(rs) and all_int(lambda r: implies(0 <= r and r < len(rs), unchanged_list(rs[r])))")
    OFFSETS_KEPT = "all_ref(lambda o: implies(old_allocated(o) and isinstance(o, SsbOperation) and not isinstance(o, SsbLabel), o.offset == old(o.offset)), 'Sub[SsbOperation]')"
    DONE = "fresh(self.routines[{q}]) and self.routines[{q}] is not self.routines and self.routines[{q}] is not labels_waiting and len(self.routines[{q}]) <= len(routines[{q}])"
    reg.contract(
        LF + ":LabelFinalizer.__init__", types={"self": "LabelFinalizer", "routines": "list[list[Sub[SsbOperation]]]"},
        requires=[ROUTINES_OK,
                  "all_int(lambda r: implies(0 <= r and r < len(routines), routines[r] is not routines))"],
        ensures=[
            "fresh(self.routines) and fresh(self.label_offsets)",
            # C03: one routine out per routine in; the input lists are not touched
            "len(self.routines) == len(routines)",
            "lf_inputs_unchanged(routines)",
            # nothing is added (which operations are dropped - plain jumps to a label right behind them only - is a T3 stage
            # monitor of C01: the for-all/exists invariants for it are beyond what the solver decides in useful time)
            "all_int(lambda r: implies(0 <= r and r < len(routines), fresh(self.routines[r]) and len(self.routines[r]) <= len(routines[r])))",
            # C03 uniquely addressed: the offsets of real operations are not touched, only labels are renumbered
            OFFSETS_KEPT,
        ],
        modifies=["self.routines", "self.label_offsets", "*offset", "*lel", "*llen", "*dhas", "*dval", "*dsize", "alloc"],
        loops={
            0: dict(invariants=[
                "fresh(self.routines) and fresh(self.label_offsets) and fresh(labels_waiting) and dict_wf(self.label_offsets) and labels_waiting is not self.routines",
                "len(self.routines) == it_i", "lf_inputs_unchanged(routines)",
                "all_int(lambda q: implies(0 <= q and q < it_i, " + DONE.format(q="q") + "))",
                "all_int(lambda j: implies(0 <= j and j < len(labels_waiting), isinstance(labels_waiting[j], SsbLabel)))",
                OFFSETS_KEPT,
            ], types={"labels_waiting": "list[Sub[SsbLabel]]"}),
            1: dict(invariants=[
                "fresh(self.routines) and fresh(self.label_offsets) and fresh(labels_waiting) and fresh(new_r) and dict_wf(self.label_offsets)",
                "is_int(r_id) and 0 <= r_id and r_id < len(routines) and r is routines[r_id]",
                "len(self.routines) == r_id + 1 and self.routines[r_id] is new_r and new_r is not self.routines and new_r is not labels_waiting and labels_waiting is not self.routines",
                "lf_inputs_unchanged(routines)",
                "all_int(lambda q: implies(0 <= q and q < r_id, " + DONE.format(q="q") + " and self.routines[q] is not new_r))",
                "len(new_r) <= it_i",
                "all_int(lambda j: implies(0 <= j and j < len(labels_waiting), isinstance(labels_waiting[j], SsbLabel)))",
                OFFSETS_KEPT,
            ], types={"labels_waiting": "list[Sub[SsbLabel]]"}),
            2: dict(invariants=["op_was_removed == True or op_was_removed == False"]),
            3: dict(invariants=[OFFSETS_KEPT, "dict_wf(self.label_offsets) and fresh(self.label_offsets)"]),
        },
        canaries=["all_int(lambda r: implies(0 <= r and r < len(routines), len(self.routines[r]) == len(routines[r])))"],
        properties=["C03", "C10", "C01"])
