"""Native monitor for parse_exps_meta_attributes: total, and reads the marker of the first line."""
import random

from explorerscript.ssb_converting.compiler.meta_attributes import parse_exps_meta_attributes

M = "explorerscript.ssb_converting.compiler.meta_attributes"
LINES = ["//?: is-ssb-script: true", "//?: is-ssb-script: 1", "//?: a: b", "  //?: x:y  ", "//?:", "//?: novalue", "// comment", "", "def 0 { end; }", "//?:: :", "\t//?: k: v"]


def gen(rng: random.Random):
    n = rng.randint(0, 4)
    src = rng.choice(["\n", "\r\n", "\n"]).join(rng.choice(LINES) for _ in range(n))
    if rng.random() < 0.3:
        src += "\n"
    return {"explorerscript_src": src}


def monitor(args):
    src = args["explorerscript_src"]
    try:
        r = parse_exps_meta_attributes(src)
    except Exception as e:  # contract: raises nothing
        return f"raised {type(e).__name__}: {e} on source {src!r}"
    if not isinstance(r, dict):
        return f"returned {r!r}"
    lines = src.splitlines()
    only_first = len(lines) == 1 or (len(lines) > 1 and not lines[1].strip().startswith("//?:"))
    if lines and only_first and lines[0].startswith("//?: is-ssb-script: ") and ":" not in lines[0][len("//?: is-ssb-script: "):]:
        want = lines[0][len("//?: is-ssb-script: "):].strip()
        if r.get("is-ssb-script") != want:
            return f"marker line {lines[0]!r} read as {r!r}"
    return None


NATIVE = {M + ":parse_exps_meta_attributes": {"gen": gen, "monitor": monitor, "repr": lambda a: repr(a["explorerscript_src"])}}
