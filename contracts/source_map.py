"""Sidecar contracts for explorerscript/source_map.py  (properties C14, C08, C09).

Top-level postconditions are taken from the statement of C14:
  * "Rewriting offsets through an old-to-new mapping moves every entry to the new offset of the same op and every macro
    return address to the new offset of its op (or of the next surviving op when that op was dropped and a later one
    survives), and removes only entries whose op is absent from the mapping."
  * serialise / deserialise: identical op entries, macro entries, position marks.
"""
from pyvc.spec import Registry

SM = "explorerscript.source_map"

# return-address rule of C14 as a spec function: a = old return address, b = new one, nm = old->new mapping.
#   a is None or 0 (the code treats a falsy address as "no address")         -> unchanged
#   some surviving old offset k >= a exists  -> b = nm[least such k]   (k == a when the op itself survived)
#   otherwise                                -> unchanged
RA_SPEC = (
    "ite(is_none(a) or a == 0, b is a, "
    "ite(any_int(lambda k: k >= a and k in nm), "
    "any_int(lambda k: k >= a and k in nm and all_int(lambda q: implies(a <= q and q < k, q not in nm)) and b == nm[k]), "
    "b is a))"
)


def register(reg: Registry) -> None:
    reg.fields(
        {
            "SourceMap._mappings": "dict[int, SourceMapping]",
            "SourceMap._mappings_macros": "dict[int, MacroSourceMapping]",
            "SourceMap._position_marks": "list[SourceMapPositionMark]",
            "SourceMap._position_marks_macro": "list[Any]",
            "MacroSourceMapping.return_addr": "int | None",
            "SourceMapBuilder._mappings": "dict[int, SourceMapping]",
            "SourceMapBuilder._mappings_macros": "dict[int, MacroSourceMapping]",
            "SourceMapBuilder._pos_marks": "list[SourceMapPositionMark]",
            "SourceMapBuilder._pos_marks_macros": "list[Any]",
            "SourceMapBuilder._macro_context__stack": "list[tuple[int, Any]]",
            "SourceMapBuilder._next_macro_called_in": "tuple[str | None, int, int] | None",
            "SourceMapping.line": "int", "SourceMapping.column": "int",
            "MacroSourceMapping.relpath_included_file": "str | None", "MacroSourceMapping.macro_name": "str",
            "MacroSourceMapping.called_in": "tuple[str | None, int, int] | None",
        }
    )
    reg.spec_fn("inj", ["m"], "all_int(lambda a, b: implies(a in m and b in m and m[a] == m[b], a == b))")
    reg.spec_fn("int_keys", ["m"], "all_val(lambda k: implies(k in m, is_int(k)))")
    reg.spec_fn("distinct_values", ["m"], "all_int(lambda a, b: implies(a in m and b in m and a != b, m[a] is not m[b]))")
    reg.spec_fn("ra_spec", ["a", "b", "nm"], RA_SPEC)

    # ------------------------------------------------------------------ leaf classes
    pm_fields = ["line_number", "column_number", "end_line_number", "end_column_number", "name", "x_offset", "y_offset", "x_relative", "y_relative"]
    reg.contract(
        SM + ":SourceMapPositionMark.serialize",
        types={"self": "SourceMapPositionMark"},
        returns="list[Any]",
        ensures=["fresh(result)", "len(result) == 9"] + [f"result[{i}] is self.{f}" for i, f in enumerate(pm_fields)],
        modifies=["alloc"],
        canaries=["result[5] is self.y_offset"],
        properties=["C14"],
    )
    reg.contract(
        SM + ":SourceMapPositionMark.deserialize",
        types={"data_list": "list[Any]"},
        returns="SourceMapPositionMark",
        requires=["len(data_list) >= 9"],
        ensures=["fresh(result)", "type_is(result, SourceMapPositionMark)"] + [f"result.{f} is data_list[{i}]" for i, f in enumerate(pm_fields)],
        modifies=["alloc"],
        canaries=["result.x_offset is data_list[6]"],
        properties=["C14"],
    )
    reg.contract(
        SM + ":SourceMapping.serialize",
        types={"self": "SourceMapping"},
        returns="list[Any]",
        ensures=["fresh(result)", "len(result) == 2", "result[0] is self.line", "result[1] is self.column"],
        modifies=["alloc"],
        canaries=["result[0] is self.column"],
        properties=["C14"],
    )
    reg.contract(
        SM + ":SourceMapping.deserialize",
        types={"data_list": "list[Any]"},
        returns="SourceMapping",
        requires=["len(data_list) >= 2", "is_int(data_list[0]) and is_int(data_list[1])"],
        ensures=["fresh(result)", "type_is(result, SourceMapping)", "result.line is data_list[0]", "result.column is data_list[1]"],
        modifies=["alloc"],
        canaries=["result.line is data_list[1]"],
        properties=["C14"],
    )
    mm_fields = ["relpath_included_file", "macro_name", "line", "column", "called_in", "return_addr", "parameter_mapping"]
    reg.contract(
        SM + ":MacroSourceMapping.serialize",
        types={"self": "MacroSourceMapping"},
        returns="list[Any]",
        ensures=["fresh(result)", "len(result) == 7"] + [f"result[{i}] is self.{f}" for i, f in enumerate(mm_fields)],
        modifies=["alloc"],
        canaries=["result[4] is self.return_addr"],
        properties=["C14"],
    )
    reg.contract(
        SM + ":MacroSourceMapping.deserialize",
        types={"data_list": "list[Any]"},
        returns="MacroSourceMapping",
        requires=["len(data_list) >= 7", "is_none(data_list[5]) or is_int(data_list[5])",
                  # a well-typed entry as written by serialize (call sites come back from JSON as lists)
                  "is_none(data_list[0]) or is_str(data_list[0])", "is_str(data_list[1])", "is_int(data_list[2]) and is_int(data_list[3])",
                  "has_type(data_list[4], 'tuple[str | None, int, int] | None')"],
        ensures=["fresh(result)", "type_is(result, MacroSourceMapping)"] + [f"result.{f} is data_list[{i}]" for i, f in enumerate(mm_fields)],
        modifies=["alloc"],
        canaries=["result.return_addr is data_list[4]"],
        properties=["C14"],
    )
    for cls, fields in (("SourceMapPositionMark", pm_fields), ("SourceMapping", ["line", "column"]), ("MacroSourceMapping", mm_fields)):
        body = "\n".join(f"    assert y.{f} is x.{f}" for f in fields)
        reg.lemma(
            f"{cls}_roundtrip",
            f"def lemma(x: {cls}):\n    y = {cls}.deserialize(x.serialize())\n{body}\n    assert y is not x\n",
            types={"x": cls},
            requires=["is_none(x.return_addr) or is_int(x.return_addr)"] if cls == "MacroSourceMapping" else [],
            properties=["C14"],
            note="deserialize(serialize(x)) has fieldwise identical content (composition of the two contracts)",
        )

    # ------------------------------------------------------------------ rewrite_offsets
    reg.contract(
        SM + ":SourceMap.rewrite_offsets",
        types={"self": "SourceMap", "new_mapping": "dict[int, int]"},
        requires=[
            "inj(new_mapping)",  # C14 quantifies over injective offset mappings
            "dict_wf(new_mapping)",
            "int_keys(new_mapping)",
            "int_keys(self._mappings)",
            "int_keys(self._mappings_macros)",
            # representation invariant: every macro entry is its own object (established by SourceMapBuilder.add_macro_opcode
            # and SourceMap.deserialize, which allocate one MacroSourceMapping per key)
            "distinct_values(self._mappings_macros)",
        ],
        ensures=[
            # op table: exactly { new[k] -> old[k] | k in dom(old) & dom(new) }
            "all_int(lambda j: implies(j in old(self._mappings) and j in new_mapping, new_mapping[j] in self._mappings and self._mappings[new_mapping[j]] is old(self._mappings[j])))",
            "all_val(lambda k: implies(k in self._mappings, any_int(lambda j: j in old(self._mappings) and j in new_mapping and new_mapping[j] == k)))",
            # macro table likewise
            "all_int(lambda j: implies(j in old(self._mappings_macros) and j in new_mapping, new_mapping[j] in self._mappings_macros and self._mappings_macros[new_mapping[j]] is old(self._mappings_macros[j])))",
            "all_val(lambda k: implies(k in self._mappings_macros, any_int(lambda j: j in old(self._mappings_macros) and j in new_mapping and new_mapping[j] == k)))",
            # return addresses of surviving macro entries follow the rule of C14
            "all_int(lambda j: implies(j in old(self._mappings_macros) and j in new_mapping, ra_spec(old(self._mappings_macros[j].return_addr), old(self._mappings_macros[j]).return_addr, new_mapping)))",
        ],
        modifies=["self._mappings", "self._mappings_macros", "*return_addr", "alloc"],
        loops={
            0: dict(
                invariants=[
                    "all_int(lambda j: implies(0 <= j and j < it_i, ra_spec(at_loop_entry(it_val(j).return_addr), it_val(j).return_addr, new_mapping)))",
                    "all_int(lambda j: implies(it_i <= j and j < it_n, it_val(j).return_addr is at_loop_entry(it_val(j).return_addr)))",
                ]
            ),
            1: dict(
                invariants=[
                    "is_int(addr)",
                    "is_int(m.return_addr) and m.return_addr != 0",
                    "addr >= m.return_addr",
                    "all_int(lambda q: implies(m.return_addr <= q and q < addr, q not in new_mapping))",
                ],
                decreases="max_old_offset - addr",
                types={"addr": "int | None"},
            ),
        },
        canaries=[
            # off-by-one reading of the rule: "the next surviving op strictly after"
            "all_int(lambda j: implies(j in old(self._mappings_macros) and j in new_mapping and is_int(old(self._mappings_macros[j].return_addr)) and old(self._mappings_macros[j].return_addr) in new_mapping, old(self._mappings_macros[j]).return_addr is old(self._mappings_macros[j].return_addr)))",
        ],
        properties=["C14"],
    )

    # ------------------------------------------------------------------ small members added in session 4
    # C14 "compares equal to the original": SourceMapPositionMark.__eq__ is exactly class membership + equality of all nine
    # fields (SourceMapping.__eq__ calls type(), which is outside the pyvc subset: covered by the C14 stand-ins only)
    reg.contract(
        SM + ":SourceMapPositionMark.__eq__",
        types={"self": "SourceMapPositionMark", "other": "Any"},
        returns="bool",
        ensures=[
            "implies(not isinstance(other, SourceMapPositionMark), result == False)",
            "implies(isinstance(other, SourceMapPositionMark), result == (" + " and ".join(f"self.{f} == typed(other, 'SourceMapPositionMark').{f}" for f in pm_fields) + "))",
        ],
        modifies=[],
        canaries=["result"],
        properties=["C14"],
    )
    # C08 / C18: a position mark written inside a macro is appended, with its file and macro, behind the earlier ones
    reg.contract(
        SM + ":SourceMapBuilder.add_macro_position_mark",
        types={"self": "SourceMapBuilder", "if_incl_rel_path": "str | None", "macro_name": "str", "position_mark": "SourceMapPositionMark"},
        returns="SourceMapBuilder",
        ensures=[
            "result is self",
            "len(self._pos_marks_macros) == old(len(self._pos_marks_macros)) + 1",
            "all_int(lambda j: implies(0 <= j and j < old(len(self._pos_marks_macros)), self._pos_marks_macros[j] is old(self._pos_marks_macros[j])))",
            "self._pos_marks_macros[len(self._pos_marks_macros) - 1][0] is if_incl_rel_path",
            "self._pos_marks_macros[len(self._pos_marks_macros) - 1][1] is macro_name",
            "self._pos_marks_macros[len(self._pos_marks_macros) - 1][2] is position_mark",
        ],
        modifies=["list(self._pos_marks_macros)", "alloc"],
        canaries=["len(self._pos_marks_macros) == old(len(self._pos_marks_macros))"],
        properties=["C08"],
    )

    # C14 "compares equal ... macro entries (file, macro, position, call site, return address, parameter mapping)":
    # MacroSourceMapping.__eq__ may only answer True when every one of those fields agrees
    reg.contract(
        SM + ":MacroSourceMapping.__eq__",
        types={"self": "MacroSourceMapping", "other": "Any"},
        returns="bool",
        ensures=[
            "implies(not isinstance(other, MacroSourceMapping), result == False)",
            "implies(result, self.line == typed(other, 'MacroSourceMapping').line and self.column == typed(other, 'MacroSourceMapping').column)",
            "implies(result, self.relpath_included_file == typed(other, 'MacroSourceMapping').relpath_included_file and self.macro_name == typed(other, 'MacroSourceMapping').macro_name)",
            "implies(result, self.return_addr == typed(other, 'MacroSourceMapping').return_addr)",
            "implies(result, self.parameter_mapping == typed(other, 'MacroSourceMapping').parameter_mapping)",
            "implies(result, is_none(self.called_in) == is_none(typed(other, 'MacroSourceMapping').called_in))",
        ],
        modifies=["alloc"],
        canaries=["result"],
        properties=["C14"],
    )

    # C14 "compares equal to the original": SourceMapping.__eq__ answers True only for an object of exactly the same class
    # with the same line and column, and answers True for such an object (type() support added to pyvc in session 4)
    reg.contract(
        SM + ":SourceMapping.__eq__",
        types={"self": "Sub[SourceMapping]", "other": "Any"},
        returns="bool",
        ensures=[
            "implies(not isinstance(other, SourceMapping), result == False)",
            "implies(result, isinstance(other, SourceMapping) and self.line == typed(other, 'Sub[SourceMapping]').line and self.column == typed(other, 'Sub[SourceMapping]').column)",
            "implies(other is self, result)",
            # an op entry never equals a macro entry (C14: "identical op entries, macro entries")
            "implies(isinstance(other, MacroSourceMapping) and not isinstance(self, MacroSourceMapping), result == False)",
        ],
        modifies=[],
        canaries=["result"],
        properties=["C14"],
    )
