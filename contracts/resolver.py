"""Sidecar contracts for offset -> label resolution in the decompilers (C02, C07)."""
from pyvc.spec import Registry

R = "explorerscript.ssb_converting.decompiler.label_jump_to_resolver"
SO = "explorerscript.ssb_converting.ssb_special_ops"

END_SPEC = "res[r] == ite(len(rs[r]) > 0, rs[r][len(rs[r]) - 1].offset, ite(r > 0, res[r - 1], 0))"


def register(reg: Registry) -> None:
    reg.load_module(SO)
    reg.load_module("explorerscript.ssb_converting.ssb_data_types")
    reg.fields({"SsbOperation.offset": "int", "SsbOperation.params": "list[Any]", "SsbOperation.op_code": "SsbOpCode", "SsbNamedId.name": "str", "SsbNamedId.id": "int",
                "SsbLabel.id": "int", "SsbLabel.routine_id": "int", "SsbLabel.referenced_from_other_routine": "bool"})
    reg.spec_fn("end_spec", ["res", "rs", "r"], END_SPEC)
    reg.contract(
        R + ":OpsLabelJumpToResolver._build_end_offsets",
        types={"self": "OpsLabelJumpToResolver", "routines": "list[list[Sub[SsbOperation]]]"},
        returns="list[int]",
        ensures=["fresh(result)", "len(result) == len(routines)",
                 # entry r = offset of the last op of routine r, or the previous entry (0 at the start) for an empty routine
                 "all_int(lambda r: implies(0 <= r and r < len(routines), end_spec(result, routines, r)))"],
        modifies=["alloc"],
        loops={0: dict(invariants=[
            "len(offsets) == it_i", "fresh(offsets)", "is_int(prev_offset)",
            "prev_offset == ite(it_i > 0, offsets[it_i - 1], 0)",
            "all_int(lambda r: implies(0 <= r and r < it_i, end_spec(offsets, routines, r)))"])},
        canaries=["all_int(lambda r: implies(0 <= r and r < len(routines), result[r] == 0))"],
        properties=["C02", "C07"],
    )
    register_jump(reg)


def register_jump(reg: Registry) -> None:
    reg.fields({"SsbLabelJump._root": "SsbOperation | None", "SsbLabelJump.label": "Sub[SsbLabel] | None", "SsbLabelJump.markers": "list[Any]",
                "SsbLabel.markers": "list[Any]"})
    # the routine whose offset range contains `off`: ends[rid-1] < off <= ends[rid]  (ends = offset of the last op per routine)
    reg.spec_fn("contains", ["ends", "rid", "off"], "0 <= rid and rid < len(ends) and off <= ends[rid] and (rid == 0 or ends[rid - 1] < off)")
    reg.spec_fn("in_table", ["name"], "name in OPS_WITH_JUMP_TO_MEM_OFFSET")
    reg.contract(
        SO + ":process_op_for_jump",
        types={"op": "SsbOperation", "known_labels": "dict[int, Sub[SsbLabel]]", "routine_id": "int", "routine_end_offsets": "list[int]"},
        returns="Sub[SsbOperation]",
        requires=[
            "dict_wf(known_labels)",
            "0 <= routine_id and routine_id < len(routine_end_offsets)",
            # binary-reader input: the jump parameter exists and is an int (well-formed SSB, C02)
            "implies(in_table(op.op_code.name), len(op.params) > OPS_WITH_JUMP_TO_MEM_OFFSET[op.op_code.name] and is_int(op.params[OPS_WITH_JUMP_TO_MEM_OFFSET[op.op_code.name]]))",
            # ends are non-decreasing (offsets increase through the file)
            "all_int(lambda a, b: implies(0 <= a and a <= b and b < len(routine_end_offsets), routine_end_offsets[a] <= routine_end_offsets[b]))",
        ],
        raises=[("ValueError", "in_table(op.op_code.name) and op.params[OPS_WITH_JUMP_TO_MEM_OFFSET[op.op_code.name]] not in known_labels and op.params[OPS_WITH_JUMP_TO_MEM_OFFSET[op.op_code.name]] > routine_end_offsets[len(routine_end_offsets) - 1]", True)],
        ensures=[
            "implies(not in_table(op.op_code.name), result is op)",
            "implies(in_table(op.op_code.name), fresh(result) and type_is(result, SsbLabelJump))",
            # the root is a fresh copy of op without the jump parameter
            "implies(in_table(op.op_code.name), fresh(typed(result, 'SsbLabelJump')._root) and typed(result, 'SsbLabelJump')._root.offset == op.offset and typed(result, 'SsbLabelJump')._root.op_code is op.op_code)",
            "implies(in_table(op.op_code.name), len(typed(result, 'SsbLabelJump')._root.params) == len(op.params) - 1)",
            "implies(in_table(op.op_code.name), all_int(lambda j: implies(0 <= j and j < len(op.params) - 1, typed(result, 'SsbLabelJump')._root.params[j] is op.params[ite(j < OPS_WITH_JUMP_TO_MEM_OFFSET[op.op_code.name], j, j + 1)])))",
            # frame: the input op keeps its parameters
            "len(op.params) == old(len(op.params)) and all_int(lambda j: implies(0 <= j and j < len(op.params), op.params[j] is old(op.params[j])))",
            # the label is THE label of the target offset
            "implies(in_table(op.op_code.name), op.params[OPS_WITH_JUMP_TO_MEM_OFFSET[op.op_code.name]] in known_labels and typed(result, 'SsbLabelJump').label is known_labels[op.params[OPS_WITH_JUMP_TO_MEM_OFFSET[op.op_code.name]]])",
            # labels of other offsets are untouched
            "all_val(lambda k: implies(old(k in known_labels), k in known_labels and known_labels[k] is old(known_labels[k])))",
            "all_val(lambda k: implies(k in known_labels and not old(k in known_labels), in_table(op.op_code.name) and k == op.params[OPS_WITH_JUMP_TO_MEM_OFFSET[op.op_code.name]]))",
            # a new label gets a fresh id above all existing ones and lives in the routine that contains the target
            "implies(in_table(op.op_code.name) and not old(op.params[OPS_WITH_JUMP_TO_MEM_OFFSET[op.op_code.name]] in known_labels), all_val(lambda k: implies(old(k in known_labels), old(known_labels[k].id) < typed(result, 'SsbLabelJump').label.id)))",
            "implies(in_table(op.op_code.name) and not old(op.params[OPS_WITH_JUMP_TO_MEM_OFFSET[op.op_code.name]] in known_labels), contains(routine_end_offsets, typed(result, 'SsbLabelJump').label.routine_id, op.params[OPS_WITH_JUMP_TO_MEM_OFFSET[op.op_code.name]]))",
        ],
        modifies=["dict(known_labels)", "*referenced_from_other_routine", "alloc"],
        loops={
            0: dict(invariants=["is_int(routine_id)", "0 <= routine_id and routine_id <= at_loop_entry(routine_id)",
                                "all_int(lambda q: implies(routine_id <= q and q < at_loop_entry(routine_id), old_offset <= routine_end_offsets[q]))"],
                    decreases="routine_id"),
            1: dict(invariants=["is_int(routine_id)", "0 <= routine_id and routine_id < len(routine_end_offsets)", "at_loop_entry(routine_id) <= routine_id",
                                "all_int(lambda q: implies(at_loop_entry(routine_id) <= q and q < routine_id, old_offset > routine_end_offsets[q]))"],
                    decreases="len(routine_end_offsets) - routine_id"),
        },
        canaries=["result is op"],
        properties=["C02", "C07"],
    )
