"""Native monitor for ExplorerScriptMacro._process_parameters (run-time form of the contract in contracts/macro.py): a fresh
list, same length, every constant that names a macro variable replaced by the argument - SIMULTANEOUSLY (an argument that is
itself a constant named like another variable is not substituted again) - everything else the same object."""
import random

from explorerscript.macro import ExplorerScriptMacro
from explorerscript.ssb_converting.ssb_data_types import SsbOpParamConstant, SsbOpParamConstString

M = "explorerscript.macro"
NAMES = ["$x", "$y", "$z", "CONST_A"]


def _val(rng):
    k = rng.random()
    if k < 0.4:
        return SsbOpParamConstant(rng.choice(NAMES))
    if k < 0.6:
        return rng.randint(-3, 9)
    return SsbOpParamConstString(rng.choice(["s", "$x"]))


def gen(rng: random.Random):
    params = [_val(rng) for _ in range(rng.randint(0, 5))]
    mp = {n: _val(rng) for n in rng.sample(NAMES[:3], rng.randint(0, 3))}
    return {"self": None, "original_params": params, "macro_params": mp}


def monitor(args):
    params, mp = args["original_params"], args["macro_params"]
    before = list(params)
    mp_before = dict(mp)
    macro = args.get("self") or ExplorerScriptMacro.__new__(ExplorerScriptMacro)
    res = ExplorerScriptMacro._process_parameters(macro, params, mp)
    if res is params:
        return "the result is the parameter list of the blueprint itself, not a copy"
    if list(params) != before or any(a is not b for a, b in zip(params, before)):
        return "the blueprint's parameter list was changed"
    if dict(mp) != mp_before:
        return "the argument mapping was changed"
    if len(res) != len(before):
        return f"{len(res)} parameters out for {len(before)} in"
    for i, (p, r) in enumerate(zip(before, res)):
        want = mp[p.name] if isinstance(p, SsbOpParamConstant) and p.name in mp else p
        if r is not want:
            return f"parameter {i}: {p!r} became {r!r}, expected {want!r} (substitution is simultaneous)"
    return None


def rep(args):
    return repr((args["original_params"], args["macro_params"]))


def g_sm(rng):
    from contracts.native_source_map import g_map

    return g_map(rng)


def mon_get(table, meth):
    def monitor_(args):
        sm, off = args["self"], args["op_offset"]
        t = getattr(sm, table)
        r = getattr(sm, meth)(off)
        if (off in t and r is not t[off]) or (off not in t and r is not None):
            return f"{meth}({off}) = {r!r}; table has {sorted(t)}"
        return None

    return monitor_


SMOD = "explorerscript.source_map"
NATIVE = {
    M + ":ExplorerScriptMacro._process_parameters": {"gen": gen, "monitor": monitor, "repr": rep},
    SMOD + ":SourceMap.get_op_line_and_col__direct": {"gen": lambda r: {"self": g_sm(r), "op_offset": r.randint(-1, 13)}, "monitor": mon_get("_mappings", "get_op_line_and_col__direct"), "repr": lambda a: repr((sorted(a["self"]._mappings), a["op_offset"]))},
    SMOD + ":SourceMap.get_op_line_and_col__macros": {"gen": lambda r: {"self": g_sm(r), "op_offset": r.randint(-1, 13)}, "monitor": mon_get("_mappings_macros", "get_op_line_and_col__macros"), "repr": lambda a: repr((sorted(a["self"]._mappings_macros), a["op_offset"]))},
}
